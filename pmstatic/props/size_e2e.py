"""C17 end to end: turning one size optimisation on never makes the printed module longer.

The real minify() is evaluated twice per (probe module, option, context): with the option off and with it on, everything else equal; the module it
hands to the printer is printed by the repository's printer (also evaluated). Contexts: every other option off, and every other option at its
documented default. The probes are the modules the other end-to-end rules use plus adversarial ones (names that are already short, names used
once, literals used once or twice, builtins used a few times, keyword-callable parameters, annotations of one character).
"""
import ast

from ..model import AnalysisError

SIZE_OPTIONS = ['combine_imports', 'remove_pass', 'remove_annotations', 'remove_object_base', 'remove_builtin_exception_brackets', 'remove_explicit_return_none',
                'convert_posargs_to_args', 'hoist_literals', 'rename_locals', 'rename_globals', 'constant_folding']

ADVERSARIAL = {
    'short names, single uses': '''
def f(a, b):
    c = a
    return c
def g(x):
    y = 1
    z = 2
    return x
i = 0
''',
    'keyword-callable parameters used once or twice': '''
def f(first_parameter, second_parameter=1, *, third_parameter=2):
    return first_parameter, second_parameter
def g(only_once):
    return only_once
def h(twice_used_name):
    return twice_used_name + twice_used_name
''',
    'builtins and literals used a few times': '''
def f(v):
    return len(v), len(v)
def g(v):
    return isinstance(v, str), isinstance(v, int), isinstance(v, float)
a = 'ab'
b = 'ab'
c = 'abc', 'abc'
d = 'a somewhat longer literal', 'a somewhat longer literal'
e = True, True, None, None, False
def h():
    return 'xy', 'xy', 'xy', True, True, True
''',
    'annotations, passes, returns, brackets, imports': '''
import os
import sys
from a import b
from a import c
class K(object):
    x: A
    y: int = 1
    def m(self, p: B, /, q: int = 2) -> C:
        pass
        return None
def f(a, /):
    raise ValueError()
def g():
    pass
def h(v) -> None:
    if v:
        return None
    return
t = 1 + 1
u = 10 * 10 * 10
''',
    'positional-only parameters with long names': '''
def clamp(value_to_clamp, lower_bound, upper_bound, /):
    if value_to_clamp < lower_bound:
        return lower_bound
    if value_to_clamp > upper_bound:
        return upper_bound
    return value_to_clamp
def scale(values_to_scale, scale_factor, /, *, offset=0):
    return [each_value * scale_factor + offset for each_value in values_to_scale]
class Accumulator:
    def __init__(self, initial_total, /):
        self.total = initial_total
    def add(self, amount_to_add, /):
        self.total = self.total + amount_to_add
        return self.total
''',
    'typed settings: annotated assignments whose values are literals that occur two or three times': '''
DEFAULT_HOST: str = 'localhost'
LOOPBACK_HOST: str = 'localhost'
DEFAULT_SCHEME: str = 'https'
FALLBACK_SCHEME: str = 'https'
SECURE_SCHEME: str = 'https'
DEFAULT_MODE: bytes = b'rb+'
OTHER_MODE: bytes = b'rb+'
RETRY: bool = True
VERBOSE: bool = True
STRICT: bool = True
PARENT: object = None
OWNER: object = None
def connect(host: str = 'localhost', scheme: str = 'https') -> str:
    target: str = 'localhost'
    chosen: str = 'https'
    label: str = 'a label used twice'
    other: str = 'a label used twice'
    flag: bool = True
    nothing: object = None
    return scheme + host + target + chosen + label + other + str(flag) + str(nothing)
class Endpoint:
    kind: str = 'https'
    host: str = 'localhost'
''',
    'every kind of constant, two to four times each, in expression position': '''
from typing import Callable, Tuple
Shape = Tuple[int, ...]
Handler = Callable[..., int]
Pair = Tuple[str, ...]
def spread(grid, fill=..., other=...):
    if fill is ... or other is ...:
        return grid[..., 0], grid[0, ...], grid[...]
    return grid[..., 1]
def numbers(v):
    return v + 1000000, v - 1000000, v * 1000000, v + 0.000001, v - 0.000001, v * 1e100, v / 1e100, v + 12j, v - 12j, -255, -255, -255, ~v, 0xffffffff, 0xffffffff
def texts(v):
    return v + 'ab', v + 'ab', v + 'ab', v + '', v + '', v + '', v + 'a', v + 'a', v + 'a', v + 'a', b'ab', b'ab', b'ab', b'', b'', b''
def singletons(v):
    return (v is None, v is None, v is None, v is True, v is True, v is False, v is False, v is not None, [None, None], (True, False), {None: None})
def nested(v):
    return (('ab', 'ab'), ['ab', ('ab',)], {'ab': 'ab'}, f"{v!r:>{10}} ab {'ab'}", 'ab' 'ab', (1000000, (1000000, (1000000,))))
''',
    'a short literal used twice in a function whose body starts with a compound statement': '''
def f(x):
    for i in x:
        print('abc', i, 'abc')
''',
    'a parameter used twice in a function whose body starts with a compound statement': '''
def f(value):
    for i in value:
        print(value)
''',
    'a short literal used twice, each time directly after a keyword': '''
def f(x):
    if x:
        return 'abc'
    return 'abc'
''',
    'class attributes, globals, nonlocal': '''
counter_value = 0
def bump():
    global counter_value
    counter_value = counter_value + 1
    return counter_value
def outer():
    captured_name = 1
    def inner():
        nonlocal captured_name
        captured_name += 1
        return captured_name
    return inner
class Holder:
    attribute_name = 1
    def get(self):
        return self.attribute_name, Holder.attribute_name
''',
}


def _constant_counts():
    kinds = ['...', 'None', 'True', 'False', "'ab'", "''", "'a'", "'abcdefgh'", "b'ab'", "b''", '1000000', '1e100', '12j', '0xffffffff', "'\\n'"]
    for n in (2, 3):
        # one function: each kind of constant exactly n times (where the cost model has to be exact: a saving of one character per use)
        body = ', '.join('v[%s]' % k for k in kinds for _ in range(n))
        ADVERSARIAL['every kind of constant exactly %d times in one function, as a subscript' % n] = 'def f(v):\n    return (%s)\n' % body
        body = ', '.join('v is %s' % k if k in ('...', 'None', 'True', 'False') else 'v == %s' % k for k in kinds for _ in range(n))
        ADVERSARIAL['every kind of constant exactly %d times in one function, next to an operator' % n] = 'def f(v):\n    return (%s)\n' % body
        ADVERSARIAL['every kind of constant exactly %d times at module level' % n] = ''.join('x%d_%d = v[%s]\n' % (i, j, k) for i, k in enumerate(kinds) for j in range(n))


_constant_counts()


def probes():
    from . import rename_e2e, hoist_e2e, transform_e2e
    out = dict(ADVERSARIAL)
    for k, v in rename_e2e.PROBES.items():
        out['rename probe: ' + k] = v
    for k, v in hoist_e2e.PROBES.items():
        out['hoist probe: ' + k] = v
    out['work for every transform'] = transform_e2e.work_for_everyone()
    return out


def printed(model, source, options):
    from ..absprint import print_obj
    from ..minrun import minify_tree
    kind, tree, mod = minify_tree(model, source, options)
    if kind != 'ok':
        return None, 'minify raises %s' % (tree,)
    kind, text = print_obj(model, mod)
    if kind == 'raise':
        return None, 'the printer raises %s' % (text,)
    if kind != 'ok':
        raise AnalysisError('UNDECIDED: printing a probe under %s: %s %s' % (sorted(k for k, v in options.items() if v), kind, text))
    return text, None


def run(model, rep, rule='C17.E2E', tier='quick'):
    from ..minrun import option_names
    mi = model.func('python_minifier.minify')
    names = option_names(model)
    for o in SIZE_OPTIONS:
        if o not in names:
            raise AnalysisError('lost anchor: minify() has no option %r' % o)
    defaults = {}
    for o in names:
        d = mi.defaults().get(o)
        defaults[o] = d.value if isinstance(d, ast.Constant) and isinstance(d.value, bool) else True
    contexts = [('every other option off', {o: False for o in names}), ('every other option at its default', dict(defaults))]
    shorter = 0
    cache = {}

    def size(source, opts):
        key = (source, tuple(sorted(opts.items())))
        if key not in cache:
            cache[key] = printed(model, source, opts)
        return cache[key]
    for label, source in sorted(probes().items()):
        try:
            ast.parse(source)
        except SyntaxError:
            rep.note('%s: this interpreter cannot parse the probe %r' % (rule, label))
            continue
        for cname, base in contexts:
            if cname != 'every other option off' and tier != 'thorough' and not (label in ADVERSARIAL or label == 'work for every transform'):
                continue      # quick tier: interactions with the other default options on the adversarial probes only
            worse = []
            for opt in SIZE_OPTIONS:
                off, err0 = size(source, dict(base, **{opt: False}))
                on, err1 = size(source, dict(base, **{opt: True}))
                if err0 or err1:
                    worse.append('%s: %s' % (opt, err1 or err0))
                    continue
                if len(on) > len(off):
                    worse.append('%s makes the output %d characters longer (%d -> %d)' % (opt, len(on) - len(off), len(off), len(on)))
                elif len(on) < len(off):
                    shorter += 1
            rep.check(not worse, rule, mi.loc(), 'probe `%s`, %s: each of the %d size options on vs off' % (label, cname, len(SIZE_OPTIONS)), 'never longer',
                      '; '.join(worse[:3]), key='%s|%s|%s%s' % (rule, label, cname, ''.join('|' + w.split(' ')[0].rstrip(':') for w in worse)), cells=2 * len(SIZE_OPTIONS))
    rep.count('option_runs_that_shortened_the_output', shorter)
    rep.sensitive(shorter >= 30, 'only %d (probe, option) pairs got shorter at all: the size rule has lost its sensitivity' % shorter)
    rep.floor(rule, 10)
