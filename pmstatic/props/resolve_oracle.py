"""O14 - resolution oracle: alpha-equivalence decided per identifier *occurrence* through the interpreter's symbol tables, without assuming that
every binding of the probe has a unique name.

For the original program and for the output (same structure, walked in parallel by rename_e2e._walk_pairs) every identifier position is resolved
under the interpreter's own scoping rules (symtable of the scope the position is evaluated in: local -> that scope; free / nonlocal -> the nearest
enclosing *function* scope that binds it, class scopes skipped; global, declared or implicit -> the module / builtins). A binding is identified by
(kind, scope path, name). The output is alpha-equivalent to the original iff

 * position by position the two resolutions have the same kind and the same scope path,
 * the relation {(binding of the original, binding of the output)} is a bijection (one binding never splits, two bindings never merge - this is
   where `nonlocal B,B`, a local captured by a global declaration, or a free reference captured by a renamed local show),

and the interface clauses (C04, C10) are read off the same relation: a global name the module never binds, a class attribute, a system name, a
module-level name without rename_globals, a preserved name keep their spelling. A name a class body reads *before* it binds it is looked up in the
module's globals / builtins at run time: such a read couples the class attribute with the global of the same name (both keep one spelling).

The statements `new = parameter` / `new = builtin` the renamer inserts are recognised by rename_e2e._strip_rebinds (per function); occurrences of
`new` stand for the re-bound name.
"""
import ast
import builtins

BINDING_ROLES = ('definition', 'import', 'handler', 'capture', 'typeparam', 'name:Store', 'name:Del')


def resolve(tables, path, name):
    """-> ('L', scope path, name) | ('G', name) | None (no table / symbol: not decided)."""
    t = tables.get(path)
    if t is None:
        return None
    if path == ():
        return ('G', name)
    try:
        sym = t.lookup(name)
    except KeyError:
        return None
    if sym.is_global():
        return ('G', name)
    if sym.is_local() and not sym.is_free():
        return ('L', path, name)
    # free (incl. declared nonlocal): nearest enclosing function scope in which the name is local
    p = path[:-1]
    while p != ():
        tt = tables.get(p)
        if tt is None:
            return None
        if tt.get_type() == 'function':
            try:
                s2 = tt.lookup(name)
            except KeyError:
                s2 = None
            if s2 is not None:
                if s2.is_global():
                    return ('G', name)
                if s2.is_local() and not s2.is_free():
                    return ('L', p, name)
        p = p[:-1]
    return ('G', name)


def early_class_reads(tree):
    """{(class node id, name)} for names a class body reads in a statement before any statement that binds them (straight-line part of the body only):
    `value = value`, `x: T = x`, `h = helper(h)`. Such a read reaches the module's globals / builtins."""
    out = {}
    for cls in ast.walk(tree):
        if not isinstance(cls, ast.ClassDef):
            continue
        bound = set()
        for st in cls.body:
            if not isinstance(st, (ast.Assign, ast.AnnAssign, ast.AugAssign, ast.Expr)):
                break                      # compound statement, def, import ...: order of evaluation is no longer one line after the other
            value = st.value
            if value is not None:
                for n in ast.walk(value):
                    if isinstance(n, (ast.Lambda, ast.ListComp, ast.SetComp, ast.DictComp, ast.GeneratorExp)):
                        break
                else:
                    for n in ast.walk(value):
                        if isinstance(n, ast.Name) and isinstance(n.ctx, ast.Load) and n.id not in bound:
                            out.setdefault(id(cls), set()).add(n.id)
            targets = st.targets if isinstance(st, ast.Assign) else ([st.target] if not isinstance(st, ast.Expr) else [])
            for t in targets:
                bound |= {x.id for x in ast.walk(t) if isinstance(x, ast.Name)}
            if isinstance(st, ast.AugAssign) and isinstance(st.target, ast.Name) and st.target.id not in bound - {st.target.id}:
                out.setdefault(id(cls), set()).add(st.target.id)
    return out


def problems(source, text, orig_tree, pairs, scope_nodes, aliases_by_path, tables_of, rename_globals=False, preserve_locals=(), preserve_globals=()):
    """pairs: (name in original, name in output, scope path, role) from rename_e2e._walk_pairs; scope_nodes: path -> (original node, output node);
    aliases_by_path: path -> {new: re-bound old name}; tables_of(text) -> {path: symbol table}."""
    out = []
    ta = tables_of(source, source)
    tb = tables_of(source, text)
    fwd, back = {}, {}
    binds = set()           # bindings of the original that some position actually binds (as opposed to: only declared / only read)
    seen_at = {}
    for (x, y, path, role) in pairs:
        if role.startswith('decorators:'):
            continue
        bo, bn = resolve(ta, path, x), resolve(tb, path, y)
        if bo is None or bn is None:
            continue
        # occurrences of a re-binding alias stand for the re-bound name
        if bn[0] == 'L' and y in aliases_by_path.get(bn[1], {}):
            bn = ('L', bn[1], aliases_by_path[bn[1]][y])
        elif bn[0] == 'G' and y in aliases_by_path.get((), {}):
            bn = ('G', aliases_by_path[()][y])
        where = '/'.join(path) or 'the module'
        if bo[0] != bn[0] or (bo[0] == 'L' and bo[1] != bn[1]):
            def say(b):
                return 'the module / builtins' if b[0] == 'G' else 'the scope ' + '/'.join(b[1])
            out.append('%s (%s) in %s resolves to a binding of %s; its counterpart %s resolves to a binding of %s' % (x, role, where, say(bo), y, say(bn)))
            continue
        fwd.setdefault(bo, {}).setdefault(bn, where)
        back.setdefault(bn, {}).setdefault(bo, where)
        seen_at.setdefault(bo, where)
        if role in BINDING_ROLES or role.startswith('parameter:'):
            binds.add(bo)

    def show(b):
        return b[-1] + (' (global)' if b[0] == 'G' else ' (local to %s)' % '/'.join(b[1]))
    for bo, bns in sorted(fwd.items(), key=repr):
        if len(bns) > 1:
            out.append('the binding %s is split: its occurrences are now %s' % (show(bo), ', '.join(sorted(show(b) for b in bns))))
    for bn, bos in sorted(back.items(), key=repr):
        if len(bos) > 1:
            out.append('the bindings %s are merged into %s (seen in %s)' % (', '.join(sorted(show(b) for b in bos)), show(bn), sorted(bos.values())[0]))
    if out:
        return out[:4]
    final = {bo: next(iter(bns)) for bo, bns in fwd.items()}
    # interface clauses
    for bo, bn in sorted(final.items(), key=repr):
        x, y = bo[-1], bn[-1]
        if x == y:
            continue
        if bo[0] == 'G':
            if bo not in binds:
                out.append('%s is a global name the module never binds (a builtin, or a name supplied from outside), but it is renamed to %s' % (x, y))
            elif not rename_globals:
                out.append('%s is bound at module level and global renaming is off, but it is renamed to %s' % (x, y))
            elif x in preserve_globals:
                out.append('%s is in preserve_globals but is renamed to %s' % (x, y))
        else:
            t = ta.get(bo[1])
            if t is not None and t.get_type() == 'class':
                out.append('%s is a class attribute of %s but is renamed to %s' % (x, '/'.join(bo[1]), y))
            elif x in preserve_locals:
                out.append('%s is in preserve_locals but is renamed to %s' % (x, y))
        if x.startswith('__') and x.endswith('__'):
            out.append('the system name %s is renamed to %s' % (x, y))
    # a class body that reads a name before binding it reads the global of that name
    early = early_class_reads(orig_tree)
    if early:
        gmap = {bo[-1]: bn[-1] for bo, bn in final.items() if bo[0] == 'G'}
        for path, (na, nb) in scope_nodes.items():
            if not isinstance(na, ast.ClassDef) or id(na) not in early:
                continue
            for name in sorted(early[id(na)]):
                bo = resolve(ta, path, name)
                if bo is None or bo[0] != 'L' or bo[1] != path:
                    continue               # not a class-local name: an ordinary reference
                attr = final.get(bo, bo)[-1]
                glob = gmap.get(name, name)
                if attr != glob:
                    out.append('the class body %s reads %s before binding it (the value comes from the module\'s globals / builtins), but the attribute is spelled %s and the '
                               'global %s in the output' % ('/'.join(path), name, attr, glob))
                elif name not in gmap and any(v == attr and k != name for k, v in gmap.items()):
                    out.append('the class body %s reads %s before binding it; in the output that spelling is the new name of another global' % ('/'.join(path), name))
    return out[:4]
