"""C08 - every compilable module is minified without error into a compilable module (structural clauses)."""
import ast

from ..astutil import calls, kwarg, local_defs
from ..callgraph import CallGraph
from ..facts import Facts, fact_texts
from ..model import AnalysisError, src, walk_own
from ..pipeline import Pipeline
from . import c02

BROAD = ('Exception', 'BaseException')


def run(model, rep):
    rep.explanation = ('(EX) every node class of the interpreter\'s grammar has a print handler and every statement class a dispatch entry (a missing one is RuntimeError / KeyError '
                       'on valid input). (PASS) minify hands its source argument itself to ast.parse, outside any try and before anything that could raise, so a SyntaxError reaches '
                       'the caller unchanged. (ERRD) the fallible evaluation sites (f-string candidate generation, both folding evaluations) sit inside broad handlers. (CELLS) a reduced '
                       'set of printer cells is abstractly evaluated - every statement form in every block position, all sampled literals including integers beyond the '
                       'int-to-str digit limit - and must neither raise nor produce text that fails to parse; the full table is decided under C02. (RAISE) explicit raise / assert '
                       'sites reachable from minify are inventoried. Compiler-level rejections introduced by renaming are decided under C03.TAB. Not decided: absence of implicit '
                       'exceptions in general.')
    for r, t in [('C08.EX1', 'print handler for every node class'), ('C08.EX2', 'dispatch entry for every statement class'), ('C08.TAB1', 'compound statement list'), ('C08.TAB3', 'precedence entries'),
                 ('C08.KEYW', 'keyword tables'), ('C08.PASS', 'SyntaxError pass-through'), ('C08.ERRD', 'error discipline at fallible evaluations'),
                 ('C08.CELLS', 'statement / literal cells print without error and re-parse'), ('C08.E2E', 'minify() end to end on the probe modules under three option sets: returns, result compiles'), ('C08.RAISE', 'inventory of explicit raise sites (informational)')]:
        rep.rule(r, t)
    c02.static_tables(model, rep, 'C08')
    # ---------------- PASS
    # minify() evaluated with the parser answered by the checker (pmstatic.apirun): a SyntaxError (or any other error the interpreter raises for the
    # source) reaches the caller as it is, and the object that is parsed is the caller's source itself
    from .. import apirun
    mi = model.func('python_minifier.minify')
    for exc in ('SyntaxError', 'IndentationError', 'ValueError', 'UnicodeDecodeError', 'RecursionError'):
        r = apirun.run(model, kwargs={}, parse_raises=exc, source=b'\xffsource bytes')
        parsed = [t for t in r.trace if t[0] == 'parse']
        ok = r.outcome[0] == 'raise' and str(r.outcome[1]).split(':')[0].split('(')[0] == exc and len(parsed) == 1 and parsed[0][1] == b'\xffsource bytes' and \
            not [t for t in r.trace if t[0] in ('stage', 'call')]
        rep.check(ok, 'C08.PASS', mi.loc(), 'the parser raises %s -> minify() %s' % (exc, r.outcome), 'the same error reaches the caller, nothing else has run',
                  'an error the interpreter raises for the source does not reach the caller unchanged (%s; parsed %r)' % (r.outcome, [t[1] for t in parsed]), key='C08.PASS|' + exc)
    r = apirun.run(model, kwargs={}, source='text source')
    parsed = [t for t in r.trace if t[0] == 'parse']
    rep.check(len(parsed) == 1 and parsed[0][1] == 'text source', 'C08.PASS', mi.loc(), 'what is handed to the parser', 'the caller\'s source object itself, once',
              'the source is transformed before it is parsed, or parsed more than once: %r' % [t[1] for t in parsed], key='C08.PASS|parse')
    rep.floor('C08.PASS', 6)

    # ---------------- ERRD
    fs = 'python_minifier.f_string.'
    cand = model.func(fs + 'FString.candidates')
    CF = Facts(cand.node)
    n = 0
    for c in calls(cand.node):
        t = src(c.func)
        if t in ('self.str_for', 'self.complete_debug_specifier') or t.endswith('.get_candidates'):
            n += 1
            f = CF.facts_at(c)
            ok = f is not None and any(('<try-catches:%s>' % b, True) in f for b in BROAD)
            rep.check(ok, 'C08.ERRD', cand.loc(c), src(c)[:70], 'inside a broad handler: an unrepresentable candidate is dropped, not raised',
                      'candidate generation can raise out of the f-string printer (quote exhaustion, backslash, NUL are ValueError by design)', key='C08.ERRD|fstring|' + t)
    ica = model.func(fs + 'FString.is_correct_ast')
    IF = Facts(ica.node)
    for c in calls(ica.node):
        if src(c.func) in ('ast.parse', 'compare_ast'):
            n += 1
            f = IF.facts_at(c)
            ok = f is not None and any(('<try-catches:%s>' % b, True) in f for b in BROAD)
            rep.check(ok, 'C08.ERRD', ica.loc(c), src(c)[:70], 'inside a broad handler', 'candidate filter lets parser errors escape', key='C08.ERRD|filter|' + src(c.func))
    # the folding transform: run abstractly on literal arithmetic whose evaluation fails (division by zero, negative shifts, overflow): it must not raise
    from .c07 import enum as fold_enum
    fold_enum(model, rep, rule='C08.ERRD', only_raises=True)
    rep.floor('C08.ERRD', 8)

    # ---------------- CELLS (reduced; the full tables run under C02)
    PAREN_SENSITIVE = ('Tuple', 'Tuple1', 'StarTuple', 'Yield', 'YieldFrom', 'NamedExpr', 'Lambda', 'IfExp', 'GeneratorExp', 'Await', 'Starred')
    cells = [c for c in c02.all_cells('quick') if c[1].startswith('num ') or c[1].startswith('lay nested') or c[1].startswith('lay function') or c[1].startswith('pat case') or
             (c[1].startswith('slot ') and c[1].split('<- ')[-1] in PAREN_SENSITIVE)]
    results = c02.run_cells(model, cells)
    c02.report_cells(rep, 'C08.CELLS', results, 'src/python_minifier/{module,expression,token}_printer.py', lambda l: ' '.join(l.split(' ')[:2]).rstrip(':'), 700)

    # ---------------- E2E: minify() itself (every stage, then the printer) evaluated on the probe modules of the other properties under three option
    # sets: it returns, and what it returns is accepted by the compiler
    from ..minrun import option_names
    from . import compose_e2e, rename_e2e, size_e2e
    names = option_names(model)
    defaults = {}
    for o in names:
        d = mi.defaults().get(o)
        defaults[o] = d.value if isinstance(d, ast.Constant) and isinstance(d.value, bool) else True
    option_sets = [('every option off', {o: False for o in names}), ('the default options', defaults), ('every option on', {o: True for o in names})]
    sources = dict(size_e2e.probes())
    sources.update(('compose: ' + k, v) for k, v in compose_e2e.PROBES.items())
    sources.update(('idiom: ' + k, v) for k, v in rename_e2e.IDIOM_PROBES.items())
    sources.update(('name reuse: ' + k, v) for k, v in rename_e2e.REUSE_PROBES.items())
    for (cls_, field), srcs in rename_e2e.FORM_PROBES.items():
        sources['binding forms: %s.%s' % (cls_, field)] = '\n'.join(s_.replace('def f', 'def f%d' % i_).replace('class K', 'class K%d' % i_) for i_, s_ in enumerate(srcs))
    for label, source in sorted(sources.items()):
        try:
            compile(source, 'probe', 'exec', dont_inherit=True)
        except SyntaxError:
            rep.note('C08.E2E: this interpreter does not compile the probe %r' % label)
            continue
        for oname, opts in option_sets:
            if rep.tier != 'thorough' and oname == 'every option off' and not label.startswith(('binding forms', 'rename probe')):
                continue
            text, err = size_e2e.printed(model, source, opts)
            key = 'C08.E2E|%s|%s' % (label, oname)
            if err:
                rep.violation('C08.E2E', mi.loc(), 'probe `%s`, %s' % (label, oname), '%s for a module the interpreter compiles' % err, key=key)
                continue
            try:
                compile(text, 'minified probe', 'exec', dont_inherit=True)
                bad = None
            except (SyntaxError, ValueError) as ex:
                bad = str(ex)
            rep.check(bad is None, 'C08.E2E', mi.loc(), 'probe `%s`, %s -> %d characters' % (label, oname, len(text)), 'minify() returns and the compiler accepts the result',
                      'the compiler rejects what minify() returns (%s): %r' % (bad, text[:160]), key=key)
    rep.floor('C08.E2E', 80)

    # ---------------- RAISE inventory
    cg = CallGraph(model)
    reach = cg.reachable(['python_minifier.minify'])
    sites = []
    for q in sorted(reach):
        fi = model.funcs[q]
        F = None
        for n_ in walk_own(fi.node):
            if isinstance(n_, ast.Raise) and n_.exc is not None:
                if F is None:
                    F = Facts(fi.node)
                f = F.facts_at(n_)
                if f is None:
                    continue
                caught = any(k.startswith('<try-catches:') for (k, p) in f)
                sites.append('%s %s%s' % (fi.loc(n_), src(n_.exc)[:50], ' (caught locally)' if caught else ''))
    rep.count('explicit_raise_sites_reachable', len(sites))
    rep.ok('C08.RAISE', 'src/python_minifier', 'inventory of %d explicit raise sites reachable from minify' % len(sites), '; '.join(sites[:6]) + ' ...', key='C08.RAISE|inventory', trivial=True)
    for s in sites[:40]:
        rep.note('raise site: ' + s)
