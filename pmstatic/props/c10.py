"""C10 - names the user asks to preserve are preserved (wiring, normalisation, membership => pin)."""
import ast

from ..absint import Interp, Obj, TOP
from ..astutil import calls, kwarg, local_defs
from ..facts import Facts, fact_texts
from ..model import AnalysisError, src, walk_own
from ..pipeline import Pipeline

UTIL = 'python_minifier.rename.util'


def derives_from(defs, var, param, other_params, depth=0):
    """Every definition of local `var` is the parameter `param` itself or an expression over `param` (and module annotations) only."""
    ds = defs.get(var, [])
    if not ds:
        return False, 'no definition of ' + var
    for d in ds:
        if d == '<param>':
            if var != param:
                return False, '%s is a different parameter' % var
            continue
        if not isinstance(d, ast.AST):
            return False, 'defined by iteration'
        names = {n.id for n in ast.walk(d) if isinstance(n, ast.Name)}
        if names & set(other_params):
            return False, 'definition %s mixes in %s' % (src(d), sorted(names & set(other_params)))
        for nm in names - {param, 'module', 'list', 'sorted', 'set', 'tuple', 'str'}:
            if nm == var:
                continue
            if nm in defs and depth < 3:
                ok, why = derives_from(defs, nm, param, other_params, depth + 1)
                if not ok:
                    return False, why
    return True, 'derived from parameter ' + param


def run(model, rep):
    rep.explanation = ('(FLOW) the values handed to the three consumers (allow_rename_locals, allow_rename_globals, rename(preserved_globals=)) derive from the '
                       'right parameter of minify and from nothing else, the str -> [str] and None -> [] arms exist for both lists, find__all__ feeds the global set, '
                       'awslambda is abstractly evaluated for both entrypoint shapes; (GUARD) the two permission gates are abstractly evaluated on a namespace with '
                       'a preserved and an unrelated binding: membership pins exactly the preserved one when renaming is on; preserved globals are reserved in the module '
                       'namespace before the assignment loop. Not decided: that preserving a name changes nothing else.')
    for r, t in [('C10.FLOW', 'preserve lists wired to the right consumers, normalised, __all__ and entrypoint included'), ('C10.GUARD', 'membership => pin; reserved before assignment')]:
        rep.rule(r, t)
    # minify() itself is evaluated (pmstatic.apirun) with every stage replaced by a recorder: what do the three consumers receive?
    from .. import apirun
    mi = model.func('python_minifier.minify')
    spellings = [('None', None, []), ('a str', 'solo', ['solo']), ('a list', ['a', 'b'], ['a', 'b']), ('a tuple', ('a', 'b'), ['a', 'b']), ('an empty list', [], [])]

    def arg_of(ev, fi_name, param, index):
        (_k, _n, a, kw) = ev
        if param in kw:
            return kw[param]
        return a[index] if index < len(a) else '<not passed>'
    for (lab_l, val_l, want_l) in spellings:
        for (lab_g, val_g, want_g) in spellings:
            if (lab_l, lab_g) not in (('None', 'None'), ('a str', 'a list'), ('a list', 'a str'), ('a tuple', 'an empty list'), ('an empty list', 'a tuple'), ('a list', 'a list')):
                continue
            for preserved in ((), ('T', 'K')):
                for rename_globals in (False, True):
                    caller_l = list(val_l) if isinstance(val_l, list) else val_l
                    caller_g = list(val_g) if isinstance(val_g, list) else val_g
                    kw = {'preserve_locals': caller_l, 'preserve_globals': caller_g, 'rename_globals': rename_globals}
                    r = apirun.run(model, kwargs=kw, preserved=preserved)
                    label = 'preserve_locals=%s, preserve_globals=%s, binder-preserved=%s, rename_globals=%s' % (lab_l, lab_g, list(preserved), rename_globals)
                    key = 'C10.FLOW|wiring|' + label
                    if r.outcome[0] != 'return':
                        rep.violation('C10.FLOW', mi.loc(), label, 'minify() fails: %s' % (r.outcome,), key=key)
                        continue
                    problems = []
                    extra = sorted(preserved)
                    for (consumer, param, index, want) in (('allow_rename_locals', 'preserve_locals', 2, want_l + extra), ('allow_rename_globals', 'preserve_globals', 2, want_g + extra),
                                                           ('rename', 'preserved_globals', 2, want_g + extra)):
                        ev = r.event(consumer)
                        if ev is None:
                            problems.append('%s is not called: preserve requests are ignored' % consumer)
                            continue
                        t = model.funcs.get(apirun.imported_callables(model).get(consumer, ('', ''))[1])
                        idx = t.positional.index(param) if t is not None and param in t.positional else index
                        got = arg_of(ev, consumer, param, idx)
                        if not isinstance(got, (list, tuple)) or sorted(got) != sorted(want) or len(got) != len(want):
                            problems.append('%s receives %s=%r, expected the names %r' % (consumer, param, got, want))
                    order = r.names()
                    if 'allow_rename_globals' in order and 'rename' in order and order.index('rename') < order.index('allow_rename_globals'):
                        problems.append('names are assigned before the global permissions are set')
                    if caller_l != val_l or caller_g != val_g:
                        problems.append('the caller\'s list was modified: %r / %r' % (caller_l, caller_g))
                    rep.check(not problems, 'C10.FLOW', mi.loc(), label, 'the three consumers receive the caller\'s names plus the names the binder recorded',
                              '; '.join(problems[:3]), key=key)

    # find__all__ feeds the global set inside allow_rename_globals
    ag = model.func(UTIL + '.allow_rename_globals')
    AF = Facts(ag.node)
    adefs = local_defs(ag.node)
    pg = ag.positional[2] if len(ag.positional) > 2 else 'preserve_globals'
    feeds = False
    for c in calls(ag.node):
        if isinstance(c.func, ast.Attribute) and c.func.attr in ('extend', '__iadd__') and src(c.func.value) == pg and any('find__all__' in src(a) for a in c.args):
            # must dominate the pinning loop
            feeds = True
    for n in walk_own(ag.node):
        if isinstance(n, (ast.Assign, ast.AugAssign)) and 'find__all__' in src(n.value) and pg in src(n):
            feeds = True
    loop_after = False
    for n in walk_own(ag.node):
        if isinstance(n, ast.For) and 'bindings' in src(n.iter):
            f = AF.facts_at(n)
            loop_after = f is not None and (any(k.startswith('<did:') and 'extend' in k for (k, p) in f) or ('<assigned:%s>' % pg, True) in f)
    rep.check(feeds and loop_after, 'C10.FLOW', ag.loc(), '__all__ entries join the preserved globals before bindings are pinned', 'find__all__(module) feeds ' + pg,
              'names listed in a literal __all__ are no longer added to the preserved globals (or only after the pinning loop)', key='C10.FLOW|__all__')
    # find__all__ itself: abstract evaluation on three module shapes
    fa = model.func(UTIL + '.find__all__')
    shapes = {
        'Assign': lambda: Obj('Assign', targets=[Obj('Name', id='__all__')], value=Obj('List', elts=[Obj('Constant', value='a'), Obj('Constant', value='b')])),
        'AnnAssign': lambda: Obj('AnnAssign', target=Obj('Name', id='__all__'), value=Obj('List', elts=[Obj('Constant', value='a'), Obj('Constant', value='b')])),
        'AugAssign': lambda: Obj('AugAssign', target=Obj('Name', id='__all__'), value=Obj('List', elts=[Obj('Constant', value='a'), Obj('Constant', value='b')])),
        'other': lambda: Obj('Assign', targets=[Obj('Name', id='names')], value=Obj('List', elts=[Obj('Constant', value='zz')])),
    }
    shapes['two statements'] = lambda: [Obj('Assign', targets=[Obj('Name', id='__all__')], value=Obj('List', elts=[Obj('Constant', value='a')])),
                                        Obj('Expr', value=Obj('Name', id='x')),
                                        Obj('AugAssign', target=Obj('Name', id='__all__'), value=Obj('List', elts=[Obj('Constant', value='b')]))]
    shapes['mixed elements'] = lambda: Obj('Assign', targets=[Obj('Name', id='__all__')], value=Obj('List', elts=[Obj('Constant', value='a'), Obj('Name', id='n'), Obj('Constant', value='b'), Obj('Constant', value=1)]))
    for sh, mk in shapes.items():
        stmt = mk()
        body = stmt if isinstance(stmt, list) else [stmt]
        hooks = {'ast.iter_child_nodes': lambda I, e, args, kw, env, _s=body: list(_s)}
        I = Interp(model, UTIL, hooks)
        res = I.explore(lambda: I.call_function(fa.qual, [Obj('Module')]))
        outs = [r[0] for r in res]
        if any(o[0] != 'return' or o[1] is TOP for o in outs):
            raise AnalysisError('UNDECIDED: find__all__ on %s: %s / %s' % (sh, outs, [r[2] for r in res]))
        got = [sorted(o[1]) for o in outs]
        want = ['a', 'b'] if sh != 'other' else []
        rep.check(all(g == want for g in got), 'C10.FLOW', fa.loc(), 'find__all__ on `%s` form -> %s' % (sh, got[0]), 'string entries of a literal __all__ list', 'find__all__ returns %s for the %s form, expected %s' % (got, sh, want),
                  key='C10.FLOW|find__all__|' + sh)

    # awslambda
    aw = model.func('python_minifier.awslambda')
    for ep in (None, 'handler'):
        seen = {}

        def hook(I, e, args, kw, env):
            seen['args'] = args
            seen['kw'] = kw
            return 'code'
        I = Interp(model, 'python_minifier', {'minify': hook})
        res = I.explore(lambda: I.call_function(aw.qual, ['src', None, ep]))
        if 'kw' not in seen:
            rep.violation('C10.FLOW', aw.loc(), 'awslambda(entrypoint=%r)' % ep, 'minify is not called', key='C10.FLOW|awslambda|%r' % ep)
            continue
        rg = seen['kw'].get('rename_globals')
        pgs = seen['kw'].get('preserve_globals')
        if ep is None:
            ok = rg is False
            why = 'without an entrypoint global renaming must stay off (got rename_globals=%r)' % (rg,)
        else:
            ok = rg is True and isinstance(pgs, list) and ep in pgs
            why = 'entrypoint must be preserved: rename_globals=%r preserve_globals=%r' % (rg, pgs)
        rep.check(ok, 'C10.FLOW', aw.loc(), 'awslambda(entrypoint=%r) -> minify(rename_globals=%r, preserve_globals=%r)' % (ep, rg, pgs), 'as documented', why, key='C10.FLOW|awslambda|%r' % ep)
    rep.floor('C10.FLOW', 30)

    # ---------------- GUARD: gates pin exactly the preserved names (abstract evaluation)
    for fname, make in (('allow_rename_locals', 'FunctionDef'), ('allow_rename_globals', 'Module')):
        fi = model.func(UTIL + '.' + fname)
        b1 = Obj('NameBinding', name='keep')
        b2 = Obj('NameBinding', name='other')
        pinned = []
        hooks = {'.disallow_rename': lambda I, e, args, kw, env: pinned.append(I.last_recv),
                 'is_namespace': lambda I, e, args, kw, env: isinstance(args[0], Obj) and args[0].cls in ('FunctionDef', 'Module', 'ClassDef', 'Lambda', 'ListComp'),
                 'ast.iter_child_nodes': lambda I, e, args, kw, env: [],
                 'find__all__': lambda I, e, args, kw, env: []}
        I = Interp(model, UTIL, hooks)
        node = Obj(make, bindings=[b1, b2])
        res = I.explore(lambda: I.call_function(fi.qual, [node, True, ['keep']]))
        if any(r[0][0] != 'return' for r in res):
            raise AnalysisError('UNDECIDED: %s: %s' % (fname, [r[0] for r in res]))
        names = sorted(x.attrs.get('name') for x in pinned)
        rep.check(names == ['keep'], 'C10.GUARD', fi.loc(), '%s(rename on, preserve=[keep]) pins %s' % (fname, names), 'exactly the preserved name',
                  'with renaming on and preserve=[\'keep\'] the gate pins %s' % names, key='C10.GUARD|enum|' + fname)
    # nested scopes: allow_rename_locals recurses into every child with the same list
    al = model.func(UTIL + '.allow_rename_locals')
    rec = [c for c in calls(al.node) if isinstance(c.func, ast.Name) and c.func.id == al.name]
    ok = False
    for c in rec:
        par = model.parent(model.parent(c))
        a2 = c.args[2] if len(c.args) > 2 else kwarg(c, al.positional[2])
        a1 = c.args[1] if len(c.args) > 1 else kwarg(c, al.positional[1])
        if isinstance(par, ast.For) and 'iter_child_nodes' in src(par.iter) and src(a2) == al.positional[2] and src(a1) == al.positional[1]:
            f = Facts(al.node).facts_at(c)
            ok = f is not None and not [k for (k, p) in f if not k.startswith('<')]
    rep.check(ok, 'C10.GUARD', al.loc(), 'recursion over every child node with the same switch and list', 'unconditional recursion', 'nested scopes are not visited with the preserve list', key='C10.GUARD|recursion')
    # reserved globals are added to module.assigned_names before the assignment loop, and rename() forwards them
    na = model.func('python_minifier.rename.renamer.NameAssigner.__call__')
    rparam = na.positional[2] if len(na.positional) > 2 else None
    top = na.node.body
    idx_res = idx_loop = None
    for i, s in enumerate(top):
        t = src(s)
        if rparam and 'assigned_names.add' in t and rparam in t and idx_res is None:
            idx_res = i
        if 'sorted_bindings' in t and isinstance(s, ast.For) and idx_loop is None:
            idx_loop = i
    rep.check(idx_res is not None and idx_loop is not None and idx_res < idx_loop, 'C10.GUARD', na.loc(), 'preserved globals reserved in the module namespace before names are assigned',
              'reservation precedes the assignment loop', 'preserved global names are not reserved before other bindings pick new names: another binding can take a preserved name', key='C10.GUARD|reserve')
    rn = model.func('python_minifier.rename.renamer.rename')
    fwd = False
    for c in calls(rn.node):
        if isinstance(c.func, ast.Call) and src(c.func.func) == 'NameAssigner':
            a = c.args[2] if len(c.args) > 2 else kwarg(c, rparam)
            fwd = a is not None and src(a) == 'preserved_globals'
    rep.check(fwd, 'C10.GUARD', rn.loc(), 'rename() forwards preserved_globals to the assigner', 'forwarded', 'rename() drops preserved_globals', key='C10.GUARD|forward')
    rep.floor('C10.GUARD', 5)
