"""C10 - names the user asks to preserve are preserved (wiring, normalisation, membership => pin)."""
import ast

from ..absint import Interp, Obj, TOP
from ..astutil import calls, kwarg, local_defs
from ..facts import Facts, fact_texts
from ..model import AnalysisError, LostAnchor, src, walk_own
from ..pipeline import Pipeline

UTIL = 'python_minifier.rename.util'


def derives_from(defs, var, param, other_params, depth=0):
    """Every definition of local `var` is the parameter `param` itself or an expression over `param` (and module annotations) only."""
    ds = defs.get(var, [])
    if not ds:
        return False, 'no definition of ' + var
    for d in ds:
        if d == '<param>':
            if var != param:
                return False, '%s is a different parameter' % var
            continue
        if not isinstance(d, ast.AST):
            return False, 'defined by iteration'
        names = {n.id for n in ast.walk(d) if isinstance(n, ast.Name)}
        if names & set(other_params):
            return False, 'definition %s mixes in %s' % (src(d), sorted(names & set(other_params)))
        for nm in names - {param, 'module', 'list', 'sorted', 'set', 'tuple', 'str'}:
            if nm == var:
                continue
            if nm in defs and depth < 3:
                ok, why = derives_from(defs, nm, param, other_params, depth + 1)
                if not ok:
                    return False, why
    return True, 'derived from parameter ' + param


def run(model, rep):
    rep.explanation = ('(FLOW) the values handed to the three consumers (allow_rename_locals, allow_rename_globals, rename(preserved_globals=)) derive from the '
                       'right parameter of minify and from nothing else, the str -> [str] and None -> [] arms exist for both lists, find__all__ feeds the global set, '
                       'awslambda is abstractly evaluated for both entrypoint shapes; (GUARD) the two permission gates are abstractly evaluated on a namespace with '
                       'a preserved and an unrelated binding: membership pins exactly the preserved one when renaming is on; preserved globals are reserved in the module '
                       'namespace before the assignment loop. Not decided: that preserving a name changes nothing else.')
    for r, t in [('C10.FLOW', 'preserve lists wired to the right consumers, normalised, __all__ and entrypoint included'), ('C10.GUARD', 'membership => pin; reserved before assignment')]:
        rep.rule(r, t)
    # minify() itself is evaluated (pmstatic.apirun) with every stage replaced by a recorder: what do the three consumers receive?
    from .. import apirun
    mi = model.func('python_minifier.minify')
    spellings = [('None', None, []), ('a str', 'solo', ['solo']), ('a list', ['a', 'b'], ['a', 'b']), ('a tuple', ('a', 'b'), ['a', 'b']), ('an empty list', [], [])]

    def arg_of(ev, fi_name, param, index):
        (_k, _n, a, kw) = ev
        if param in kw:
            return kw[param]
        return a[index] if index < len(a) else '<not passed>'
    for (lab_l, val_l, want_l) in spellings:
        for (lab_g, val_g, want_g) in spellings:
            if (lab_l, lab_g) not in (('None', 'None'), ('a str', 'a list'), ('a list', 'a str'), ('a tuple', 'an empty list'), ('an empty list', 'a tuple'), ('a list', 'a list')):
                continue
            for preserved in ((), ('T', 'K')):
                for rename_globals in (False, True):
                    caller_l = list(val_l) if isinstance(val_l, list) else val_l
                    caller_g = list(val_g) if isinstance(val_g, list) else val_g
                    kw = {'preserve_locals': caller_l, 'preserve_globals': caller_g, 'rename_globals': rename_globals}
                    r = apirun.run(model, kwargs=kw, preserved=preserved)
                    label = 'preserve_locals=%s, preserve_globals=%s, binder-preserved=%s, rename_globals=%s' % (lab_l, lab_g, list(preserved), rename_globals)
                    key = 'C10.FLOW|wiring|' + label
                    if r.outcome[0] != 'return':
                        rep.violation('C10.FLOW', mi.loc(), label, 'minify() fails: %s' % (r.outcome,), key=key)
                        continue
                    problems = []
                    extra = sorted(preserved)
                    for (consumer, param, index, want) in (('allow_rename_locals', 'preserve_locals', 2, want_l + extra), ('allow_rename_globals', 'preserve_globals', 2, want_g + extra),
                                                           ('rename', 'preserved_globals', 2, want_g + extra)):
                        ev = r.event(consumer)
                        if ev is None:
                            problems.append('%s is not called: preserve requests are ignored' % consumer)
                            continue
                        t = model.funcs.get(apirun.imported_callables(model).get(consumer, ('', ''))[1])
                        idx = t.positional.index(param) if t is not None and param in t.positional else index
                        got = arg_of(ev, consumer, param, idx)
                        if not isinstance(got, (list, tuple)) or sorted(got) != sorted(want) or len(got) != len(want):
                            problems.append('%s receives %s=%r, expected the names %r' % (consumer, param, got, want))
                    order = r.names()
                    if 'allow_rename_globals' in order and 'rename' in order and order.index('rename') < order.index('allow_rename_globals'):
                        problems.append('names are assigned before the global permissions are set')
                    if caller_l != val_l or caller_g != val_g:
                        problems.append('the caller\'s list was modified: %r / %r' % (caller_l, caller_g))
                    rep.check(not problems, 'C10.FLOW', mi.loc(), label, 'the three consumers receive the caller\'s names plus the names the binder recorded',
                              '; '.join(problems[:3]), key=key)

    # every statement form of a literal __all__, end to end: minify(rename_globals=True) on a module that lists two of its three functions
    from . import rename_e2e
    body = 'def g_keep_a():\n    return g_other() + g_other()\ndef g_keep_b():\n    return g_keep_a() + g_keep_a()\ndef g_other():\n    return g_keep_b() + g_keep_b()\n'
    all_forms = {
        'Assign': "__all__ = ['g_keep_a', 'g_keep_b']\n",
        'AnnAssign': "__all__: list = ['g_keep_a', 'g_keep_b']\n",
        'AugAssign': "__all__ = []\n__all__ += ['g_keep_a', 'g_keep_b']\n",
        'two statements': "__all__ = ['g_keep_a']\nprint(g_other)\n__all__ += ['g_keep_b']\n",
        'mixed elements': "n_name = 'x'\n__all__ = ['g_keep_a', n_name, 'g_keep_b', 1]\n",
        'at the end of the module': None,
        'other list (control)': "names = ['g_keep_a', 'g_keep_b']\n",
    }
    for sh, head in all_forms.items():
        source = (head + body) if head is not None else (body + "__all__ = ['g_keep_a', 'g_keep_b']\n")
        label = '__all__ written as `%s`' % sh
        key = 'C10.FLOW|find__all__|' + sh
        try:
            text = rename_e2e.run_pipeline(model, source, rename_locals=True, rename_globals=True)
        except rename_e2e.MinifyRaises as ex:
            rep.violation('C10.FLOW', mi.loc(), label, '%s: minify fails on a valid module' % ex, key=key)
            continue
        new_of, _p = rename_e2e.final_names(source, text)
        kept = {n for n in ('g_keep_a', 'g_keep_b') if new_of.get(n) == {n}}
        other_renamed = new_of.get('g_other') != {'g_other'}
        if 'control' in sh:
            rep.check(not kept and other_renamed, 'C10.FLOW', mi.loc(), '%s -> kept %s' % (label, sorted(kept)), 'a list that is not __all__ protects nothing (the probe is sensitive)',
                      'the functions are not renamed even without an __all__ list: the probe cannot see the protection', key=key)
        else:
            rep.check(kept == {'g_keep_a', 'g_keep_b'} and other_renamed, 'C10.FLOW', mi.loc(), '%s -> kept %s, g_other -> %s' % (label, sorted(kept), sorted(new_of.get('g_other', []))),
                      'the listed names keep their spelling, the unlisted one is renamed',
                      'with %s and rename_globals on, the listed names end up as %s' % (label, {n: sorted(new_of.get(n, [])) for n in ('g_keep_a', 'g_keep_b')}) if kept != {'g_keep_a', 'g_keep_b'} else
                      'asking to keep the __all__ names also stops the renaming of g_other', key=key)

    # awslambda
    aw = model.func('python_minifier.awslambda')
    for ep in (None, 'handler'):
        seen = {}

        def hook(I, e, args, kw, env):
            seen['args'] = args
            seen['kw'] = kw
            return 'code'
        I = Interp(model, 'python_minifier', {'minify': hook})
        res = I.explore(lambda: I.call_function(aw.qual, ['src', None, ep]))
        if 'kw' not in seen:
            rep.violation('C10.FLOW', aw.loc(), 'awslambda(entrypoint=%r)' % ep, 'minify is not called', key='C10.FLOW|awslambda|%r' % ep)
            continue
        rg = seen['kw'].get('rename_globals')
        pgs = seen['kw'].get('preserve_globals')
        if ep is None:
            ok = rg is False
            why = 'without an entrypoint global renaming must stay off (got rename_globals=%r)' % (rg,)
        else:
            ok = rg is True and isinstance(pgs, list) and ep in pgs
            why = 'entrypoint must be preserved: rename_globals=%r preserve_globals=%r' % (rg, pgs)
        rep.check(ok, 'C10.FLOW', aw.loc(), 'awslambda(entrypoint=%r) -> minify(rename_globals=%r, preserve_globals=%r)' % (ep, rg, pgs), 'as documented', why, key='C10.FLOW|awslambda|%r' % ep)
    # the command line route: --preserve-globals / --preserve-locals reach minify() for every file of a run (pmstatic.clirun, shared with C13)
    from . import cli_e2e
    flags, _b, _l = cli_e2e.run_flags(model, rep.tier)
    main = model.func('python_minifier.__main__.main')
    n_cli = 0
    for (label, argv, probs) in flags:
        if not any('preserve' in a for a in argv):
            continue
        n_cli += 1
        mine = [p for p in probs if 'preserve_' in p.text]
        rep.check(not mine, 'C10.FLOW', main.loc(), 'command line: %s' % label, 'minify() receives the listed names for every file', '; '.join(p.text for p in mine[:2]), key='C10.FLOW|cli|' + label)
    rep.floor('C10.FLOW', 40)

    from . import rename_e2e
    rep.rule('C10.E2E', 'renaming end to end on probe modules with preserve lists: the listed names keep their spelling, everything else is still renamed consistently')
    rename_e2e.run(model, rep, 'C10.E2E', only=('rename_locals with preserved names',))

    # names that look special but are ordinary identifiers (soft keywords, a builtin name, the underscore),
    # in every spelling of the argument: they are preserved like any other name
    odd_src = ('def scan(text, type=None):\n    match = search(text)\n    case = lower(text)\n    _ = upper(text)\n    print = show(text)\n'
               '    found = match or case or _ or print or type\n    return match, case, _, print, found, match, case, _, print, type, type\n'
               'def handler(event, context):\n    return scan(event), scan(context), scan(event)\nresult = handler(1, 2), handler(3, 4)\n')
    odd = ['match', 'case', '_', 'print']
    for spelling, value in (('list', list(odd)), ('tuple', tuple(odd))) + tuple(('the bare string %r' % n_, n_) for n_ in odd):
        names_ = list(value) if not isinstance(value, str) else [value]
        for which in ('preserve_locals', 'preserve_globals'):
            key = 'C10.E2E|odd names|%s|%s' % (which, spelling)
            src_ = odd_src if which == 'preserve_locals' else odd_src.replace('def scan(text, type=None):\n', '').replace('    return match', 'return_value = match').replace('    ', '')
            if which == 'preserve_globals':
                src_ = 'text = 1\n' + '\n'.join(l for l in odd_src.split('\n')[1:7]).replace('    ', '').replace('return match', 'kept = (match') + ')\n'
            try:
                ast.parse(src_)
            except SyntaxError:
                raise AnalysisError('probe for odd preserved names does not parse')
            try:
                text_ = rename_e2e.run_pipeline(model, src_, rename_locals=True, rename_globals=True, **{which: value})
            except rename_e2e.MinifyRaises as ex:
                rep.violation('C10.E2E', mi.loc(), '%s=%s' % (which, spelling), '%s: minify fails' % ex, key=key)
                continue
            new_of, _p = rename_e2e.final_names(src_, text_)
            lost = {n_: sorted(new_of.get(n_, [])) for n_ in names_ if new_of.get(n_) != {n_}}
            others = [n_ for n_ in ('found', 'text') if n_ in new_of and new_of[n_] != {n_}]
            rep.check(not lost, 'C10.E2E', mi.loc(), '%s given as %s (soft keywords, a builtin name, the underscore)' % (which, spelling), 'every listed name keeps its spelling',
                      'names listed in %s are renamed: %s -- output: %r' % (which, lost, text_[:140]), key=key)
    # preserved names the module uses but never binds itself (builtins, names that arrive some other way): their bindings are created when names are
    # resolved, not when they are bound, and they are preserved like any other - no alias, no renaming
    used_src = ('def handler(event, context):\n    print(event)\n    print(context)\n    show(event)\n    print(len(event), undefined_helper(event))\n    return len(context), undefined_helper(context)\n'
                'def show(thing):\n    print(thing)\n    print(len(thing), isinstance(thing, str))\n    print(thing, thing, isinstance(thing, bytes))\n'
                '    print(len(thing), len(thing), isinstance(thing, int), undefined_helper(thing), undefined_helper(thing))\n')
    aliased_controls = 0
    for spelling, value in (('list', ['print', 'undefined_helper', 'handler']), ('tuple', ('print', 'undefined_helper', 'handler')), ('the bare string print', 'print')):
        names_ = list(value) if not isinstance(value, str) else [value]
        key = 'C10.E2E|unbound names|' + spelling
        try:
            text_ = rename_e2e.run_pipeline(model, used_src, rename_locals=True, rename_globals=True, preserve_globals=value)
        except rename_e2e.MinifyRaises as ex:
            rep.violation('C10.E2E', mi.loc(), 'preserve_globals=%s (names the module uses but does not bind)' % spelling, '%s: minify fails' % ex, key=key)
            continue
        out_names = [n_.id for n_ in ast.walk(ast.parse(text_)) if isinstance(n_, ast.Name)]
        lost = {n_: (out_names.count(n_), used_src.count(n_ + '(')) for n_ in names_ if n_ != 'handler' and out_names.count(n_) != used_src.count(n_ + '(')}
        aliased_controls += out_names.count('len') < used_src.count('len(')
        rep.check(not lost, 'C10.E2E', mi.loc(), 'preserve_globals given as %s: builtin and unbound names the module uses' % spelling, 'every use keeps the preserved spelling (no alias)',
                  'preserved names that the module only uses are redirected through an alias or renamed: %s (uses in the output, uses in the source) -- output: %r' % (lost, text_[:160]), key=key)
    rep.sensitive(aliased_controls >= 1, 'the builtin len, which is not preserved, is not aliased in the probe: the rule for preserved builtins cannot see anything')
    # one list object used for several calls (a build script minifying a package): "asking to preserve a name never changes anything other than
    # the renaming of that name" - neither the list itself nor, through it, what the next module keeps
    from ..absprint import print_obj
    from ..minrun import minify_tree
    first = ('__all__ = ["load_config", "render_page"]\ndef load_config(path_name):\n    return path_name, path_name\ndef render_page(page_body):\n    return page_body, page_body\n'
             'def main_entry(argument_list):\n    return load_config(argument_list), render_page(argument_list)\n')
    second = ('def load_config(path_name):\n    return path_name, path_name\ndef render_page(page_body):\n    return page_body, page_body\n'
              'def main_entry(argument_list):\n    return load_config(argument_list), render_page(argument_list), load_config, render_page\n')
    for which in ('preserve_globals', 'preserve_locals'):
        for opts in ({'rename_globals': True, 'rename_locals': True}, {'rename_globals': False, 'rename_locals': True, 'hoist_literals': True}):
            key = 'C10.E2E|list reused|%s|%s' % (which, sorted(k for k, v in opts.items() if v))
            keep = ['main_entry', 'argument_list']
            texts = []
            err = None
            for (src_, lst) in ((first, keep), (second, keep), (second, ['main_entry', 'argument_list'])):
                kind, out, mod = minify_tree(model, src_, dict(opts, **{which: lst}))
                if kind != 'ok':
                    err = 'minify raises %s' % (out,)
                    break
                kind, text = print_obj(model, mod)
                if kind != 'ok':
                    raise AnalysisError('UNDECIDED: printing a probe: %s %s' % (kind, text))
                texts.append(text)
            if err:
                rep.violation('C10.E2E', mi.loc(), '%s reused for two calls' % which, err, key=key)
                continue
            problems = []
            if keep != ['main_entry', 'argument_list']:
                problems.append('the caller\'s list comes back as %r' % (keep,))
            if texts[1] != texts[2]:
                problems.append('the second module is minified to %r with the reused list and to %r with a fresh list of the same names' % (texts[1][:120], texts[2][:120]))
            rep.check(not problems, 'C10.E2E', mi.loc(), 'one list object passed as %s to two calls (%s), the first module has a literal __all__' % (which, ', '.join(sorted(k for k, v in opts.items() if v))),
                      'the list is unchanged and the second call gives what a fresh list gives', '; '.join(problems), key=key)
    # white-box: written against the permission gates and the assignment loop by name; not evaluated when those do not exist under their names
    def guard():
        # ---------------- GUARD: gates pin exactly the preserved names (abstract evaluation)
        for fname, make in (('allow_rename_locals', 'FunctionDef'), ('allow_rename_globals', 'Module')):
            fi = model.func(UTIL + '.' + fname)
            b1 = Obj('NameBinding', name='keep')
            b2 = Obj('NameBinding', name='other')
            pinned = []
            hooks = {'.disallow_rename': lambda I, e, args, kw, env: pinned.append(I.last_recv),
                     'is_namespace': lambda I, e, args, kw, env: isinstance(args[0], Obj) and args[0].cls in ('FunctionDef', 'Module', 'ClassDef', 'Lambda', 'ListComp'),
                     'ast.iter_child_nodes': lambda I, e, args, kw, env: [],
                     'find__all__': lambda I, e, args, kw, env: []}
            I = Interp(model, UTIL, hooks)
            node = Obj(make, bindings=[b1, b2])
            res = I.explore(lambda: I.call_function(fi.qual, [node, True, ['keep']]))
            if any(r[0][0] != 'return' for r in res):
                raise AnalysisError('UNDECIDED: %s: %s' % (fname, [r[0] for r in res]))
            if any(not isinstance(x, Obj) for x in pinned):
                raise LostAnchor('%s reads the bindings of a namespace through an attribute other than node.bindings' % fname)
            names = sorted(x.attrs.get('name') for x in pinned)
            rep.check(names == ['keep'], 'C10.GUARD', fi.loc(), '%s(rename on, preserve=[keep]) pins %s' % (fname, names), 'exactly the preserved name',
                      'with renaming on and preserve=[\'keep\'] the gate pins %s' % names, key='C10.GUARD|enum|' + fname)
        # (that nested scopes are reached with the same switch and list is decided on a real tree by gate_tree below)
        # reserved globals are added to module.assigned_names before the assignment loop, and rename() forwards them
        # preserved globals are never handed out as new names: rename() evaluated with the repository's reservation code on a small world whose
        # candidate stream starts with the preserved name (assign_enum.reservation_world)
        from . import assign_enum
        problems, final = assign_enum.reservation_world(model, preserved_globals=('PRESERVED', 'other_kept'))
        mine = [p_ for p_ in problems if 'preserved global' in p_]
        na = model.func('python_minifier.rename.renamer.NameAssigner.__call__')
        rep.check(not mine, 'C10.GUARD', na.loc(), 'preserved globals offered first by the candidate stream -> final names %s' % final, 'no binding visible at module level receives a preserved name',
                  '; '.join(mine[:2]), key='C10.GUARD|reserve')
        from .c09 import gate_tree
        keep = ['e', 'total', 'K', 'top', 'w', 'line', 'v', 'err', 'c2', 'yy', 'inner']
        gate_tree(model, rep, 'C10.GUARD', True, True, keep, lambda kind, name: True if (name in keep or (kind == 'Module' and name == 'f')) else None,
                  'permission gates with renaming on, preserve=%s and __all__ = [\'f\', ...]' % keep, 'C10.GUARD|tree')
        rep.floor('C10.GUARD', 4)
    rep.optional(['C10.GUARD'], ['C10.E2E', 'C10.FLOW'], guard)
