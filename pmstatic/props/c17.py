"""C17 - turning a size optimisation on never makes the output longer (gates, directions, candidate classification)."""
import ast

from ..absint import Interp, Obj, TOP, ClassRef
from ..astutil import calls, expand, kwarg, local_defs, single_def
from ..facts import Facts, fact_texts, implies_le
from ..model import AnalysisError, src, walk_own

EXEMPLARS = [None, True, False, 0, 1, 2, -1, 0.0, 1.0, 1.5, 0j, 1j, '', 'a', 'True', b'', b'a', Ellipsis]
KINDS = ['NameConstant', 'Num', 'Str', 'Bytes', 'Ellipsis']


def kind_of(v):
    if v is None or isinstance(v, bool):
        return 'NameConstant'
    if isinstance(v, (int, float, complex)):
        return 'Num'
    if isinstance(v, str):
        return 'Str'
    if isinstance(v, bytes):
        return 'Bytes'
    if v is Ellipsis:
        return 'Ellipsis'
    raise ValueError(v)


def classify_all(model):
    """kind chosen by each of the three dispatchers for every exemplar value: {dispatcher: {repr(value): set(kinds)}}"""
    out = {}
    # 1. NodeVisitor.visit_Constant: which visit_<Kind> name is looked up
    NV = 'python_minifier.transforms.suite_transformer.NodeVisitor'
    EP = 'python_minifier.expression_printer.ExpressionPrinter'
    for disp, cq, mod in (('NodeVisitor.visit_Constant', NV, 'python_minifier.transforms.suite_transformer'), ('ExpressionPrinter.visit_Constant', EP, 'python_minifier.expression_printer')):
        res = {}
        for v in EXEMPLARS:
            chosen = set()

            def ga(I, e, args, kw, env):
                if len(args) >= 2 and isinstance(args[1], str):
                    chosen.add(args[1])
                return ('chosen',)
            hooks = {'getattr': ga}
            for k in KINDS:
                hooks['self.visit_' + k] = (lambda I, e, args, kw, env, _k=k: chosen.add('visit_' + _k))
            I = Interp(model, mod, hooks)
            so = Obj(cq.rsplit('.', 1)[1])
            node = Obj('Constant', value=v, kind=None)
            r = I.explore(lambda: I.call_method(cq, 'visit_Constant', so, [node]))
            kinds = set()
            for (o, ev, unk) in r:
                if o[0] == 'raise':
                    kinds.add('<raise>')
                elif o[0] == 'abort':
                    raise AnalysisError('UNDECIDED: %s on %r: %s' % (disp, v, o))
            kinds |= {c[len('visit_'):] for c in chosen}
            res[repr(v)] = kinds
        if not any(res.values()):
            from ..model import LostAnchor
            raise LostAnchor('%s no longer finds its handler through getattr(self, "visit_<Kind>") / self.visit_<Kind>(): the dispatch cannot be observed' % disp)
        out[disp] = res
    # 2. util.is_constant_node(node, K)
    res = {}
    for v in EXEMPLARS:
        kinds = set()
        for k in KINDS:
            I = Interp(model, 'python_minifier.util', {})
            node = Obj('Constant', value=v, kind=None)
            r = I.explore(lambda: I.call_function('python_minifier.util.is_constant_node', [node, ClassRef(k)]))
            for (o, ev, unk) in r:
                if o[0] == 'return' and o[1] is True:
                    kinds.add(k)
                elif o[0] == 'return' and o[1] is TOP or o[0] == 'abort':
                    raise AnalysisError('UNDECIDED: is_constant_node on %r/%s: %s %s' % (v, k, o, unk))
                elif o[0] == 'raise':
                    kinds.add('<raise>')
        res[repr(v)] = kinds
    out['util.is_constant_node'] = res
    return out


def check_classifiers(model, rep, prop, rule):
    table = classify_all(model)
    cells = 0
    for disp, res in table.items():
        fi_q = {'NodeVisitor.visit_Constant': 'python_minifier.transforms.suite_transformer.NodeVisitor.visit_Constant',
                'ExpressionPrinter.visit_Constant': 'python_minifier.expression_printer.ExpressionPrinter.visit_Constant',
                'util.is_constant_node': 'python_minifier.util.is_constant_node'}[disp]
        fi = model.func(fi_q)
        bad = []
        for v in EXEMPLARS:
            cells += 1
            got = res[repr(v)]
            want = {kind_of(v)}
            if got != want:
                bad.append((v, got))
        if bad:
            rep.violation(rule, fi.loc(), disp, 'classifies by equality instead of by type: %s (so 0/1/0.0/1.0 are treated like False/True: e.g. numbers become hoisting candidates)' %
                          ', '.join('%r -> %s' % (v, sorted(g)) for v, g in bad[:6]), key='%s|%s' % (rule, disp))
        else:
            rep.ok(rule, fi.loc(), disp, '%d exemplar values classified by type' % len(EXEMPLARS), cells=len(EXEMPLARS), key='%s|%s' % (rule, disp))
    return table


def compare_direction(fi, defs, ret_value, candidate_names):
    """For `return A <= B` style profitability tests: ('le'|'lt', candidate side ok?)"""
    e = ret_value
    if isinstance(e, ast.Name):
        d = single_def(defs, e.id)
        if d is not None:
            e = d
    negated = False
    while isinstance(e, ast.UnaryOp) and isinstance(e.op, ast.Not):
        negated = not negated
        e = e.operand
    if not (isinstance(e, ast.Compare) and len(e.ops) == 1):
        return None, 'not a single comparison: ' + src(e)
    a, b, op = e.left, e.comparators[0], type(e.ops[0])
    if negated:
        op = {ast.Gt: ast.LtE, ast.GtE: ast.Lt, ast.Lt: ast.GtE, ast.LtE: ast.Gt}.get(op, op)
    if op in (ast.Gt, ast.GtE):
        a, b = b, a
        op = {ast.Gt: ast.Lt, ast.GtE: ast.LtE}[op]
    if op not in (ast.Lt, ast.LtE):
        return None, 'comparison is not an ordering: ' + src(e)
    ea, eb = src(expand(a, defs, 6)), src(expand(b, defs, 6))
    a_has = any(n in ea for n in candidate_names)
    b_has = any(n in eb for n in candidate_names)
    if a_has and not b_has:
        return ('le' if op is ast.LtE else 'lt'), 'cost with the candidate (%s) %s current cost (%s)' % (src(a), '<=' if op is ast.LtE else '<', src(b))
    return None, 'the side that contains the candidate is not the smaller side: %s' % src(e)


def run(model, rep):
    rep.explanation = ('Only gates and candidate selection are structural: (K1) the three dispatchers on Constant.value are abstractly evaluated on exemplar values of '
                       'every type and must classify identically and by type (a numeric literal treated as True/False becomes a hoisting candidate whose alias costs '
                       'more than it saves); (GATE) the name-assignment loop is abstractly evaluated on 48 scenarios (prefix switch x profitability x availability of the original name x '
                       'binding kind): rename(name) happens exactly when should_rename(that name) holds or the original name was given away, otherwise the binding is '
                       'pinned; (DIR) in each profitability comparison the side containing the candidate is the smaller-or-equal side; (FOLD) the folding transform and '
                       'the printer are run abstractly on literal arithmetic (shared with C07) and a fold is kept only where the printed text gets strictly shorter; (SORT) bindings are processed by descending new-mention count. '
                       'Not decided: aggregate accuracy of the cost model over real modules.')
    for r, t in [('C17.K1', 'constant-kind classifiers agree and classify by type'), ('C17.GATE', 'rename only under should_rename'),
 ('C17.FOLD', 'folds are kept only where the printed text gets strictly shorter (enumerated)'),
                 ('C17.COST', 'a rename the cost model approves never makes the printed program longer (enumerated over reference forms x name lengths x use counts)'),
                 ('C17.HOIST', 'hoisting a literal never makes the printed program longer (enumerated over literal kinds x lengths x use counts)'), ('C17.SORT', 'bindings sorted by descending mention count')]:
        rep.rule(r, t)
    # ---------------- E2E: the real minify() with one size option off / on, printed by the repository's printer
    from . import size_e2e
    rep.rule('C17.E2E', 'end to end on probe modules: each size option on vs off, everything else equal - the printed module never gets longer')
    size_e2e.run(model, rep, 'C17.E2E', rep.tier)

    # ---------------- (the direction of the profitability comparisons and the completeness of the cost terms are decided by C17.COST below)
    # a fold is kept only where the text gets strictly shorter: decided by running the transform and the printer abstractly (shared with C07)
    from .c07 import enum as fold_enum
    fold_enum(model, rep, rule='C17.FOLD', only_length=True)

    # ---------------- white-box rules: written against internal functions / classes (cost functions, assignment loop, dispatchers); not evaluated when
    # those do not exist under their names - C17.E2E / C17.FOLD decide the behaviour end to end
    def k1():
        check_classifiers(model, rep, 'C17', 'C17.K1')
        rep.floor('C17.K1', 3)


    def gate():
        # ---------------- GATE
        # the assignment loop abstractly evaluated: rename(name) exactly when should_rename(name) holds or the original name was taken
        from . import assign_enum
        na = model.func('python_minifier.rename.renamer.NameAssigner.__call__')
        groups = {'profitable': [], 'forced': [], 'pinned': []}
        n_sc = 0
        for sc, obs in assign_enum.enumerate_loop(model):
            n_sc += 1
            want = assign_enum.expect_rename(sc)
            g = 'profitable' if sc['profitable'] else 'forced' if want else 'pinned'
            for o in obs:
                did = bool(o['renamed_to'])
                if did != want:
                    groups[g].append('%s binding %s although %s' % (o['where'], 'renamed to %s' % o['renamed_to'] if did else 'not renamed',
                                                                  ', '.join('%s=%s' % kv for kv in sorted(sc.items()))))
                elif did and (len(o['renamed_to']) != 1 or o['renamed_to'][0] not in o['asked']):
                    groups[g].append('%s binding renamed to %s but profitability was asked for %s' % (o['where'], o['renamed_to'], o['asked']))
                elif not did and o['pinned'] < 1:
                    groups[g].append('%s binding neither renamed nor pinned (%s)' % (o['where'], sc))
        texts = {'profitable': 'should_rename(name) true -> rename(that name)', 'forced': 'unprofitable, but the original name was given away -> renamed anyway',
                 'pinned': 'unprofitable and the original name still usable (or not a NameBinding, or reserved for itself) -> pinned, not renamed'}
        for g in ('profitable', 'forced', 'pinned'):
            rep.check(not groups[g], 'C17.GATE', na.loc(), 'assignment loop, %s scenarios (of %d)' % (g, n_sc), texts[g],
                      'the name-assignment loop deviates from the cost gate: %s' % '; '.join(groups[g][:3]), key='C17.GATE|loop|' + g, cells=2 * sum(1 for sc_ in assign_enum.scenarios() if ('profitable' if sc_['profitable'] else 'forced' if assign_enum.expect_rename(sc_) else 'pinned') == g))
        rep.floor('C17.GATE', 3)


    def cost():
        # ---------------- COST: the model's decision against the printed size
        from . import cost_enum
        cost_enum.run(model, rep)
        cost_enum.run_hoist(model, rep)


    def sort():
        from . import assign_enum
        # ---------------- SORT: rename() evaluated on one scope with four bindings of different mention counts
        named, counts = assign_enum.sort_world(model)
        order = [n_ for (n_, _nm) in named]
        want = sorted(counts, key=lambda k: -counts[k])
        rnf = model.func('python_minifier.rename.renamer.rename')
        rep.check(order == want, 'C17.SORT', rnf.loc(), 'bindings named in the order %s (new mentions %s)' % (order, [counts[k] for k in order]), 'descending new-mention count',
                  'bindings are not processed by descending new-mention count (short names go to rarely used bindings): %s' % [(k, counts[k]) for k in order], key='C17.SORT')
        lens = [len(nm) for (_n, nm) in named]
        rep.check(lens == sorted(lens), 'C17.SORT', rnf.loc(), 'names handed out: %s' % [nm for (_n, nm) in named], 'shortest names first', 'the most used bindings do not receive the shortest names', key='C17.SORT|use')
        rep.floor('C17.SORT', 2)
    rep.optional(['C17.K1'], ['C17.E2E'], k1)
    rep.optional(['C17.GATE'], ['C17.E2E'], gate)
    rep.optional(['C17.COST', 'C17.HOIST'], ['C17.E2E'], cost)
    rep.optional(['C17.SORT'], ['C17.E2E'], sort)
