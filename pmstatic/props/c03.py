"""C03 - renaming preserves which binding every name refers to (structural clauses)."""
import ast
import builtins
import keyword
import re

from ..absint import Interp, Obj, TOP, ClassRef
from ..absnodes import Name, children, set_parents, std_hooks, walk
from ..astutil import calls, kwarg, local_defs
from ..facts import Facts, fact_texts
from ..model import AnalysisError, src, walk_own
from .. import oracles
from .c04 import BINDING
from ..absnodes import public_value

R = 'python_minifier.rename.'
MAPPER = R + 'mapper'

PROBES = {
    'function': '''
def outer():
    @m_deco
    def f(a: m_ann = m_def, /, b: m_ann2 = m_def2, *v: m_vann, k: m_kann = m_kdef, **kw: m_kwann) -> m_ret:
        m_body
        def inner(x=m_idef):
            m_ibody
''',
    'class': '''
def outer():
    @m_cdeco
    class C(m_base, *m_star, metaclass=m_kw, **m_dstar):
        m_cbody
        def meth(self, a: m_mann = m_mdef):
            m_mbody
''',
    'lambda': '''
def outer():
    l = lambda x=m_ldef, *a, k=m_lkdef, **kw: m_lbody
    class C:
        g = lambda self, y=m_cldef: m_clbody
''',
    'listcomp': '''
def outer():
    [m_elt for m_t1 in m_iter1 if m_if1 for m_t2 in m_iter2 if m_if2]
''',
    'setcomp': '''
def outer():
    {m_elt for m_t1 in m_iter1 if m_if1 for m_t2 in m_iter2 if m_if2}
''',
    'dictcomp': '''
def outer():
    {m_key: m_val for m_t1 in m_iter1 if m_if1 for m_t2 in m_iter2 if m_if2}
''',
    'genexp': '''
def outer():
    (m_elt for m_t1 in m_iter1 if m_if1 for m_t2 in m_iter2 if m_if2)
''',
    'nested comprehension': '''
def outer():
    [[m_in for m_a in m_i2] for m_b in [m_c for m_d in m_i3]]
''',
    'walrus': '''
def outer():
    if (m_w0 := m_v0): pass
    [(m_w1 := m_v1) for t in m_i1]
    [[(m_w2 := m_v2) for a in m_i2] for b in m_i3]
    f = lambda: (m_w3 := m_v3)
''',
    'module level': '''
[(m_w4 := m_v4) for t in m_i4]
x = [m_e5 for m_t5 in m_i5]
class K:
    y = [m_e6 for m_t6 in m_i6]
''',
}


class _ToGen(ast.NodeTransformer):
    """symtable on 3.12 inlines list/set/dict comprehensions (PEP 709); generator expressions keep their own table and have the
    same scoping rules, so the reference program uses them for every comprehension kind."""

    def visit_ListComp(self, n):
        self.generic_visit(n)
        return ast.GeneratorExp(elt=n.elt, generators=n.generators)

    visit_SetComp = visit_ListComp

    def visit_DictComp(self, n):
        self.generic_visit(n)
        return ast.GeneratorExp(elt=ast.Tuple(elts=[n.key, n.value], ctx=ast.Load()), generators=n.generators)


def to_obj(node, markers):
    if isinstance(node, list):
        return [to_obj(x, markers) for x in node]
    if not isinstance(node, ast.AST):
        return node
    o = Obj(type(node).__name__, closed=True)      # a node of a parsed probe: it has the fields of its class and nothing else
    for f in node._fields:
        o.attrs[f] = to_obj(getattr(node, f, None), markers)
    if isinstance(node, ast.Name):
        o.attrs['_pos'] = (node.lineno, node.col_offset)
        if node.id.startswith('m_'):
            markers[node.id] = o
    return o


def scope_label(o):
    if o.cls in ('FunctionDef', 'AsyncFunctionDef', 'ClassDef'):
        return o.attrs['name']
    if o.cls == 'Lambda':
        return 'lambda'
    if o.cls in ('ListComp', 'SetComp', 'DictComp', 'GeneratorExp'):
        return 'genexpr'
    if o.cls == 'Module':
        return None
    return '<%s>' % o.cls


def ns_path(ns):
    path = []
    cur = ns
    guard = 0
    while isinstance(cur, Obj) and cur.cls != 'Module' and guard < 50:
        guard += 1
        path.insert(0, scope_label(cur))
        nxt = cur.attrs.get('namespace')
        if nxt is cur:
            break
        cur = nxt
    return tuple(path)


def run_mapper(model, source):
    tree = ast.parse(source)
    markers = {}
    mod = to_obj(tree, markers)
    set_parents(mod)
    I = Interp(model, MAPPER, std_hooks(), max_depth=400)
    res = I.explore(lambda: I.call_function(MAPPER + '.add_namespace', [mod]))
    for (o, ev, unk) in res:
        if o[0] != 'return':
            raise AnalysisError('UNDECIDED: mapper.add_namespace on probe -> %s %s' % (o, unk[:3]))
    if len(res) != 1:
        raise AnalysisError('UNDECIDED: mapper.add_namespace forked into %d paths (%s)' % (len(res), res[0][2][:3]))
    return mod, markers


def run(model, rep):
    rep.explanation = ('(TAB) the mapper is abstractly run on descriptor trees of ten probe programs that exercise every syntactic slot of every scope-introducing '
                       'construct; for each marker name the namespace the mapper assigned is compared with the innermost scope whose CPython symbol table mentions that '
                       'name (symtable probes; generator expressions stand in for the comprehension kinds that 3.12 inlines); the binder must file an assignment-expression '
                       'target under the scope in which symtable says it is bound. (EX/SIB) for every binding identifier position of the ASDL the binder, the resolver, '
                       'the renamer, the three cost functions and the printer are exercised on a descriptor of that class and must agree on the field. (RES) reservation '
                       'precedes assignment, candidates are returned only when available in the whole scope, the final name is always reserved, reservation_scope is '
                       'evaluated on a scope chain. (FLOW) the name stream excludes keywords and builtins. Not decided: the reservation algorithm itself (no capture; distinct '
                       'names for simultaneously live bindings) and acceptance by the compiler.')
    for r, t in [('C03.TAB', 'namespace of every syntactic slot = innermost symbol table that mentions the name'), ('C03.EX', 'every binding form has binder / resolver / renamer / cost arms'),
                 ('C03.SIB', 'binder, renamer and printer use the same identifier field'), ('C03.RES', 'reservation discipline of the assignment loop'),
                 ('C03.FLOW', 'generated names exclude keywords and builtins')]:
        rep.rule(r, t)
    from . import rename_e2e
    rep.rule('C03.E2E', 'renaming end to end on probe modules: same structure, consistent new names, no two bindings of one name meet (scopes from symtable), interface names untouched')
    rename_e2e.run(model, rep, 'C03.E2E')
    # the printer's (slot x child) table as probe modules: names mentioned in every syntactic slot, in every way an expression can mention them
    from . import slot_e2e
    rep.rule('C03.SLOT', 'every expression slot of the grammar x every way an expression mentions names, as a module of its own through minify(rename_locals=True): alpha-equivalent to the original')
    slot_e2e.run(model, rep, 'C03.SLOT', 'rename', 90, 800)
    rename_e2e.idioms(model, rep, 'C03.E2E')
    rename_e2e.reuse(model, rep, 'C03.E2E')
    forms(model, rep)
    # white-box rules: written against internal functions of the renamer; they widen the inputs covered (synthetic scope worlds, 3200 generated names,
    # every syntactic slot) and are reported as not evaluated when those internals do not exist under their names - E2E / EX above decide the behaviour
    rep.optional(['C03.TAB'], ['C03.E2E', 'C03.EX'], lambda: tab(model, rep))
    rep.optional(['C03.RESOLVE'], ['C03.E2E', 'C03.EX'], lambda: resolve_rule(model, rep))
    rep.optional(['C03.RES'], ['C03.E2E'], lambda: res_rules(model, rep))
    rep.optional(['C03.FLOW'], ['C03.E2E'], lambda: flow(model, rep))


# ---------------------------------------------------------------------- TAB
def tab(model, rep):
    n = 0
    for pname, source in sorted(PROBES.items()):
        ref_src = ast.unparse(ast.fix_missing_locations(_ToGen().visit(ast.parse(source))))
        mod, markers = run_mapper(model, source)
        for m in sorted(markers):
            node = markers[m]
            got_ns = node.attrs.get('namespace')
            got = ns_path(got_ns) if isinstance(got_ns, Obj) else None
            want = oracles.innermost_mention(ref_src, m)
            n += 1
            slot = describe_slot(node)
            rep.check(got == want, 'C03.TAB', 'src/python_minifier/rename/mapper.py', '%s: %s (%s)' % (pname, m, slot), 'namespace %s' % ('/'.join(got) if got else 'module'),
                      'slot `%s` is resolved in %s but the interpreter mentions that name in %s: a name there can be renamed without regard to the scope that actually evaluates it (capture / undefined name)' %
                      (slot, '/'.join(got) if got else ('module' if got == () else repr(got_ns)), '/'.join(want) if want else 'module'), key='C03.TAB|%s|%s|%s' % (pname, m, slot))
        # binder placement of assignment-expression targets
        for m in sorted(markers):
            node = markers[m]
            par = node.attrs.get('_parent')
            if isinstance(par, Obj) and par.cls == 'NamedExpr' and par.attrs.get('target') is node:
                want_b = oracles.binding_scope(ref_src, m)
                placed = binder_places(model, mod, node)
                n += 1
                rep.check(placed == want_b, 'C03.TAB', 'src/python_minifier/rename/bind_names.py', '%s: binding of %s' % (pname, m), 'filed under %s' % ('/'.join(placed) if placed else 'module'),
                          'assignment-expression target is bound in %s by the binder, the interpreter binds it in %s' % ('/'.join(placed) if placed is not None else '?', '/'.join(want_b) if want_b else 'module'),
                          key='C03.TAB|%s|bind|%s' % (pname, m))
    rep.count('slots_compared', n)
    rep.floor('C03.TAB', 80)


def describe_slot(node):
    par = node.attrs.get('_parent')
    chain = []
    cur = node
    hops = 0
    while isinstance(par, Obj) and hops < 3:
        hops += 1
        for k, v in par.attrs.items():
            if k.startswith('_') or k == 'namespace':
                continue
            if v is cur or (isinstance(v, list) and any(x is cur for x in v)):
                chain.insert(0, '%s.%s' % (par.cls, k))
        if par.cls in ('FunctionDef', 'ClassDef', 'Lambda', 'ListComp', 'SetComp', 'DictComp', 'GeneratorExp', 'comprehension', 'arguments', 'NamedExpr', 'arg'):
            if par.cls in ('arguments', 'arg', 'comprehension') and hops < 3:
                cur, par = par, par.attrs.get('_parent')
                continue
            break
        cur, par = par, par.attrs.get('_parent')
    return ' <- '.join(reversed(chain)) or node.cls


def binder_places(model, mod, name_node):
    """Run NameBinder.visit_Name on the target and report the path of the namespace that received the binding."""
    BN = R + 'bind_names'
    for o in walk(mod):
        if o.cls in ('Module', 'FunctionDef', 'AsyncFunctionDef', 'ClassDef', 'Lambda', 'ListComp', 'SetComp', 'DictComp', 'GeneratorExp'):
            o.attrs['bindings'] = []
            o.attrs.setdefault('global_names', set())
            o.attrs.setdefault('nonlocal_names', set())
    hooks = dict(std_hooks(), **{'dir': lambda I, e, args, kw, env: dir(builtins)})
    I = Interp(model, BN, hooks)
    res = I.explore(lambda: I.call_method(BN + '.NameBinder', 'visit_Name', Obj('NameBinder'), [name_node]))
    if any(o[0] != 'return' for (o, _e, _u) in res):
        raise AnalysisError('UNDECIDED: NameBinder.visit_Name on a walrus target -> %s' % [r[0] for r in res])
    for o in walk(mod):
        for b in o.attrs.get('bindings', []) if isinstance(o.attrs.get('bindings'), list) else []:
            if isinstance(b, Obj) and public_value(model, b, 'name') == name_node.attrs['id']:
                return ns_path(o) if o.cls != 'Module' else ()
    return None


# ---------------------------------------------------------------------- EX / SIB
def binding_forms():
    """(label, constructor of a descriptor whose bound name is 'OLD', field holding the name, how to read it back)"""
    def arg_node():
        fn = Obj('FunctionDef', name='f', decorator_list=[], namespace=Obj('Module'))
        a = Obj('arg', arg='OLD', annotation=None)
        fn.attrs['args'] = Obj('arguments', posonlyargs=[a], args=[], vararg=None, kwonlyargs=[], kw_defaults=[], kwarg=None, defaults=[])
        a.attrs['namespace'] = fn
        return a
    forms = [
        ('Name (store)', lambda: Obj('Name', id='OLD', ctx=Obj('Store')), 'id'),
        ('Name (del)', lambda: Obj('Name', id='OLD', ctx=Obj('Del')), 'id'),
        ('Name (load)', lambda: Obj('Name', id='OLD', ctx=Obj('Load')), 'id'),
        ('FunctionDef', lambda: Obj('FunctionDef', name='OLD', decorator_list=[], body=[], args=None), 'name'),
        ('AsyncFunctionDef', lambda: Obj('AsyncFunctionDef', name='OLD', decorator_list=[], body=[], args=None), 'name'),
        ('ClassDef', lambda: Obj('ClassDef', name='OLD', bases=[], keywords=[], body=[], decorator_list=[]), 'name'),
        ('alias (import OLD)', lambda: Obj('alias', name='OLD', asname=None), 'asname'),
        ('alias (import x as OLD)', lambda: Obj('alias', name='x', asname='OLD'), 'asname'),
        ('arg', arg_node, 'arg'),
        ('ExceptHandler', lambda: Obj('ExceptHandler', type=None, name='OLD', body=[]), 'name'),
        ('Global', lambda: Obj('Global', names=['other', 'OLD']), 'names'),
        ('Nonlocal', lambda: Obj('Nonlocal', names=['OLD', 'other']), 'names'),
        ('MatchAs', lambda: Obj('MatchAs', pattern=None, name='OLD'), 'name'),
        ('MatchStar', lambda: Obj('MatchStar', name='OLD'), 'name'),
        ('MatchMapping', lambda: Obj('MatchMapping', keys=[], patterns=[], rest='OLD'), 'rest'),
        ('TypeVar', lambda: Obj('TypeVar', name='OLD', bound=None), 'name'),
        ('ParamSpec', lambda: Obj('ParamSpec', name='OLD'), 'name'),
        ('TypeVarTuple', lambda: Obj('TypeVarTuple', name='OLD'), 'name'),
    ]
    return forms


def forms(model, rep):
    # ASDL coverage: every binding identifier field of this interpreter's grammar has probes; each is renamed end to end by the real minify()
    from . import rename_e2e
    fields = {(c, f) for (c, f, _q) in oracles.identifier_fields() if (c, f) in BINDING} | {('alias', 'name')}
    rename_e2e.forms(model, rep, 'C03.EX', fields)
    rep.floor('C03.EX', 30)
    # ---- SIB: the printer prints the field the renamer writes. Decided by printing: a probe program is parsed, the identifier field of the node is
    # overwritten the way Binding.rename does it, the tree is printed by the repository's printer (abstractly run) and parsed back.
    from ..absprint import print_module, same_tree
    sib = {'Name': ('OLD = 1\n', 'id'), 'FunctionDef': ('def OLD(): pass\n', 'name'), 'AsyncFunctionDef': ('async def OLD(): pass\n', 'name'), 'ClassDef': ('class OLD: pass\n', 'name'),
           'alias': ('import a as OLD\n', 'asname'), 'arg': ('def f(OLD): pass\n', 'arg'), 'ExceptHandler': ('try: pass\nexcept E as OLD: pass\n', 'name'),
           'Global': ('def f():\n    global OLD, b\n', 'names'), 'Nonlocal': ('def f():\n    OLD = b = 1\n    def g():\n        nonlocal OLD, b\n', 'names'),
           'MatchAs': ('match x:\n    case 1 as OLD: pass\n', 'name'), 'MatchStar': ('match x:\n    case [*OLD]: pass\n', 'name'), 'MatchMapping': ('match x:\n    case {**OLD}: pass\n', 'rest'),
           'TypeVar': ('def f[OLD](): pass\n', 'name'), 'ParamSpec': ('def f[**OLD](): pass\n', 'name'), 'TypeVarTuple': ('def f[*OLD](): pass\n', 'name')}
    MPP = 'src/python_minifier/module_printer.py'
    for cls, (probe, field) in sorted(sib.items()):
        try:
            tree = ast.parse(probe)
        except SyntaxError:
            rep.note('C03.SIB: this interpreter cannot parse the %s probe' % cls)
            continue
        hit = None
        for n_ in ast.walk(tree):
            if type(n_).__name__ == cls:
                v = getattr(n_, field, None)
                if v == 'OLD':
                    setattr(n_, field, 'NEW')
                    hit = n_
                elif isinstance(v, list) and 'OLD' in v:
                    setattr(n_, field, ['NEW' if x == 'OLD' else x for x in v])
                    hit = n_
                if hit is not None:
                    break
        if hit is None:
            raise AnalysisError('SIB probe for %s has no node carrying OLD in .%s' % (cls, field))
        import copy
        kind, text = print_module(model, copy.deepcopy(tree))
        if kind == 'undecided':
            raise AnalysisError('UNDECIDED: printing the %s probe: %s' % (cls, text))
        ok = False
        why = '%s: %s' % (kind, str(text)[:80])
        if kind == 'ok':
            try:
                back = ast.parse(text)
                ok = same_tree(tree, back)
                why = 'printed as %r' % text
            except SyntaxError as e:
                why = 'printed text %r does not parse: %s' % (text, e)
        rep.check(ok, 'C03.SIB', MPP, 'printer: %s.%s overwritten with a new name -> %s' % (cls, field, why), 'the new name is what is printed',
                  'after %s.%s is renamed the printed program does not carry the new name there (%s): the printer reads a different field than the renamer writes' % (cls, field, why), key='C03.SIB|' + cls)
    rep.floor('C03.SIB', 14)


# ---------------------------------------------------------------------- RES
def res_rules(model, rep):
    RNM = R + 'renamer'
    na = model.func(RNM + '.NameAssigner.__call__')
    # the assignment loop run with the repository's own reservation code on a small world of namespaces (assign_enum.reservation_world)
    from . import assign_enum
    problems, final = assign_enum.reservation_world(model)
    pin_p = [p_ for p_ in problems if 'pinned' in p_ or 'preserved' in p_]
    same_p = [p_ for p_ in problems if 'both end up' in p_]
    res_p = [p_ for p_ in problems if 'is not reserved' in p_]
    rep.check(not pin_p, 'C03.RES', na.loc(), 'names that must stay are never handed out (candidate stream starts with them): %s' % final, 'pinned names reserved in their whole scope before any new name is chosen',
              '; '.join(pin_p[:2]), key='C03.RES|pins-first')
    rep.check(not same_p, 'C03.RES', na.loc(), 'bindings with overlapping scopes end up with distinct names', 'distinct', '; '.join(same_p[:2]), key='C03.RES|distinct')
    rep.check(not res_p, 'C03.RES', na.loc(), 'the name a binding ends up with is reserved in every namespace of its scope', 'reserved', '; '.join(res_p[:2]), key='C03.RES|reserve-final')
    # is_available is universal over the scope
    an = RNM + '.NameAssigner'
    for taken_in, want in ((None, True), (0, False), (1, False)):
        scope = [Obj('FunctionDef', assigned_names={'q'}), Obj('FunctionDef', assigned_names={'q'})]
        if taken_in is not None:
            scope[taken_in].attrs['assigned_names'] = {'q', 'cand'}
        I = Interp(model, RNM, {})
        res = I.explore(lambda: I.call_method(an, 'is_available', Obj('NameAssigner'), ['cand', scope]))
        vals = {o[1] for (o, _e, _u) in res if o[0] == 'return'}
        rep.check(vals == {want}, 'C03.RES', model.method(an, 'is_available').loc(), 'is_available with the name taken in %s -> %s' % ('no namespace' if taken_in is None else 'namespace #%d of 2' % taken_in, sorted(map(str, vals))),
                  'universal over the reservation scope', 'is_available answers %s when the name is taken in %s' % (sorted(map(str, vals)), 'no namespace' if taken_in is None else 'one namespace of the scope'), key='C03.RES|is_available|%s' % taken_in)
    # reservation_scope on a chain
    rs = model.func(RNM + '.reservation_scope')
    M = Obj('Module')
    M.attrs['namespace'] = M
    Fn = Obj('FunctionDef', namespace=M, name='f')
    G = Obj('FunctionDef', namespace=Fn, name='g')
    C = Obj('ListComp', namespace=G)
    H = Obj('Lambda', namespace=Fn)
    r1 = Obj('Name', namespace=C)
    r2 = Obj('Name', namespace=H)
    r3 = Obj('Name', namespace=Fn)
    for label, refs, want in (('refs in g/comp and in a lambda', [r1, r2], {id(Fn), id(G), id(C), id(H)}), ('ref in own namespace only', [r3], {id(Fn)}), ('refs: lambda first', [r2, r1], {id(Fn), id(G), id(C), id(H)}),
                              ('no refs', [], {id(Fn)})):
        b = Obj('NameBinding', _references=refs)
        b.attrs['references'] = refs
        I = Interp(model, RNM, {})
        res = I.explore(lambda: I.call_function(rs.qual, [Fn, b]))
        for (o, ev, unk) in res:
            if o[0] != 'return' or o[1] is TOP:
                raise AnalysisError('UNDECIDED: reservation_scope(%s) -> %s %s' % (label, o, unk[:3]))
            got = {id(x) for x in o[1]}
            rep.check(got == want, 'C03.RES', rs.loc(), 'reservation_scope: %s -> %d namespaces' % (label, len(got)), 'binding namespace + every namespace between it and each reference',
                      'reservation_scope(%s) returns %d namespaces, expected %d: a namespace in which the name is visible is not protected' % (label, len(got), len(want)), key='C03.RES|scope|' + label)
    # the assignment loop evaluated (shared with C04.GLOB / C17.GATE): a binding whose own name has been handed to a busier binding must be renamed,
    # otherwise two bindings that are live in one scope carry the same name
    from . import assign_enum
    lost = []
    n_forced = 0
    for sc, obs in assign_enum.enumerate_loop(model):
        if sc['profitable'] or not assign_enum.expect_rename(sc):
            continue
        n_forced += 1
        for o in obs:
            if not o['renamed_to']:
                lost.append('%s binding keeps its name although that name was given to another binding in its scope (%s)' % (o['where'], ', '.join('%s=%s' % kv for kv in sorted(sc.items()))))
    rep.check(not lost, 'C03.RES', 'src/python_minifier/rename/renamer.py', 'assignment loop: original name already taken, renaming not profitable (%d scenarios)' % n_forced,
              'the binding is renamed anyway', '; '.join(lost[:2]), key='C03.RES|forced-rename', cells=2 * n_forced)
    rep.floor('C03.RES', 9)


# ---------------------------------------------------------------------- FLOW
def flow(model, rep):
    """The stream of candidate names, evaluated lazily as the assigner sees it: NameAssigner() is constructed for real and its iter_names() is
    advanced; the names must be valid identifiers, distinct, never a keyword and never the name of a builtin (a new name that shadows `len`
    or `print` changes what other code in the scope resolves to)."""
    N = 3200 if rep.tier != 'thorough' else 12000     # past the end of the two-character names
    NA = R + 'renamer.NameAssigner'
    hooks = {'dir': lambda I, e, args, kw, env: dir(builtins)}
    I = Interp(model, R + 'renamer', hooks)
    I.MAX_PATHS = 4

    def thunk():
        a = I.construct(ClassRef('NameAssigner', NA), [], {})
        g = I.call_method(NA, 'iter_names', a, [])
        first = [next(g) for _ in range(N)]
        # a second reader of the same assigner starts from the names already generated
        g2 = I.call_method(NA, 'iter_names', a, [])
        again = [next(g2) for _ in range(50)]
        return first, again
    res = I.explore(thunk)
    if len(res) != 1 or res[0][0][0] != 'return':
        raise AnalysisError('UNDECIDED: NameAssigner().iter_names() -> %s %s' % ([r[0] for r in res][:2], res[0][2][:3]))
    names, again = res[0][0][1]
    fi = model.func(NA + '.iter_names')
    if any(not isinstance(n, str) for n in names):
        raise AnalysisError('UNDECIDED: the name stream yields %r' % ([n for n in names if not isinstance(n, str)][:3],))
    bad_id = [n for n in names if not re.match(r'^[A-Za-z_][A-Za-z0-9_]*$', n)]
    kw = [n for n in names if n in keyword.kwlist or n in getattr(keyword, 'softkwlist', [])]
    blt = [n for n in names if n in dir(builtins)]
    dup = sorted({n for n in names if names.count(n) > 1})[:5] if len(set(names)) != len(names) else []
    rep.check(not bad_id, 'C03.FLOW', fi.loc(), 'first %d candidate names (%s ... %s)' % (N, ' '.join(names[:4]), ' '.join(names[-2:])), 'all are identifiers',
              'the name stream yields %s, which are not identifiers' % bad_id[:5], key='C03.FLOW|identifiers', cells=N)
    rep.check(not kw and not blt, 'C03.FLOW', fi.loc(), 'candidate names vs keywords and builtins', 'none is a keyword or the name of a builtin',
              'the name stream yields %s: they would be handed out as new names (keywords do not compile, builtin names capture the builtin)' % (kw + blt)[:8], key='C03.FLOW|filter', cells=N)
    rep.check(not dup, 'C03.FLOW', fi.loc(), 'candidate names are distinct', 'no name is generated twice', 'the name stream repeats %s' % dup, key='C03.FLOW|generator', cells=N)
    rep.check(again == names[:50], 'C03.FLOW', fi.loc(), 'a second pass over the assigner\'s names', 'starts again from the shortest names', 'a second reader of the name stream does not see the names already generated: %s' % again[:5],
              key='C03.FLOW|wiring')
    ordered = all(len(names[i_]) <= len(names[i_ + 1]) for i_ in range(len(names) - 1))
    rep.check(ordered, 'C03.FLOW', fi.loc(), 'candidate names by length', 'shortest first', 'names are not generated shortest first', key='C03.FLOW|order')
    rep.floor('C03.FLOW', 5)


# ---------------------------------------------------------------------- RESOLVE: binder + resolver vs the interpreter's symbol tables
RESOLVE_PROBES = {
    'nested classes': '''
def make():
    u_value = 10
    class Outer:
        u_value = 1
        class Inner:
            def get(self):
                return u_value
            other = [u_value for _ in ()]
    return Outer
''',
    'class scope is skipped by nested functions': '''
u_glob = 0
def f():
    u_loc = 1
    class C:
        u_attr = 2
        def m(self):
            return u_attr, u_loc, u_glob
        l = lambda: u_attr
        first = (x for x in u_attr)
        elem = (u_attr for x in ())
    return C
''',
    'global and nonlocal declarations': '''
def f():
    u_n = 0
    def h():
        nonlocal u_n
        u_n = u_n + 1
        def k():
            global u_g
            u_g = u_n
            return u_g
        return k
    return h
''',
    'shadowing and free variables': '''
u_a = 1
def outer(u_p):
    u_a = 2
    def mid():
        def inner(u_p=u_p):
            return u_a, u_p
        return inner
    def sibling():
        u_a = 3
        return u_a
    return mid, sibling, [u_a for u_a in u_p], (lambda u_q: u_q + u_a)
''',
    'builtins and unresolved names': '''
def f(u_x):
    return len(u_x) + u_undefined_global
class K:
    def m(self):
        return print
''',
    'binding forms': '''
def f():
    import u_mod
    import pkg.sub as u_alias
    from m import name as u_from
    try:
        pass
    except E as u_exc:
        u_exc
    with open(u_mod) as u_with:
        u_with
    for u_for in u_alias:
        u_for
    match u_from:
        case [u_cap, *u_rest]:
            u_cap, u_rest
        case {1: u_val, **u_kw}:
            u_val, u_kw
        case str() as u_as:
            u_as
    def u_func(): pass
    class u_cls: pass
    return u_func, u_cls
''',
    'walrus': '''
def f(z):
    r = [[(u_w := x) for x in a] for a in z]
    return r, u_w
''',
}


def _sym_resolve(tables, path, name):
    """Scope path in which `name`, used in the scope at `path`, is bound according to the interpreter's tables (None = builtin / unbound global)."""
    by_path = {p: t for (p, t) in tables}
    t = by_path[path]
    try:
        s = t.lookup(name)
    except KeyError:
        return 'no-mention'
    if s.is_global():
        top = by_path[()]
        try:
            ts = top.lookup(name)
            return () if (ts.is_assigned() or ts.is_imported() or s.is_declared_global() or ts.is_local()) else None
        except KeyError:
            return () if s.is_declared_global() else None
    if s.is_free() or (t.get_type() == 'class' and not s.is_local()):
        p = path[:-1]
        while True:
            tt = by_path[p]
            if tt.get_type() != 'class':
                try:
                    ss = tt.lookup(name)
                    if ss.is_local() and not ss.is_free():
                        return p
                except KeyError:
                    pass
            if p == ():
                return None
            p = p[:-1]
    if s.is_local():
        if path == ():
            return () if (s.is_assigned() or s.is_imported() or s.is_parameter()) else None
        return path
    return None


def resolve_rule(model, rep):
    BN = R + 'bind_names'
    RN = R + 'resolve_names'
    n = 0
    for pname, source in sorted(RESOLVE_PROBES.items()):
        ref_src = ast.unparse(ast.fix_missing_locations(_ToGen().visit(ast.parse(source))))
        tables = oracles.scope_tables(ref_src)
        tree = ast.parse(source)
        markers = {}
        mod = to_obj(tree, markers)
        set_parents(mod)
        hooks = dict(std_hooks(), **{'dir': lambda I, e, args, kw, env: dir(builtins)})
        I = Interp(model, MAPPER, hooks, max_depth=600)
        I.MAX_PATHS = 8

        def thunk():
            I.call_function(MAPPER + '.add_namespace', [mod])
            I.call_function(BN + '.bind_names', [mod])
            I.call_function(RN + '.resolve_names', [mod])
        res = I.explore(thunk)
        if len(res) != 1 or res[0][0][0] != 'return':
            raise AnalysisError('UNDECIDED: bind/resolve on probe %r -> %s %s' % (pname, [r[0] for r in res][:2], res[0][2][:3]))
        scopes = [o for o in walk(mod) if isinstance(o.attrs.get('bindings'), list)]
        owner = {}
        for sc in scopes:
            for b in sc.attrs['bindings']:
                if isinstance(b, Obj):
                    for r in public_value(model, b, 'references'):
                        owner[id(r)] = (sc, b)
        # every Name node whose id starts with u_
        for node in walk(mod):
            if node.cls != 'Name' or not str(node.attrs.get('id', '')).startswith(('u_', 'len', 'print')):
                continue
            name = node.attrs['id']
            ctx = node.attrs['ctx'].cls
            # scope of the occurrence according to the interpreter: the mapper-independent path comes from the symtable of the
            # innermost table that mentions the name *and* encloses the node; computed from the real tree positions
            use_path = _enclosing_scope_path(tree, node.attrs.get('_real') if '_real' in node.attrs else None, node)
            if use_path is None:
                continue
            want = _sym_resolve(tables, use_path, name)
            if want == 'no-mention':
                continue
            got_entry = owner.get(id(node))
            n += 1
            if got_entry is None:
                rep.violation('C03.RESOLVE', 'src/python_minifier/rename/resolve_names.py', '%s: %s (%s) in %s' % (pname, name, ctx, '/'.join(use_path) or 'module'),
                              'the name occurrence is attached to no binding at all: renaming its binding leaves this mention behind', key='C03.RESOLVE|%s|%s|%s|%s' % (pname, name, ctx, '/'.join(use_path)))
                continue
            sc, b = got_entry
            got = ns_path(sc) if sc.cls != 'Module' else ()
            want_path = () if want is None else want
            by_path = {p_: t_ for (p_, t_) in tables}
            if want is not None and by_path[want].get_type() == 'class' and got != want_path:
                # The repository files a name that a class body both binds and reads under the module as an unresolved, pinned name
                # (class-body loads compile to LOAD_NAME and may see either the class attribute or a global). That is conservative as
                # long as the binding cannot be renamed.
                pinned = public_value(model, b, 'allow_rename') is False
                rep.check(pinned, 'C03.RESOLVE', 'src/python_minifier/rename/resolve_names.py', '%s: %s (%s) in class scope %s -> pinned binding in %s' % (pname, name, ctx, '/'.join(use_path), '/'.join(got) or 'module'),
                          'class-level name kept out of renaming', 'a name bound in a class body is attached to a renamable binding in %s' % ('/'.join(got) or 'module'),
                          key='C03.RESOLVE|%s|%s|%s|%s' % (pname, name, ctx, '/'.join(use_path)))
                continue
            rep.check(got == want_path, 'C03.RESOLVE', 'src/python_minifier/rename/resolve_names.py', '%s: %s (%s) in %s -> %s' % (pname, name, ctx, '/'.join(use_path) or 'module', '/'.join(got) or 'module'),
                      'same scope as the interpreter\'s symbol table', 'the occurrence of %s in %s is attached to the binding in %s, the interpreter resolves it in %s: a rename of either binding changes what this name refers to' %
                      (name, '/'.join(use_path) or 'module', '/'.join(got) or 'module', '/'.join(want_path) or 'module / builtins'), key='C03.RESOLVE|%s|%s|%s|%s' % (pname, name, ctx, '/'.join(use_path)))
    rep.floor('C03.RESOLVE', 50)


def _enclosing_scope_path(tree, real, node_obj):
    """Scope path (names as symtable reports them) of a Name occurrence, from the real tree, following the language's rule for
    which scope evaluates each syntactic slot (defaults, decorators, annotations, bases, first comprehension iterable: enclosing scope)."""
    target = node_obj.attrs.get('_pos')
    found = []

    def label(n):
        if isinstance(n, (ast.FunctionDef, ast.AsyncFunctionDef, ast.ClassDef)):
            return n.name
        if isinstance(n, ast.Lambda):
            return 'lambda'
        return 'genexpr'

    def visit(n, path):
        if isinstance(n, ast.Name) and (n.lineno, n.col_offset) == target:
            found.append(path)
            return
        if isinstance(n, (ast.FunctionDef, ast.AsyncFunctionDef)):
            for d in n.decorator_list:
                visit(d, path)
            a = n.args
            for x in a.defaults + [k for k in a.kw_defaults if k is not None]:
                visit(x, path)
            for p in a.posonlyargs + a.args + a.kwonlyargs + ([a.vararg] if a.vararg else []) + ([a.kwarg] if a.kwarg else []):
                if p.annotation is not None:
                    visit(p.annotation, path)
            if n.returns is not None:
                visit(n.returns, path)
            for s in n.body:
                visit(s, path + (label(n),))
            return
        if isinstance(n, ast.Lambda):
            a = n.args
            for x in a.defaults + [k for k in a.kw_defaults if k is not None]:
                visit(x, path)
            visit(n.body, path + ('lambda',))
            return
        if isinstance(n, ast.ClassDef):
            for d in n.decorator_list + n.bases + [k.value for k in n.keywords]:
                visit(d, path)
            for s in n.body:
                visit(s, path + (n.name,))
            return
        if isinstance(n, (ast.ListComp, ast.SetComp, ast.GeneratorExp, ast.DictComp)):
            inner = path + ('genexpr',)
            for i, g in enumerate(n.generators):
                visit(g.iter, path if i == 0 else inner)
                visit(g.target, inner)
                for c in g.ifs:
                    visit(c, inner)
            for e in ([n.key, n.value] if isinstance(n, ast.DictComp) else [n.elt]):
                visit(e, inner)
            return
        if isinstance(n, ast.NamedExpr):
            # the target is *bound* outside comprehensions but it is mentioned in the comprehension's table
            visit(n.target, path)
            visit(n.value, path)
            return
        for c in ast.iter_child_nodes(n):
            visit(c, path)
    visit(tree, ())
    return found[0] if found else None
