"""Renaming evaluated end to end against the interpreter's own scoping rules (C03.E2E and the rename clauses of C04 / C10).

A probe module in which every binding has its own, unique name is taken through the namespace mapper, the binder, the resolver, the two permission
gates and `rename` (all run by the abstract interpreter), printed by the repository's printer and parsed. The checker then walks the original
and the renamed tree side by side:

  structure      apart from identifiers - and the statements `new = old` the renamer inserts to re-bind keyword-callable parameters and
                 builtins - the two trees are identical (attributes, keyword names, imported module names, strings ... are never touched)
  consistency    every occurrence of one binding carries the same new name
  no capture     with the scope in which the interpreter (symtable) binds each name: two bindings that received the same new name never
                 meet - an occurrence of A never sits in or below the scope of a B of that name that is nearer than A's own scope
  interface      names the interpreter does not bind in a function / lambda / comprehension scope - class attributes, globals when global
                 renaming is off, names used but never bound, attributes, keyword arguments - keep their spelling; a name added at module
                 level starts with an underscore unless global renaming is on; preserved names keep their spelling
"""
import ast
import builtins
import copy
import symtable

from ..absint import Interp
from ..model import AnalysisError

R = 'python_minifier.rename.'
MAPPER = R + 'mapper'

PROBES = {
    'functions, classes, closures, handlers': '''
import imp_mod
import imp_pkg.imp_sub
from frm_mod import frm_name, frm_other as frm_alias
g_const = 1
def g_func(p_a, p_b=g_const, *p_va, k_o=2, **p_kw):
    l_x = p_a + p_b
    l_y = [c_i * l_x for c_i in p_va if c_i]
    def n_inner(q_a):
        nonlocal l_x
        l_x = q_a + g_const + len(p_va)
        return lambda m_z: m_z + l_x + q_a
    with imp_mod.open(l_y) as w_f:
        for f_i in w_f:
            try:
                l_y.append(f_i)
            except imp_pkg.imp_sub.Err as e_x:
                print(e_x, frm_name, frm_alias, undefined_name)
    return n_inner, k_o, p_kw
class g_Cls(g_Base):
    c_attr = g_const
    def c_meth(self_, m_arg, *, m_kw=None):
        global g_late
        g_late = m_arg
        d_map = {d_k: d_v for d_k, d_v in m_arg.items() if d_k != m_kw}
        return self_.c_attr, g_late, g_Cls, d_map
    @staticmethod
    def c_static(s_arg):
        return s_arg.c_attr
g_val = g_func(1, p_b=2, k_o=3)
''',
    'many locals (names run out), siblings reuse names': None,   # generated below
    'comprehensions, assignment expressions, lambdas in defaults': '''
def g_comp(p_rows, p_key=lambda k_row: k_row):
    l_tot = 0
    l_out = [[(l_tot := l_tot + c_cell) for c_cell in c_row if c_cell] for c_row in p_rows]
    l_gen = (p_key(g_item) for g_item in l_out if (l_seen := g_item))
    l_set = {s_item for s_item in l_gen}
    return l_tot, l_seen, l_set, [lambda z_arg=c_cap: z_arg + l_tot for c_cap in p_rows]
g_table = [m_elt for m_elt in g_comp([[1]])]
''',
    'keyword-only defaults are evaluated in the enclosing scope': '''
def g_outer(p_seed, p_other):
    def n_inner(q_a, *, q_k=p_seed, q_j=p_other):
        return q_a, q_k, q_j, q_k, q_j
    n_lam = lambda z_a, *, z_k=p_seed: (z_a, z_k, z_k, z_k)
    class C_holder:
        def c_meth(self_, *, m_k=p_other):
            return m_k, m_k, m_k
    return n_inner, n_lam, C_holder, p_seed, p_other
''',
    'names bound nowhere that look like generated names': '''
def g_scale(p_values):
    l_result = []
    for l_value in p_values:
        l_result.append(l_value * A + B)
    return l_result, l_result, l_result, l_value, l_value
def g_offset(p_points):
    l_moved = [l_point + C + _A for l_point in p_points]
    return l_moved, l_moved, D, a, b
g_total = g_scale([1]) + g_offset([2]) + g_scale([3])
''',
    'class bodies that read enclosing names directly and bind attributes named like generated names': '''
g_base = 10
def g_palette(p_scale, p_labels):
    l_shift = p_scale + 1
    class g_Palette:
        A = 1
        B = 2
        C = 3
        c_red = p_scale * 3 + l_shift
        c_upper = [c_l.upper() for c_l in p_labels]
        c_width = len(p_labels) + A + l_shift
        def m_get(self, m_k):
            return p_scale, m_k, m_k, l_shift
    return g_Palette, p_scale, p_labels, l_shift, l_shift
class g_Config:
    F = 4
    D = g_base * 2
    E = [g_base for c_i in range(D)]
g_again = g_base + g_base + g_base
''',
    'builtins used often (aliased at module level), a literal __all__': '''
__all__ = ['g_api', 'g_other_api']
def g_api(p_items):
    return len(p_items), len(p_items[0]), len(p_items[1]), len(p_items[2]), isinstance(p_items, list), isinstance(p_items, tuple), isinstance(p_items, dict), isinstance(p_items, set)
def g_other_api(p_more):
    return len(p_more), len(p_more[0]), isinstance(p_more, str), isinstance(p_more, bytes), g_hidden(p_more)
def g_hidden(p_h):
    return len(p_h) + len(p_h[0]) + len(p_h[1])
''',
    'match statements and type of patterns': '''
def g_match(p_cmd):
    match p_cmd:
        case [a_first, *a_rest] if a_first:
            return a_first, a_rest
        case {'k': a_val, **a_more}:
            return a_val, a_more
        case g_Point(x=a_px, y=a_py) as a_whole:
            return a_px, a_py, a_whole
        case str() | bytes() as a_text:
            return a_text
    return p_cmd
''',
}


def _many_locals():
    # 56 busy locals (4 mentions each) and one rarely used local whose own name `x` is the 50th candidate: by the time `x` is processed its name
    # has been handed to a busier binding, so it must be renamed although that does not pay
    lines = ['def g_many(p_seed):']
    for i in range(56):
        prev = 'p_seed' if i == 0 else 'v%02d' % (i - 1)
        lines.append('    v%02d = %s + 1' % (i, prev))
    lines.append('    x = v55')
    lines.append('    def n_a(q_1):')
    lines.append('        r_1 = q_1 + v00 + x')
    lines.append('        return r_1')
    lines.append('    def n_b(q_2):')
    lines.append('        r_2 = q_2 + v01')
    lines.append('        return [r_2 + c_j for c_j in range(q_2)]')
    lines.append('    return n_a, n_b, [%s], [%s]' % (', '.join('v%02d' % i for i in range(56)), ', '.join('v%02d' % i for i in range(56))))
    return '\n'.join(lines) + '\n'


PROBES['many locals (names run out), siblings reuse names'] = _many_locals()


class _ToGen(ast.NodeTransformer):
    """symtable on 3.12 inlines list / set / dict comprehensions (PEP 709); generator expressions have the same scoping rules and their own table."""

    def _gen(self, node, elt):
        return ast.copy_location(ast.GeneratorExp(elt=elt, generators=node.generators), node)

    def visit_ListComp(self, node):
        self.generic_visit(node)
        return self._gen(node, node.elt)

    visit_SetComp = visit_ListComp

    def visit_DictComp(self, node):
        self.generic_visit(node)
        return self._gen(node, ast.Tuple(elts=[node.key, node.value], ctx=ast.Load()))


class MinifyRaises(Exception):
    """minify() (or the printer, on the module minify() produced) raises on a valid probe module: a finding, not an analysis problem."""


def run_pipeline(model, source, rename_locals=True, rename_globals=False, preserve_locals=(), preserve_globals=()):
    """minify() itself, evaluated with only the renaming options on; the module it hands to the printer is printed by the repository's printer."""
    from ..absprint import print_obj
    from ..minrun import minify_tree
    as_given = lambda v: v if isinstance(v, (str, tuple)) else list(v)       # a bare string and a tuple are documented spellings of the argument
    kind, _tree, mod = minify_tree(model, source, {'rename_locals': rename_locals, 'rename_globals': rename_globals, 'preserve_locals': as_given(preserve_locals),
                                                   'preserve_globals': as_given(preserve_globals)})
    if kind != 'ok':
        raise MinifyRaises('minify() raises %s' % (_tree,))
    kind, text = print_obj(model, mod)
    if kind == 'raise':
        raise MinifyRaises('the printer raises %s on the renamed module' % (text,))
    if kind != 'ok':
        raise AnalysisError('UNDECIDED: printing the renamed probe: %s %s' % (kind, text))
    return text


# ---------------------------------------------------------------------- scopes of the original program (symtable)
def _scope_of_names(tree):
    """name -> path of the scope that binds it (tuple of scope labels, () = module), or None when no scope binds it (builtin / undefined).
    Every binding of the probe has a unique name, so the name identifies the binding."""
    ref = ast.fix_missing_locations(_ToGen().visit(copy.deepcopy(tree)))
    top = symtable.symtable(ast.unparse(ref), 'probe', 'exec')
    out = {}

    def rec(t, path):
        seen = {}
        for s in t.get_symbols():
            n = s.get_name()
            if n.startswith('.'):
                continue    # the implicit iterator argument of a comprehension
            local_here = (s.is_assigned() or s.is_parameter() or s.is_imported()) and not s.is_free() and not (path != () and (s.is_global() or s.is_nonlocal())) and (s.is_local() or path == ())
            if local_here:
                if n in out and out[n] != path:
                    raise AnalysisError('probe: the name %s is bound in two scopes (%s, %s)' % (n, out[n], path))
                out[n] = path
            elif s.is_assigned() and s.is_global() and path != ():
                out.setdefault(n, ())      # `global x; x = ...` and assignment expressions in module-level comprehensions bind at module level
        for c in t.get_children():
            k = c.get_name()
            seen[k] = seen.get(k, 0) + 1
            rec(c, path + ('%s#%d' % (k, seen[k]),))
    rec(top, ())
    return out


def _tables_by_path(source, text):
    """scope path in the original (the numbering _walk_pairs uses) -> symbol table of the corresponding scope of the output. The two programs
    have the same structure, so their scope trees are walked in parallel (the output may have renamed the functions and classes)."""
    def top_of(t):
        ref = ast.fix_missing_locations(_ToGen().visit(ast.parse(t)))
        return symtable.symtable(ast.unparse(ref), 'probe', 'exec')
    a, b = top_of(source), top_of(text)
    out = {}

    def rec(ta, tb, path):
        out[path] = tb
        seen = {}
        ca, cb = ta.get_children(), tb.get_children()
        if len(ca) != len(cb):
            return
        for x, y in zip(ca, cb):
            k = x.get_name()
            seen[k] = seen.get(k, 0) + 1
            rec(x, y, path + ('%s#%d' % (k, seen[k]),))
    rec(a, b, ())
    return out


def _pair_declarations(decls, out):
    """Pair the names of each global / nonlocal statement of the original with those of the output: a name goes with the spelling its other
    occurrences in the same scope have in the output (else with its own spelling, else with what is left over)."""
    for (path, xs, ys) in decls:
        left = list(ys)
        todo = []
        for x in xs:
            here = [y for (x2, y, p2, role) in out if x2 == x and p2 == path and not role.startswith('decorators:') and role != 'declaration']
            want = next((y for y in here if y in left), None)
            if want is None:
                todo.append(x)
            else:
                left.remove(want)
                out.append((x, want, path, 'declaration'))
        for x in list(todo):
            if x in left:
                left.remove(x)
                todo.remove(x)
                out.append((x, x, path, 'declaration'))
        for x, y in zip(todo, left):
            out.append((x, y, path, 'declaration'))


def _walk_pairs(a, b, path, counters, out, problems):
    """Parallel walk of the original (a) and renamed (b) tree in the order the compiler visits scopes; collects (name in a, name in b, scope path,
    role) for every identifier position and reports any other difference."""
    if type(a) is not type(b):
        problems.append('structure differs: %s became %s' % (type(a).__name__, type(b).__name__))
        return

    def child_scope(label):
        key = (path, label)
        counters[key] = counters.get(key, 0) + 1
        inner_ = path + ('%s#%d' % (label, counters[key]),)
        counters.setdefault('__nodes__', {})[inner_] = (a, b)
        return inner_

    def ident(x, y, role, p=None):
        out.append((x, y, path if p is None else p, role))

    def seq(xs, ys, p):
        if len(xs) != len(ys):
            problems.append('structure differs: %d vs %d elements in a %s' % (len(xs), len(ys), type(a).__name__))
            return
        for x, y in zip(xs, ys):
            if isinstance(x, ast.AST):
                _walk_pairs(x, y, p, counters, out, problems)
            elif x != y:
                problems.append('a %r became %r' % (x, y))

    if isinstance(a, (ast.FunctionDef, ast.AsyncFunctionDef)):
        ident(a.name, b.name, 'definition')
        aa, ba = a.args, b.args
        seq(aa.defaults, ba.defaults, path)
        seq([k for k in aa.kw_defaults if k is not None], [k for k in ba.kw_defaults if k is not None], path)
        ann_a = [p_.annotation for p_ in aa.posonlyargs + aa.args + ([aa.vararg] if aa.vararg else []) + aa.kwonlyargs + ([aa.kwarg] if aa.kwarg else []) if p_.annotation is not None] + ([a.returns] if a.returns else [])
        ann_b = [p_.annotation for p_ in ba.posonlyargs + ba.args + ([ba.vararg] if ba.vararg else []) + ba.kwonlyargs + ([ba.kwarg] if ba.kwarg else []) if p_.annotation is not None] + ([b.returns] if b.returns else [])
        seq(ann_a, ann_b, path)
        seq(a.decorator_list, b.decorator_list, path)
        inner = child_scope(a.name)
        out.append((a.name, b.name, inner, 'decorators:' + ','.join(ast.unparse(d) for d in a.decorator_list)))
        for grp in ('posonlyargs', 'args', 'kwonlyargs'):
            xs, ys = getattr(aa, grp), getattr(ba, grp)
            if len(xs) != len(ys):
                problems.append('signature of %s changed' % a.name)
                return
            for x, y in zip(xs, ys):
                out.append((x.arg, y.arg, inner, 'parameter:' + grp))
        for grp in ('vararg', 'kwarg'):
            x, y = getattr(aa, grp), getattr(ba, grp)
            if (x is None) != (y is None):
                problems.append('signature of %s changed' % a.name)
            elif x is not None:
                out.append((x.arg, y.arg, inner, 'parameter:' + grp))
        seq(a.body, b.body, inner)
        return
    if isinstance(a, ast.Lambda):
        aa, ba = a.args, b.args
        seq(aa.defaults, ba.defaults, path)
        seq([k for k in aa.kw_defaults if k is not None], [k for k in ba.kw_defaults if k is not None], path)
        inner = child_scope('lambda')
        for grp in ('posonlyargs', 'args', 'kwonlyargs'):
            xs, ys = getattr(aa, grp), getattr(ba, grp)
            if len(xs) != len(ys):
                problems.append('signature of a lambda changed')
                return
            for x, y in zip(xs, ys):
                # only what a caller can pass by keyword is part of the interface of a lambda
                out.append((x.arg, y.arg, inner, 'parameter:posonlyargs' if grp == 'posonlyargs' else 'parameter:lambda'))
        for grp in ('vararg', 'kwarg'):
            x, y = getattr(aa, grp), getattr(ba, grp)
            if (x is None) != (y is None):
                problems.append('signature of a lambda changed')
            elif x is not None:
                out.append((x.arg, y.arg, inner, 'parameter:' + grp))
        _walk_pairs(a.body, b.body, inner, counters, out, problems)
        return
    if isinstance(a, ast.ClassDef):
        ident(a.name, b.name, 'definition')
        seq(a.bases, b.bases, path)
        seq([k.value for k in a.keywords], [k.value for k in b.keywords], path)
        if [k.arg for k in a.keywords] != [k.arg for k in b.keywords]:
            problems.append('class keyword names changed')
        seq(a.decorator_list, b.decorator_list, path)
        seq(a.body, b.body, child_scope(a.name))
        return
    if isinstance(a, (ast.ListComp, ast.SetComp, ast.GeneratorExp, ast.DictComp)):
        if len(a.generators) != len(b.generators):
            problems.append('comprehension changed')
            return
        _walk_pairs(a.generators[0].iter, b.generators[0].iter, path, counters, out, problems)
        inner = child_scope('genexpr')
        for i, (ga, gb) in enumerate(zip(a.generators, b.generators)):
            _walk_pairs(ga.target, gb.target, inner, counters, out, problems)
            if i:
                _walk_pairs(ga.iter, gb.iter, inner, counters, out, problems)
            seq(ga.ifs, gb.ifs, inner)
        if isinstance(a, ast.DictComp):
            _walk_pairs(a.key, b.key, inner, counters, out, problems)
            _walk_pairs(a.value, b.value, inner, counters, out, problems)
        else:
            _walk_pairs(a.elt, b.elt, inner, counters, out, problems)
        return
    if isinstance(a, ast.Name):
        ident(a.id, b.id, 'name:' + type(a.ctx).__name__)
        return
    if isinstance(a, ast.alias):
        if a.name != b.name:
            problems.append('imported name %r became %r' % (a.name, b.name))
        bound_a = a.asname or a.name.split('.')[0]
        bound_b = b.asname or b.name.split('.')[0]
        ident(bound_a, bound_b, 'import')
        return
    if isinstance(a, (ast.Global, ast.Nonlocal)):
        if len(a.names) != len(b.names):
            problems.append('global / nonlocal statement changed')
        # the names of a declaration are a set: their order carries no meaning. They are paired once the rest of the scope has been walked
        counters.setdefault('__decls__', []).append((path, list(a.names), list(b.names)))
        return
    if isinstance(a, ast.ExceptHandler):
        if a.type is not None or b.type is not None:
            if a.type is None or b.type is None:
                problems.append('except clause changed')
            else:
                _walk_pairs(a.type, b.type, path, counters, out, problems)
        if (a.name is None) != (b.name is None):
            problems.append('except ... as changed')
        elif a.name is not None:
            ident(a.name, b.name, 'handler')
        seq(a.body, b.body, path)
        return
    if isinstance(a, (ast.MatchAs, ast.MatchStar)):
        if isinstance(a, ast.MatchAs) and (a.pattern is None) != (b.pattern is None):
            problems.append('pattern changed')
        elif isinstance(a, ast.MatchAs) and a.pattern is not None:
            _walk_pairs(a.pattern, b.pattern, path, counters, out, problems)
        if (a.name is None) != (b.name is None):
            problems.append('capture pattern changed')
        elif a.name is not None:
            ident(a.name, b.name, 'capture')
        return
    if type(a).__name__ in ('TypeVar', 'ParamSpec', 'TypeVarTuple'):
        ident(a.name, b.name, 'typeparam')
        for f in a._fields:
            if f != 'name' and isinstance(getattr(a, f, None), ast.AST):
                _walk_pairs(getattr(a, f), getattr(b, f), path, counters, out, problems)
        return
    if isinstance(a, ast.MatchMapping):
        seq(a.keys, b.keys, path)
        seq(a.patterns, b.patterns, path)
        if (a.rest is None) != (b.rest is None):
            problems.append('mapping pattern changed')
        elif a.rest is not None:
            ident(a.rest, b.rest, 'capture')
        return
    if isinstance(a, ast.Module):
        seq(a.body, b.body, path)
        _pair_declarations(counters.pop('__decls__', []), out)
        return
    # everything else: fields compared one to one, identifiers that are not bindings (attributes, keywords ...) must be equal
    for f in a._fields:
        x, y = getattr(a, f, None), getattr(b, f, None)
        if isinstance(x, list):
            if not isinstance(y, list):
                problems.append('%s.%s changed' % (type(a).__name__, f))
            else:
                seq(x, y, path)
        elif isinstance(x, ast.AST):
            if not isinstance(y, ast.AST):
                problems.append('%s.%s changed' % (type(a).__name__, f))
            else:
                _walk_pairs(x, y, path, counters, out, problems)
        elif x != y or type(x) is not type(y):
            if f in ('lineno', 'col_offset', 'end_lineno', 'end_col_offset', 'kind', 'type_comment'):
                continue
            problems.append('%s.%s: %r became %r (not a name the renamer owns)' % (type(a).__name__, f, x, y))


def _strip_rebinds(out_tree, orig_names, orig_tree=None, by_node=None):
    """Remove the statements `new = old` the renamer inserts (old: a parameter of that function, or a builtin, at module level); -> {new: old}.
    Only as many leading candidates are removed as the body is longer than the body of the corresponding original function."""
    aliases = {}

    def strip(body, params, module_level, extra, known, owner=None):
        keep = []
        for st in body:
            if extra > 0 and isinstance(st, ast.Assign) and len(st.targets) == 1 and isinstance(st.targets[0], ast.Name) and isinstance(st.value, ast.Name) and (st.targets[0].id not in known or extra < 10 ** 5) and \
                    (st.value.id in params or (module_level and st.value.id in dir(builtins))):
                aliases[st.targets[0].id] = st.value.id
                if by_node is not None:
                    by_node.setdefault(owner, {})[st.targets[0].id] = st.value.id
                extra -= 1
                continue
            keep.append(st)
        return keep
    orig_funcs = [n for n in ast.walk(orig_tree) if isinstance(n, (ast.FunctionDef, ast.AsyncFunctionDef))] if orig_tree is not None else []
    out_funcs = [n for n in ast.walk(out_tree) if isinstance(n, (ast.FunctionDef, ast.AsyncFunctionDef))]
    out_tree.body = strip(out_tree.body, set(), True, len(out_tree.body) - len(orig_tree.body) if orig_tree is not None else 10 ** 6, orig_names, 'module')
    for i_, n in enumerate(out_funcs):
        a = n.args
        params = {p.arg for p in a.posonlyargs + a.args + a.kwonlyargs + ([a.vararg] if a.vararg else []) + ([a.kwarg] if a.kwarg else [])}
        paired = len(orig_funcs) == len(out_funcs)
        extra = (len(n.body) - len(orig_funcs[i_].body)) if paired else 10 ** 6
        # a name the corresponding original function mentions is not one the renamer introduced there (a name from elsewhere in the module may well be
        # handed out again inside a function that does not mention it)
        known = ({x.id for x in ast.walk(orig_funcs[i_]) if isinstance(x, ast.Name)} | {x.arg for x in ast.walk(orig_funcs[i_]) if isinstance(x, ast.arg)}) if paired else orig_names
        n.body = strip(n.body, params, False, extra, known, id(n)) or [ast.Pass()]
    return aliases


def judge(source, text, rename_globals=False, preserve_locals=(), preserve_globals=(), light=False):
    """-> list of problems. light: structure and consistency only (for probes whose scopes the symbol-table oracle does not model: type parameters)."""
    orig = ast.parse(source)
    try:
        out = ast.parse(text)
    except SyntaxError as e:
        return ['the renamed program does not parse: %s' % e]
    orig_names = {n.id for n in ast.walk(orig) if isinstance(n, ast.Name)} | {n.arg for n in ast.walk(orig) if isinstance(n, ast.arg)}
    aliases = _strip_rebinds(out, orig_names, orig)
    problems = []
    pairs = []
    _walk_pairs(orig, out, (), {}, pairs, problems)
    decorators_at = {p[2]: p[3][len('decorators:'):] for p in pairs if p[3].startswith('decorators:')}
    pairs = [p for p in pairs if not p[3].startswith('decorators:')]
    if problems:
        return problems[:4]
    scope_of = _scope_of_names(orig)
    # occurrences that go through a re-binding alias (A = param / A = len) stand for the aliased name
    new_of = {}
    function_like = lambda p: bool(p) and not any(False for _ in p)
    for (x, y, path, role) in pairs:
        new_of.setdefault(x, set()).add(y)
    # consistency
    body_of = {}
    for (x, y, path, role) in pairs:
        if not role.startswith('parameter:'):
            body_of.setdefault(x, set()).add(y)
    for x, ys in sorted(new_of.items()):
        ys2 = {aliases.get(y, y) if aliases.get(y, y) == x else y for y in ys}
        if len(ys2 - {x}) > 1:
            problems.append('the occurrences of %s are renamed inconsistently: %s' % (x, sorted(ys)))
        elif len(body_of.get(x, ())) > 1:
            # only the signature may keep the original spelling while the body uses the new name (re-bound at the top of the body)
            problems.append('some occurrences of %s are renamed to %s and others keep the old spelling' % (x, sorted(body_of[x] - {x})))
    if problems or light:
        return problems[:4]
    final = {}
    for x, ys in new_of.items():
        renamed = sorted(ys - {x})
        final[x] = renamed[0] if renamed else x
    # interface: names no function-like scope binds keep their spelling
    is_class_scope = {}
    for n in ast.walk(orig):
        pass
    class_names = set()

    def collect_class_scopes(node, path, counters):
        for ch in ast.iter_child_nodes(node):
            if isinstance(ch, ast.ClassDef):
                k = (path, ch.name)
                counters[k] = counters.get(k, 0) + 1
                p2 = path + ('%s#%d' % (ch.name, counters[k]),)
                class_names.add(p2)
                collect_class_scopes(ch, p2, counters)
            elif isinstance(ch, (ast.FunctionDef, ast.AsyncFunctionDef)):
                k = (path, ch.name)
                counters[k] = counters.get(k, 0) + 1
                collect_class_scopes(ch, path + ('%s#%d' % (ch.name, counters[k]),), counters)
            else:
                collect_class_scopes(ch, path, counters)
    collect_class_scopes(orig, (), {})
    for x, y in sorted(final.items()):
        sc = scope_of.get(x)
        if y == x:
            continue
        via_alias = aliases.get(y) == x
        if sc is None:
            if not (via_alias and x in dir(builtins)):
                problems.append('%s is not bound anywhere in the module (it belongs to builtins or to whoever defines it) but is renamed to %s' % (x, y))
        elif sc in class_names:
            problems.append('%s is a class attribute (reachable from outside as an attribute) but is renamed to %s' % (x, y))
        elif sc == () and not rename_globals:
            problems.append('%s is bound at module level and global renaming is off, but it is renamed to %s' % (x, y))
        elif x in preserve_locals and sc != ():
            problems.append('%s is in preserve_locals but is renamed to %s' % (x, y))
        elif x in preserve_globals and sc == ():
            problems.append('%s is in preserve_globals but is renamed to %s' % (x, y))
        elif x.startswith('__') and x.endswith('__'):
            problems.append('the system name %s is renamed to %s' % (x, y))
    # no free, global or builtin reference is captured: an occurrence of a name the original binds nowhere must still resolve, in the output,
    # to the module's globals / builtins - not to a binding of a function around it, nor to a name the output binds at module level
    try:
        tables = _tables_by_path(source, text)
    except SyntaxError:
        tables = {}
    top_table = tables.get(())
    for (x, y, path, role) in pairs:
        if scope_of.get(x) is not None or not role.startswith('name:') or top_table is None:
            continue
        if aliases.get(y) == x:
            continue       # the builtin re-bound at module level under a new name
        t = tables.get(path)
        if t is None:
            continue
        try:
            sym = t.lookup(y)
        except KeyError:
            continue
        if t is not top_table and (sym.is_local() or sym.is_free()) and not sym.is_global():
            problems.append('the reference to %s in %s (bound nowhere in the module: a builtin or a name supplied from outside) now resolves to a local binding of %s' %
                            (x, '/'.join(path), y))
            break
        try:
            tsym = top_table.lookup(y)
            bound_top = tsym.is_assigned() or tsym.is_imported()
        except KeyError:
            bound_top = False
        if bound_top:
            problems.append('the reference to %s in %s (bound nowhere in the module) now resolves to the module-level binding %s' % (x, '/'.join(path) or 'the module', y))
            break
    # keyword-callable parameters keep their spelling in the signature
    for (x, y, path, role) in pairs:
        if role in ('parameter:args', 'parameter:kwonlyargs', 'parameter:lambda') and y != x:
            # renaming in the signature is only legitimate for the implicit first parameter of a method / classmethod
            owner_is_class = path[:-1] in class_names
            first = [p for p in pairs if p[2] == path and p[3].startswith('parameter:')]
            implicit = decorators_at.get(path) in ('', 'classmethod')      # a plain method or a classmethod: the first parameter is supplied by the call itself
            if not (owner_is_class and implicit and first and first[0][0] == x and role == 'parameter:args'):
                problems.append('parameter %s (callers may pass it by keyword) is renamed to %s in the signature' % (x, y))
    # names added at module level
    for new, old in aliases.items():
        pass
    added_top = [st.targets[0].id for st in ast.parse(text).body if isinstance(st, ast.Assign) and isinstance(st.targets[0], ast.Name) and st.targets[0].id not in orig_names]
    if not rename_globals:
        for nm in added_top:
            if not nm.startswith('_'):
                problems.append('the name %s is added at module level without a leading underscore although global renaming is off' % nm)
    # no capture: two bindings with one new name never meet
    by_new = {}
    for x, y in final.items():
        if scope_of.get(x) is not None and scope_of[x] not in class_names:
            by_new.setdefault(y, []).append(x)
    for y, xs in sorted(by_new.items()):
        if len(xs) < 2:
            continue
        for (x, y2, path, role) in pairs:
            if x not in xs:
                continue
            sa = scope_of[x]
            for other in xs:
                if other == x:
                    continue
                sb = scope_of[other]
                visible = path[:len(sb)] == sb            # the occurrence sits in or below the other binding's scope
                nearer = len(sb) > len(sa) or sb == sa
                own = path[:len(sa)] == sa
                if visible and (nearer or not own):
                    problems.append('%s and %s are both renamed to %s, and an occurrence of %s in %s resolves to the other one' % (x, other, y, x, '/'.join(path) or 'the module'))
                    break
            else:
                continue
            break
    return problems[:6]


def judge_resolution(source, text, rename_globals=False, preserve_locals=(), preserve_globals=()):
    """O14 (props/resolve_oracle.py): alpha-equivalence per occurrence through the symbol tables; no assumption on the names of the probe."""
    from . import resolve_oracle
    orig = ast.parse(source)
    try:
        out = ast.parse(text)
    except SyntaxError as e:
        return ['the renamed program does not parse: %s' % e]
    try:
        compile(text, 'renamed probe', 'exec', dont_inherit=True)
    except SyntaxError as e:
        return ['the compiler rejects the renamed program: %s' % e]
    orig_names = {n.id for n in ast.walk(orig) if isinstance(n, ast.Name)} | {n.arg for n in ast.walk(orig) if isinstance(n, ast.arg)}
    by_node = {}
    _strip_rebinds(out, orig_names, orig, by_node=by_node)
    pairs, structural, counters = [], [], {}
    _walk_pairs(orig, out, (), counters, pairs, structural)
    if structural:
        return structural[:3]
    scope_nodes = counters.get('__nodes__', {})
    aliases_by_path = {(): by_node.get('module', {})}
    for path, (na, nb) in scope_nodes.items():
        if id(nb) in by_node:
            aliases_by_path[path] = by_node[id(nb)]
    return resolve_oracle.problems(source, text, orig, pairs, scope_nodes, aliases_by_path, _tables_by_path, rename_globals=rename_globals,
                                   preserve_locals=preserve_locals, preserve_globals=preserve_globals)


CONFIGS = [('rename_locals', dict(rename_locals=True, rename_globals=False)), ('rename_locals and rename_globals', dict(rename_locals=True, rename_globals=True)),
           ('renaming off', dict(rename_locals=False, rename_globals=False)),
           ('rename_locals with preserved names', dict(rename_locals=True, rename_globals=True, preserve_locals=('l_x', 'q_a', 'v10', 'c_cell', 'a_first'), preserve_globals=('g_const', 'g_many', 'g_table', 'g_match', 'g_hidden')))]


def run(model, rep, rule='C03.E2E', only=None):
    fi = model.func('python_minifier.minify')
    n_renamed = 0
    for label, source in sorted(PROBES.items()):
        try:
            ast.parse(source)
        except SyntaxError:
            rep.note('%s: this interpreter cannot parse the probe %r' % (rule, label))
            continue
        for (clabel, cfg) in CONFIGS:
            if only is not None and clabel not in only:
                continue
            try:
                text = run_pipeline(model, source, **cfg)
            except MinifyRaises as ex:
                rep.violation(rule, fi.loc(), 'probe `%s`, %s' % (label, clabel), '%s: minify fails on a valid module' % ex, key='%s|%s|%s' % (rule, label, clabel))
                continue
            problems = judge(source, text, rename_globals=cfg.get('rename_globals', False), preserve_locals=cfg.get('preserve_locals', ()), preserve_globals=cfg.get('preserve_globals', ()))
            if not problems:
                problems = judge_resolution(source, text, rename_globals=cfg.get('rename_globals', False), preserve_locals=cfg.get('preserve_locals', ()), preserve_globals=cfg.get('preserve_globals', ()))
            if cfg.get('rename_locals') and text != run_pipeline.__dict__.get('_noop'):
                n_renamed += 1
            if not cfg.get('rename_locals') and not cfg.get('rename_globals'):
                # nothing may change at all
                if ast.dump(ast.parse(text)) != ast.dump(ast.parse(source)):
                    problems.append('with renaming off the printed program differs from the original')
            rep.check(not problems, rule, fi.loc(), 'probe `%s`, %s' % (label, clabel), 'same structure, every binding renamed consistently, no two bindings of one name meet, interface names untouched',
                      '; '.join(problems[:3]) + ' -- output: %r' % text[:140], key='%s|%s|%s' % (rule, label, clabel))
    rep.floor(rule, 12 if only is None else 4)


# ---------------------------------------------------------------------- every binding form of the grammar
# (class, field) of the ASDL -> probe in which the name l_old / g_old is bound by that form and mentioned again
FORM_PROBES = {
    ('Name', 'id'): ['def f():\n    l_old = 1\n    return l_old + l_old\n', 'def f():\n    l_old = 1\n    del l_old\n', 'def f(x):\n    for l_old in x:\n        yield l_old, l_old\n',
                     'def f(x):\n    with x as l_old:\n        return l_old, l_old\n', 'def f(x):\n    if (l_old := x):\n        return l_old, l_old\n',
                     'def f(x):\n    return [l_old * l_old for l_old in x]\n', 'g_old = 1\nprint(g_old, g_old)\n'],
    ('FunctionDef', 'name'): ['def f():\n    def l_old():\n        return 1\n    return l_old() + l_old()\n', 'def g_old():\n    return 1\nprint(g_old(), g_old)\n'],
    ('AsyncFunctionDef', 'name'): ['def f():\n    async def l_old():\n        return 1\n    return l_old(), l_old\n'],
    ('ClassDef', 'name'): ['def f():\n    class l_old:\n        pass\n    return l_old(), l_old\n', 'class g_old:\n    pass\nprint(g_old(), g_old)\n'],
    ('alias', 'asname'): ['def f():\n    import os as l_old\n    return l_old.a + l_old.b\n', 'def f():\n    from os import path as l_old\n    return l_old.a + l_old.b\n', 'import os as g_old\nprint(g_old.a, g_old.b)\n'],
    ('alias', 'name'): ['def f():\n    import l_old\n    return l_old.a + l_old.b\n', 'def f():\n    from m import l_old\n    return l_old.a + l_old.b\n', 'def f():\n    import l_old.sub\n    return l_old.sub.a + l_old.b\n',
                        'import g_old\nprint(g_old.a, g_old.b)\n'],
    ('arg', 'arg'): ['def f(l_old):\n    return l_old + l_old + l_old\n', 'def f(*l_old):\n    return l_old + l_old\n', 'def f(**l_old):\n    return l_old, l_old\n', 'def f(a, /, l_old=1, *, k_old=2):\n    return l_old + l_old + k_old + k_old\n',
                     'def f(l_old, /):\n    return l_old + l_old\n', 'f = lambda l_old: l_old + l_old\n', 'class K:\n    def m(self_old, x):\n        return self_old.a + self_old.b + x\n'],
    ('ExceptHandler', 'name'): ['def f():\n    try:\n        pass\n    except E as l_old:\n        return l_old, l_old\n', 'try:\n    pass\nexcept E as g_old:\n    print(g_old, g_old)\n'],
    ('Global', 'names'): ['g_old = 0\ndef f():\n    global g_old\n    g_old = 1\n    return g_old\n', 'def f():\n    global g_old, g_other\n    g_old = g_other = 1\nprint(g_old, g_other)\n'],
    ('Nonlocal', 'names'): ['def f():\n    l_old = 1\n    def g():\n        nonlocal l_old\n        l_old = 2\n        return l_old\n    return g, l_old\n'],
    ('MatchAs', 'name'): ['def f(x):\n    match x:\n        case [1, 2] as l_old:\n            return l_old, l_old\n        case l_other:\n            return l_other, l_other\n'],
    ('MatchStar', 'name'): ['def f(x):\n    match x:\n        case [1, *l_old]:\n            return l_old, l_old\n'],
    ('MatchMapping', 'rest'): ['def f(x):\n    match x:\n        case {1: 2, **l_old}:\n            return l_old, l_old\n'],
    ('TypeVar', 'name'): ['def f[T_old](a: T_old) -> T_old:\n    l_old: T_old = a\n    return l_old, l_old\n', 'class K[T_old]:\n    def m(self, x: T_old) -> T_old:\n        return x\n'],
    ('ParamSpec', 'name'): ['def f[**T_old](a: Callable[T_old, int]):\n    l_old = a\n    return l_old, l_old\n'],
    ('TypeVarTuple', 'name'): ['def f[*T_old](*a: *T_old):\n    l_old = a\n    return l_old, l_old\n'],
}
LIGHT = {'TypeVar', 'ParamSpec', 'TypeVarTuple'}


def forms(model, rep, rule, binding_fields):
    """Exhaustiveness over the grammar: every ASDL field that holds a bound identifier has probes, and renaming them end to end keeps the program
    alpha-equivalent. binding_fields: the (class, field) pairs of the ASDL the property is about."""
    fi = model.func('python_minifier.minify')
    renamed = 0
    for (c, f) in sorted(binding_fields):
        if (c, f) not in FORM_PROBES:
            raise AnalysisError('binding identifier field %s.%s of the grammar has no probe in the form table' % (c, f))
        for i, source in enumerate(FORM_PROBES[(c, f)]):
            label = '%s.%s probe %d `%s`' % (c, f, i + 1, source.strip().replace('\n', '; ')[:70])
            key = '%s|form|%s.%s|%d' % (rule, c, f, i + 1)
            try:
                ast.parse(source)
            except SyntaxError:
                rep.note('%s: this interpreter cannot parse the probe %s' % (rule, label))
                continue
            try:
                text = run_pipeline(model, source, rename_locals=True, rename_globals=True)
            except MinifyRaises as ex:
                rep.violation(rule, fi.loc(), label, '%s: minify fails on a valid module that binds a name with %s' % (ex, c), key=key)
                continue
            problems = judge(source, text, rename_globals=True, light=c in LIGHT)
            names = {n for n in ('l_old', 'g_old', 'k_old', 'self_old', 'l_other', 'g_other') if n in source}
            gone = {n for n in names if n not in text}
            renamed += bool(gone)
            rep.check(not problems, rule, fi.loc(), '%s -> %r' % (label, text[:60]), 'alpha-equivalent (%s)' % ('renamed: %s' % sorted(gone) if gone else 'name kept'),
                      'renaming a name bound by %s.%s breaks the program: %s -- output %r' % (c, f, '; '.join(problems[:2]), text[:140]), key=key)
    rep.count('binding_forms_renamed', renamed)
    rep.sensitive(renamed >= 20, 'only %d of the binding-form probes are renamed at all: the form rule has lost its sensitivity' % renamed)


def final_names(source, text):
    """name in the original -> set of spellings its occurrences have in the output (re-binding aliases resolved)."""
    orig, out = ast.parse(source), ast.parse(text)
    orig_names = {n.id for n in ast.walk(orig) if isinstance(n, ast.Name)} | {n.arg for n in ast.walk(orig) if isinstance(n, ast.arg)}
    aliases = _strip_rebinds(out, orig_names, orig)
    pairs, problems = [], []
    _walk_pairs(orig, out, (), {}, pairs, problems)
    new_of = {}
    for (x, y, _path, role) in pairs:
        if role.startswith('decorators:'):
            continue
        new_of.setdefault(x, set()).add(aliases.get(y, y) if aliases.get(y) == x else y)
    return new_of, problems


def keep_names(model, rep, rule, label, source, must_keep, why):
    """The probe is renamed with both renaming options on; the names in must_keep keep their spelling at every occurrence and the result is alpha-equivalent."""
    fi = model.func('python_minifier.minify')
    key = '%s|%s' % (rule, label)
    try:
        text = run_pipeline(model, source, rename_locals=True, rename_globals=True)
    except MinifyRaises as ex:
        rep.violation(rule, fi.loc(), label, '%s: minify fails on a valid module' % ex, key=key)
        return
    problems = judge(source, text, rename_globals=True)
    rep.check(not problems, rule, fi.loc(), '%s, renamed with both options on' % label, 'alpha-equivalent, interface names untouched', '; '.join(problems[:3]) + ' -- output: %r' % text[:140], key=key)
    new_of, _p = final_names(source, text)
    n_renamed = sum(1 for x, ys in new_of.items() if ys != {x})
    for name in sorted(must_keep):
        ys = new_of.get(name)
        if ys is None:
            raise AnalysisError('probe %s: the name %s does not occur' % (label, name))
        rep.check(ys == {name}, rule, fi.loc(), '%s: %s -> %s' % (label, name, sorted(ys)), 'keeps its spelling (%s)' % why.get(name, ''),
                  '%s is renamed to %s although it must keep its spelling: %s' % (name, sorted(ys - {name}), why.get(name, '')), key='%s|%s' % (key, name))
    rep.sensitive(n_renamed >= 5, 'probe %s: only %d names are renamed at all: the probe has lost its sensitivity' % (label, n_renamed))


def signatures(model, rep, rule, kinds, sigs):
    """Every function kind x signature shape, renamed end to end: a parameter callers can pass by keyword keeps its spelling in the signature."""
    fi = model.func('python_minifier.minify')
    in_place = 0
    for kname, tpl in sorted(kinds.items()):
        for (sig, names, pkinds) in sigs:
            use = ', '.join(names * 3)
            source = tpl.replace('{SIG}', sig).replace('{USE}', use)
            label = '%s with signature (%s)' % (kname, sig)
            key = '%s|%s|%s' % (rule, kname, sig)
            try:
                text = run_pipeline(model, source, rename_locals=True, rename_globals=False)
            except MinifyRaises as ex:
                rep.violation(rule, fi.loc(), label, '%s: minify fails on a valid module' % ex, key=key)
                continue
            problems = judge(source, text) or judge_resolution(source, text)
            new_of, _p = final_names(source, text)
            try:
                out_sig = [n for n in ast.walk(ast.parse(text)) if isinstance(n, (ast.FunctionDef, ast.AsyncFunctionDef)) and n.name == 'f']
                a = out_sig[0].args
                sig_names = [x.arg for x in a.posonlyargs + a.args + ([a.vararg] if a.vararg else []) + a.kwonlyargs + ([a.kwarg] if a.kwarg else [])]
            except (SyntaxError, IndexError):
                sig_names = list(names)
            for n_, k_ in pkinds.items():
                if n_ not in sig_names:
                    in_place += 1
                    first_pos = next((q for q in names if pkinds[q] in ('posonly', 'arg')), None)
                    if k_ in ('arg', 'kwonly') and not (k_ == 'arg' and n_ == first_pos and kname in ('method', 'async method', 'classmethod', 'method of a nested class')):
                        problems.append('the %s parameter %s is renamed in the signature' % (k_, n_))
            rep.check(not problems, rule, fi.loc(), '%s -> %r' % (label, text[:70]), 'keyword-callable parameters keep their spelling in the signature; the body is alpha-equivalent',
                      '; '.join(problems[:3]) + ' -- output: %r' % text[:160], key=key)
    rep.count('parameters_renamed_in_place', in_place)
    rep.sensitive(in_place >= 10, 'only %d parameters are renamed in the signature on the probes: the signature rule has lost its sensitivity' % in_place)


# ---------------------------------------------------------------------- names that are bound nowhere
def free_names(text):
    """Names some scope of the program treats as global and the module never binds: they are looked up in builtins or must be supplied by
    whoever runs the module. (symtable: the interpreter's own resolution)"""
    top = symtable.symtable(text, 'probe', 'exec')
    bound_at_top = {s.get_name() for s in top.get_symbols() if s.is_assigned() or s.is_imported() or s.is_parameter()}
    out = set()

    def rec(t):
        for s in t.get_symbols():
            n = s.get_name()
            if n.startswith('.'):
                continue
            if t is top:
                if s.is_referenced() and n not in bound_at_top:
                    out.add(n)
            elif s.is_global() and n not in bound_at_top:
                if s.is_assigned() and s.is_declared_global():
                    continue      # global x; x = ...  binds it at module level
                out.add(n)
        for c in t.get_children():
            rec(c)
    rec(top)
    declared = set()

    def rec2(t):
        for s in t.get_symbols():
            if t is not top and s.is_declared_global() and s.is_assigned():
                declared.add(s.get_name())
        for c in t.get_children():
            rec2(c)
    rec2(top)
    return out - declared


def new_free_names(source, text):
    """Names the output leaves unbound that the original did not: a reference that lost its binding (renamed on one side only, or resolved in
    the wrong scope). Does not need one name per binding."""
    try:
        return sorted(free_names(text) - free_names(source))
    except SyntaxError as e:
        return ['<the output does not compile: %s>' % e]


IDIOM_PROBES = {
    'keyword-only default named like the outer variable it captures (def f(*, x=x))': '''
def make_handlers(handler_names):
    handlers = []
    for handler_name in handler_names:
        def handle(event, *, handler_name=handler_name, handlers=handlers):
            return handler_name, event, len(handlers), handler_name
        handlers.append(handle)
    return handlers, handler_name
''',
    'positional default and lambda default named like the outer variable': '''
def make_adders(amounts):
    adders = [lambda value, amount=amount: value + amount + amount for amount in amounts]
    def first(value, amounts=amounts):
        return adders[0](value), amounts, amounts
    return adders, first, amounts
''',
    'property with a setter in a class inside a function whose parameter has the same name, nonlocal of it below a method': '''
def make_sensor(reading):
    class Sensor:
        def __init__(self):
            self._reading = reading
        @property
        def reading(self):
            return self._reading
        @reading.setter
        def reading(self, new_reading):
            self._reading = new_reading
        def recalibrate(self, offset):
            def apply():
                nonlocal reading
                reading = reading + offset
                return reading
            return apply()
    return Sensor, reading
''',
    'class attribute and method parameter share a name with an enclosing local': '''
def build(registry):
    class Entry:
        registry = registry
        def lookup(self, key, registry=registry):
            return registry[key], registry
    return Entry, registry, registry
''',
}


def class_body_names(tree):
    """For every class, in source order: the names its body binds directly (attributes other code reaches as Class.name)."""
    out = []
    for n in ast.walk(tree):
        if isinstance(n, ast.ClassDef):
            names = []
            for st in n.body:
                if isinstance(st, (ast.FunctionDef, ast.AsyncFunctionDef, ast.ClassDef)):
                    names.append(st.name)
                elif isinstance(st, (ast.Assign, ast.AnnAssign, ast.AugAssign)):
                    for t in (st.targets if isinstance(st, ast.Assign) else [st.target]):
                        names += [x.id for x in ast.walk(t) if isinstance(x, ast.Name)]
                elif isinstance(st, (ast.Import, ast.ImportFrom)):
                    names += [(a.asname or a.name.split('.')[0]) for a in st.names]
            out.append(names)
    return out


# ---------------------------------------------------------------------- one name in several scopes, declarations, generated-looking names
# Judged by the resolution oracle (O14, props/resolve_oracle.py), which identifies a binding by (scope, name) and so needs no unique names.
REUSE_PROBES = {
    'nonlocal / global statements naming several names, among them names that look like generated ones': """
def g_decl():
    x = 0
    A = 0
    B = 1
    def n_f():
        nonlocal x, A, B
        x = x + 1
        x = x + A
        A = 5 + B
        return x
    n_f()
    return x, A, B
y = 0
C = 0
def g_glob():
    global y, C
    y = y + 1
    y = y + 1
    C = 5
    return y
print(g_decl(), g_glob(), y, C)
""",
    'a global declaration between a local and the function that reads the name': """
counter = 100
def make():
    counter = 0
    def middle():
        global counter
        def inner():
            return counter
        counter = counter + 1
        return inner()
    counter = counter + 5
    return middle(), counter
print(make(), counter)
""",
    'global declaration of a name the module never binds': """
def g_reader():
    global cfg_external
    return cfg_external + cfg_external + cfg_external
def g_builtin():
    global len
    return len('a') + len('b') + len('c') + len('d')
def g_binder():
    global made_here
    made_here = 1
    return made_here + made_here
print(g_binder(), made_here)
""",
    'a class body that reads a name before binding it, same name in the enclosing function and at module level': """
value = 'global'
limit = 10
def outer():
    value = 'enclosing'
    limit = 20
    class K:
        value = value
        limit: int = limit
        def m(self):
            return value, limit
    return K.value, K.limit, value, limit, K().m()
print(outer(), value, limit)
""",
    'annotated names that are not simple targets': """
x = 1
y = 2
def f():
    (x): int
    (y): int = 5
    z: int
    w: int = 7
    return x, y, w
print(f(), x, y)
""",
    'parameters and locals that are spelled like generated names': """
class Matrix:
    def scale(self, A):
        return self.data * A + self.offset * A
    def shift(self, B, A=1):
        return self.data + B + A + self.offset
    @classmethod
    def make(cls, A, *rest, B=2):
        return cls(A, *rest), cls.kind, cls, B
def pos(first, /, A, B):
    return first + first + first + A + B
def star(*items, A=None, **extra):
    return items, items, items, extra, extra, A
def local_names(values):
    A = len(values)
    total = 0
    for B in values:
        total = total + B * A
    return total, total
""",
    'the same name at module level, in a function, in a class, in a comprehension, in a lambda and in a handler': """
import name
name_list = [name for name in range(3)]
def use(name):
    try:
        other = [name for name in name]
    except Exception as name:
        print(name)
    else:
        name = lambda name: name + 1
    return name, other
class name_holder:
    name = name
    def get(self, name=name):
        return name, self.name
from pkg import item as name
print(name, name_list, use, name_holder)
""",
    'assignment expressions several comprehension levels deep, read outside the comprehensions': """
def summarize(rows):
    last = None
    flat = [[(last := cell) for cell in row] for row in rows]
    seen = {key: [(last := (key, item)) for item in items if (count := len(items))] for key, items in rows}
    return flat, last, seen, count
total = 0
table = [[(total := total + n) for n in r] for r in [[1, 2], [3]]]
gen = list(((total := total * 2) for _ in r) for r in [[1], [2]])
print(summarize, total, table, gen)
""",
    'nested closures that shadow and re-use one name': """
def level0(v):
    def level1():
        def level2(v):
            def level3():
                return v
            return level3, v
        return level2(v), v
    def sibling():
        v = 2
        def leaf():
            nonlocal v
            v = v + 1
            return v
        return leaf
    return level1, sibling, v
""",
}


def reuse(model, rep, rule):
    fi = model.func('python_minifier.minify')
    n = 0
    for label, source in sorted(REUSE_PROBES.items()):
        try:
            compile(source, 'probe', 'exec', dont_inherit=True)
        except SyntaxError:
            rep.note('%s: this interpreter cannot compile the probe %r' % (rule, label))
            continue
        for clabel, cfg in (('rename_locals', dict(rename_locals=True, rename_globals=False)), ('rename_locals and rename_globals', dict(rename_locals=True, rename_globals=True))):
            key = '%s|reuse|%s|%s' % (rule, label, clabel)
            try:
                text = run_pipeline(model, source, **cfg)
            except MinifyRaises as ex:
                rep.violation(rule, fi.loc(), 'probe `%s`, %s' % (label, clabel), '%s: minify fails on a valid module' % ex, key=key)
                continue
            n += text != source
            problems = judge_resolution(source, text, rename_globals=cfg['rename_globals'])
            rep.check(not problems, rule, fi.loc(), 'probe `%s`, %s' % (label, clabel),
                      'every identifier resolves, under the interpreter\'s scoping rules, to the counterpart of the binding it resolved to; bindings neither split nor merge; interface names untouched',
                      '; '.join(problems[:3]) + ' -- output: %r' % text[:200], key=key)
    rep.sensitive(n >= 8, 'only %d of the name-reuse probes are changed by renaming at all' % n)


def idioms(model, rep, rule):
    """Probes in which one name is bound in several scopes (so the alpha-equivalence oracle does not apply): the output must compile, must not
    leave a name unbound that the original binds, and must keep the structure."""
    fi = model.func('python_minifier.minify')
    for label, source in sorted(IDIOM_PROBES.items()):
        for clabel, cfg in (('rename_locals', dict(rename_locals=True, rename_globals=False)), ('rename_locals and rename_globals', dict(rename_locals=True, rename_globals=True))):
            key = '%s|idiom|%s|%s' % (rule, label, clabel)
            try:
                text = run_pipeline(model, source, **cfg)
            except MinifyRaises as ex:
                rep.violation(rule, fi.loc(), 'probe `%s`, %s' % (label, clabel), '%s: minify fails on a valid module' % ex, key=key)
                continue
            problems = []
            lost = new_free_names(source, text)
            if lost:
                problems.append('the output refers to %s, which nothing binds any more (the original binds it)' % lost)
            try:
                a, b = ast.parse(source), ast.parse(text)
                orig_names = {n.id for n in ast.walk(a) if isinstance(n, ast.Name)} | {n.arg for n in ast.walk(a) if isinstance(n, ast.arg)}
                _strip_rebinds(b, orig_names, a)
                pairs, structural = [], []
                _walk_pairs(a, b, (), {}, pairs, structural)
                problems += structural[:2]
                ca, cb = class_body_names(a), class_body_names(b)
                if ca != cb:
                    problems.append('names bound in class bodies changed: %s -> %s' % ([x for x, y in zip(ca, cb) if x != y][:1], [y for x, y in zip(ca, cb) if x != y][:1]))
            except SyntaxError as e:
                problems.append('the output does not parse: %s' % e)
            if not problems:
                problems = judge_resolution(source, text, rename_globals=cfg['rename_globals'])
            rep.check(not problems, rule, fi.loc(), 'probe `%s`, %s -> %r' % (label, clabel, text[:70]), 'compiles, same structure, no reference loses its binding',
                      '; '.join(problems[:3]) + ' -- output: %r' % text[:160], key=key)
