"""C05 - each option performs only its documented rewrite, only where it is valid."""
import ast
import builtins
import itertools

from ..absint import Interp, Obj, TOP, ClassRef, _Raise
from ..absnodes import Attr, Call, Compare, Const, Expr, Name, children, set_parents, std_hooks, walk
from ..astutil import calls, kwarg, literal, local_defs
from ..facts import Facts, fact_texts
from ..model import AnalysisError, src, walk_own
from ..oracles import asdl
from ..pipeline import Pipeline

T = 'python_minifier.transforms.'
ST = T + 'suite_transformer.SuiteTransformer'

# documented meaning of each option: which stage it switches (docs/source/transforms/<option>.rst); hand-written, printed in the evidence
OPTION_OF_STAGE = {
    'RemoveLiteralStatements': 'remove_literal_statements', 'CombineImports': 'combine_imports', 'RemoveAnnotations': 'remove_annotations',
    'RemovePass': 'remove_pass', 'RemoveObject': 'remove_object_base', 'RemoveAsserts': 'remove_asserts', 'RemoveDebug': 'remove_debug',
    'RemoveExplicitReturnNone': 'remove_explicit_return_none', 'FoldConstants': 'constant_folding',
    'remove_no_arg_exception_call': 'remove_builtin_exception_brackets', 'rename_literals': 'hoist_literals', 'remove_posargs': 'convert_posargs_to_args',
}
DATA_GATED = {'rename'}          # runs always; every binding is pinned when both rename switches are off (C04.GLOB / C09.GATE / C10)
ANNOTATION_ONLY = {'add_parent', 'add_namespace', 'bind_names', 'resolve_names', 'allow_rename_locals', 'allow_rename_globals'}
FILTERING = {'RemovePass': T + 'remove_pass.RemovePass', 'RemoveAsserts': T + 'remove_asserts.RemoveAsserts', 'RemoveDebug': T + 'remove_debug.RemoveDebug',
             'RemoveLiteralStatements': T + 'remove_literal_statements.RemoveLiteralStatements'}


def hooks_for_transform(record=None):
    h = std_hooks()
    h['self.add_child'] = lambda I, e, args, kw, env: (args[0].attrs.__setitem__('_parent', kw.get('parent', args[1] if len(args) > 1 else None)), args[0])[1] if isinstance(args[0], Obj) else TOP
    return h


def mk_node(cls, depth=0):
    """A generic descriptor of an ASDL class with every field present."""
    c = asdl()[cls]
    o = Obj(cls)
    for (f, t, q) in c.fields:
        if q == '*':
            if t == 'stmt':
                o.attrs[f] = [Obj('Break')]
            elif t == 'match_case':
                o.attrs[f] = [mk_node('match_case')] if depth < 2 else []
            elif t == 'excepthandler':
                o.attrs[f] = [mk_node('ExceptHandler', depth + 1)] if depth < 2 else []
            else:
                o.attrs[f] = []
        elif q == '?':
            o.attrs[f] = None
        elif t == 'identifier':
            o.attrs[f] = 'x'
        elif t == 'int':
            o.attrs[f] = 0
        elif t == 'expr':
            o.attrs[f] = Name('e')
        elif t == 'arguments':
            o.attrs[f] = Obj('arguments', posonlyargs=[], args=[], vararg=None, kwonlyargs=[], kw_defaults=[], kwarg=None, defaults=[])
        elif t == 'pattern':
            o.attrs[f] = Obj('MatchAs', pattern=None, name=None)
        else:
            o.attrs[f] = Obj(t)
    return o


def run(model, rep):
    rep.explanation = ('(GATE) minify() is evaluated with every stage answered by a recorder: with every option off no rewriting stage runs, each option switches exactly its own '
                       'stage; the unconditional stages only write annotations (effect summaries). Every other rule evaluates the real minify() - nothing replaced, the module '
                       'handed to the printer captured - with exactly one option on, on probe modules, and compares the result with the documented rewrite implemented '
                       'independently in the checker: (OFF) all options off -> the parsed tree, unchanged; (SUITE) pass / assert / literal statements removed from every kind of '
                       'statement list of the grammar, emptied blocks become `0`; (DEBUG) only tests of __debug__ being true, else branches survive; (DOC) docstrings kept when '
                       'the module reads __doc__; (EXC) brackets dropped only for no-argument calls of un-shadowed builtin exception classes directly in raise, for every '
                       'builtin name; (ANN) annotation removal by option set x scope kind (class, dataclass forms, NamedTuple/TypedDict, function, module, scopes nested in '
                       'each other) x nesting x value/no value; (RET/OBJ/IMP/POS) the remaining rewrites. Not decided: bisimilarity of compiled code in general.')
    for r, t in [('C05.GATE', 'rewriting stage reachable only under its own option'), ('C05.EFF', 'unconditional stages are annotation-only'),
                 ('C05.OFF', 'every option off: the tree handed to the printer is the parsed one'),
                 ('C05.ONLY', 'exactly one option on: that option\'s rewrite and no other'),
                 ('C05.SUITE', 'statement filters: exact kind removed from every kind of statement list, order kept, emptied blocks become `0`'),
                 ('C05.DEBUG', '__debug__ tests only; else branch survives'), ('C05.DOC', 'docstring kept when the module uses __doc__'),
                 ('C05.EXC', 'brackets dropped only for no-arg calls of un-shadowed builtin exceptions directly in raise'),
                 ('C05.ANN', 'annotation removal by option and scope'), ('C05.RET', 'return None'), ('C05.OBJ', 'object base'), ('C05.IMP', 'import merging'), ('C05.POS', 'positional-only markers')]:
        rep.rule(r, t)
    from . import transform_e2e
    gate(model, rep)
    transform_e2e.run(model, rep)
    transform_e2e.ann(model, rep)


# ---------------------------------------------------------------------- GATE / EFF
def gate(model, rep):
    from .. import apirun
    from ..callgraph import CallGraph, Effects
    mi = model.func('python_minifier.minify')
    cg_ = CallGraph(model)
    E_ = Effects(model, cg_)
    r_all = apirun.run(model, kwargs={p: True for p in mi.params if p not in ('source', 'filename', 'preserve_locals', 'preserve_globals')})
    if r_all.outcome[0] != 'return':
        raise AnalysisError('UNDECIDED: minify() with every option on -> %s' % (r_all.outcome,))
    ran = list(dict.fromkeys(r_all.names()))
    rep.count('stages', ran)
    quals = {q.rsplit('.', 1)[1]: (kind, q) for q, (kind, _q) in apirun.package_callables(model).items()}
    for name in ran:
        if name in ('unparse', '_find_shebang') or name not in quals:
            continue
        kind, q = quals[name]
        if kind == 'stage':
            S = E_.summary(model.method(q, '__call__'), q)
            init = model.method(q, '__init__')
            if init is not None:
                S.merge(E_.summary(init, q))
        else:
            S = E_.summary(model.funcs[q], None)
        rewrites = bool(S.asdl or S.builds)
        where = model.funcs[q].loc() if q in model.funcs else model.classes[q].path
        if name in ANNOTATION_ONLY:
            rep.check(not rewrites, 'C05.EFF', where, name, 'writes annotations only (%s)' % sorted(S.ann_w)[:6],
                      'unconditional stage %s rewrites the tree (stores %s, builds %s): a rewrite happens with every option off' % (name, sorted(S.asdl)[:5], sorted(S.builds)[:5]), key='C05.EFF|' + name)
            continue
        if name in DATA_GATED:
            continue
        if name not in OPTION_OF_STAGE and rewrites:
            rep.violation('C05.GATE', where, name, 'tree-rewriting stage %s is not switched by any documented option' % name, key='C05.GATE|' + name)
    options = [p for p in mi.params if p not in ('source', 'filename', 'preserve_locals', 'preserve_globals')]
    all_off = {p: False for p in options}
    neutral = ANNOTATION_ONLY | DATA_GATED | {'unparse', '_find_shebang'}
    known = set(OPTION_OF_STAGE)

    def switched(kw):
        r = apirun.run(model, kwargs=kw)
        if r.outcome[0] != 'return':
            raise AnalysisError('UNDECIDED: minify(%s) -> %s' % (kw, r.outcome))
        return r, [n for n in r.names() if n not in neutral]
    r0, base_off = switched(all_off)
    rep.check(not base_off, 'C05.GATE', mi.loc(), 'every option off', 'no rewriting stage runs (%s)' % r0.names(), 'with every option off the stages %s still run' % base_off, key='C05.GATE|all-off')
    stage_of = {v: k for k, v in OPTION_OF_STAGE.items()}
    for opt in options:
        want = [stage_of[opt]] if opt in stage_of else []
        _r, got = switched(dict(all_off, **{opt: True}))
        rep.check(got == want, 'C05.GATE', mi.loc(), 'only %s on -> %s' % (opt, got), 'exactly its own stage' if want else 'no rewriting stage of its own (it parameterises the renamer / the printer)',
                  'with only %s on the rewriting stages that run are %s, expected %s' % (opt, got, want), key='C05.GATE|on|' + opt)
    defaults = {}
    _r, base_on = switched({})
    for opt in options:
        d = mi.defaults().get(opt)
        cur = d.value if isinstance(d, ast.Constant) else True
        if not isinstance(cur, bool):
            continue
        _r, got = switched({opt: not cur})
        st_name = stage_of.get(opt)
        want = [n for n in base_on if n != st_name] if cur else (sorted(base_on + [st_name], key=lambda n: n) if st_name else base_on)
        ok = sorted(got) == sorted(want)
        rep.check(ok, 'C05.GATE', mi.loc(), 'defaults with %s=%s -> %d stages' % (opt, not cur, len(got)), 'differs from the default run by exactly its own stage',
                  'flipping %s to %s changes the set of rewriting stages from %s to %s' % (opt, not cur, sorted(base_on), sorted(got)), key='C05.GATE|flip|' + opt)
    # the annotation options object: every field off -> the stage does not run; any field on -> it runs
    from ..absint import Obj as _Obj
    for bits in ((False, False, False, False), (True, False, False, False), (False, False, False, True)):
        o = _Obj('RemoveAnnotationsOptions', remove_variable_annotations=bits[0], remove_return_annotations=bits[1], remove_argument_annotations=bits[2], remove_class_attribute_annotations=bits[3])
        o.qual = 'python_minifier.transforms.remove_annotations_options.RemoveAnnotationsOptions'
        _r, got = switched(dict(all_off, remove_annotations=o))
        want = ['RemoveAnnotations'] if any(bits) else []
        rep.check(got == want, 'C05.GATE', mi.loc(), 'remove_annotations=Options%s -> %s' % (bits, got), 'stage runs iff some field is on',
                  'with an options object %s the rewriting stages are %s, expected %s' % (bits, got, want), key='C05.GATE|options|%s' % (bits,))
    unknown = [n for n in base_on if n not in known]
    rep.check(not unknown, 'C05.GATE', mi.loc(), 'stages of the default run', 'all belong to a documented option', 'stages %s run by default but belong to no documented option' % unknown, key='C05.GATE|unknown')
    rep.floor('C05.GATE', 30)
    rep.floor('C05.EFF', 6)
