"""C05 - each option performs only its documented rewrite, only where it is valid."""
import ast
import builtins
import itertools

from ..absint import Interp, Obj, TOP, ClassRef, _Raise
from ..absnodes import Attr, Call, Compare, Const, Expr, Name, children, set_parents, std_hooks, walk
from ..astutil import calls, kwarg, literal, local_defs
from ..facts import Facts, fact_texts
from ..model import AnalysisError, src, walk_own
from ..oracles import asdl
from ..pipeline import Pipeline

T = 'python_minifier.transforms.'
ST = T + 'suite_transformer.SuiteTransformer'

# documented meaning of each option: which stage it switches (docs/source/transforms/<option>.rst); hand-written, printed in the evidence
OPTION_OF_STAGE = {
    'RemoveLiteralStatements': 'remove_literal_statements', 'CombineImports': 'combine_imports', 'RemoveAnnotations': 'remove_annotations',
    'RemovePass': 'remove_pass', 'RemoveObject': 'remove_object_base', 'RemoveAsserts': 'remove_asserts', 'RemoveDebug': 'remove_debug',
    'RemoveExplicitReturnNone': 'remove_explicit_return_none', 'FoldConstants': 'constant_folding',
    'remove_no_arg_exception_call': 'remove_builtin_exception_brackets', 'rename_literals': 'hoist_literals', 'remove_posargs': 'convert_posargs_to_args',
}
DATA_GATED = {'rename'}          # runs always; every binding is pinned when both rename switches are off (C04.GLOB / C09.GATE / C10)
ANNOTATION_ONLY = {'add_parent', 'add_namespace', 'bind_names', 'resolve_names', 'allow_rename_locals', 'allow_rename_globals'}
FILTERING = {'RemovePass': T + 'remove_pass.RemovePass', 'RemoveAsserts': T + 'remove_asserts.RemoveAsserts', 'RemoveDebug': T + 'remove_debug.RemoveDebug',
             'RemoveLiteralStatements': T + 'remove_literal_statements.RemoveLiteralStatements'}


def hooks_for_transform(record=None):
    h = std_hooks()
    h['self.add_child'] = lambda I, e, args, kw, env: (args[0].attrs.__setitem__('_parent', kw.get('parent', args[1] if len(args) > 1 else None)), args[0])[1] if isinstance(args[0], Obj) else TOP
    return h


def mk_node(cls, depth=0):
    """A generic descriptor of an ASDL class with every field present."""
    c = asdl()[cls]
    o = Obj(cls)
    for (f, t, q) in c.fields:
        if q == '*':
            if t == 'stmt':
                o.attrs[f] = [Obj('Break')]
            elif t == 'match_case':
                o.attrs[f] = [mk_node('match_case')] if depth < 2 else []
            elif t == 'excepthandler':
                o.attrs[f] = [mk_node('ExceptHandler', depth + 1)] if depth < 2 else []
            else:
                o.attrs[f] = []
        elif q == '?':
            o.attrs[f] = None
        elif t == 'identifier':
            o.attrs[f] = 'x'
        elif t == 'int':
            o.attrs[f] = 0
        elif t == 'expr':
            o.attrs[f] = Name('e')
        elif t == 'arguments':
            o.attrs[f] = Obj('arguments', posonlyargs=[], args=[], vararg=None, kwonlyargs=[], kw_defaults=[], kwarg=None, defaults=[])
        elif t == 'pattern':
            o.attrs[f] = Obj('MatchAs', pattern=None, name=None)
        else:
            o.attrs[f] = Obj(t)
    return o


def run(model, rep):
    rep.explanation = ('(GATE) every call in minify() to a stage whose effect summary rewrites the tree is reachable only under the truthiness fact of its own option; the '
                       'unconditional stages only write annotations. (SUITE2) for each of the four filtering transformers and each statement-list field of the ASDL the '
                       'transformer is abstractly run on a descriptor of that class: the list must be handed to suite(). (SUITE1/FILTER) each suite() override is '
                       'abstractly run on statement lists: it removes exactly the documented kind, keeps the order, never returns an empty list for a non-module parent. '
                       '(DEBUG) RemoveDebug is run on every shape of if-test and on an if with an else branch; (DOC) RemoveLiteralStatements on a module that names __doc__; '
                       '(EXC) the bracket removal on every position of a builtin name (call in raise, call with arguments, call elsewhere, redefined builtin, non-exception); '
                       '(ANN/SCOPE) RemoveAnnotations on every combination of option set x scope (class, dataclass forms, NamedTuple/TypedDict, function, module) x nesting '
                       '(direct, under if/for/while/with/try) x value/no value; (RET/OBJ/IMP/POS) the remaining rewrites on their input shapes. '
                       'Not decided: bisimilarity of compiled code; interaction of two transforms on one node.')
    for r, t in [('C05.GATE', 'rewriting stage reachable only under its own option'), ('C05.EFF', 'unconditional stages are annotation-only'),
                 ('C05.SUITE1', 'suite() overrides: exact kind removed, order kept, never empty for non-module parents'),
                 ('C05.SUITE2', 'every statement-list field of the ASDL is routed through suite()'),
                 ('C05.DEBUG', '__debug__ tests only; else branch survives'), ('C05.DOC', 'docstring kept when the module uses __doc__'),
                 ('C05.EXC', 'brackets dropped only for no-arg calls of un-shadowed builtin exceptions directly in raise'),
                 ('C05.ANN', 'annotation removal by option and scope'), ('C05.RET', 'return None'), ('C05.OBJ', 'object base'), ('C05.IMP', 'import merging'), ('C05.POS', 'positional-only markers')]:
        rep.rule(r, t)
    gate(model, rep)
    suite2(model, rep)
    suite1(model, rep)
    debug(model, rep)
    doc(model, rep)
    exc(model, rep)
    ann(model, rep)
    small(model, rep)


# ---------------------------------------------------------------------- GATE / EFF
def gate(model, rep):
    from .. import apirun
    from ..callgraph import CallGraph, Effects
    mi = model.func('python_minifier.minify')
    cg_ = CallGraph(model)
    E_ = Effects(model, cg_)
    r_all = apirun.run(model, kwargs={p: True for p in mi.params if p not in ('source', 'filename', 'preserve_locals', 'preserve_globals')})
    if r_all.outcome[0] != 'return':
        raise AnalysisError('UNDECIDED: minify() with every option on -> %s' % (r_all.outcome,))
    ran = list(dict.fromkeys(r_all.names()))
    rep.count('stages', ran)
    quals = {q.rsplit('.', 1)[1]: (kind, q) for q, (kind, _q) in apirun.package_callables(model).items()}
    for name in ran:
        if name in ('unparse', '_find_shebang') or name not in quals:
            continue
        kind, q = quals[name]
        if kind == 'stage':
            S = E_.summary(model.method(q, '__call__'), q)
            init = model.method(q, '__init__')
            if init is not None:
                S.merge(E_.summary(init, q))
        else:
            S = E_.summary(model.funcs[q], None)
        rewrites = bool(S.asdl or S.builds)
        where = model.funcs[q].loc() if q in model.funcs else model.classes[q].path
        if name in ANNOTATION_ONLY:
            rep.check(not rewrites, 'C05.EFF', where, name, 'writes annotations only (%s)' % sorted(S.ann_w)[:6],
                      'unconditional stage %s rewrites the tree (stores %s, builds %s): a rewrite happens with every option off' % (name, sorted(S.asdl)[:5], sorted(S.builds)[:5]), key='C05.EFF|' + name)
            continue
        if name in DATA_GATED:
            continue
        if name not in OPTION_OF_STAGE and rewrites:
            rep.violation('C05.GATE', where, name, 'tree-rewriting stage %s is not switched by any documented option' % name, key='C05.GATE|' + name)
    options = [p for p in mi.params if p not in ('source', 'filename', 'preserve_locals', 'preserve_globals')]
    all_off = {p: False for p in options}
    neutral = ANNOTATION_ONLY | DATA_GATED | {'unparse', '_find_shebang'}
    known = set(OPTION_OF_STAGE)

    def switched(kw):
        r = apirun.run(model, kwargs=kw)
        if r.outcome[0] != 'return':
            raise AnalysisError('UNDECIDED: minify(%s) -> %s' % (kw, r.outcome))
        return r, [n for n in r.names() if n not in neutral]
    r0, base_off = switched(all_off)
    rep.check(not base_off, 'C05.GATE', mi.loc(), 'every option off', 'no rewriting stage runs (%s)' % r0.names(), 'with every option off the stages %s still run' % base_off, key='C05.GATE|all-off')
    stage_of = {v: k for k, v in OPTION_OF_STAGE.items()}
    for opt in options:
        want = [stage_of[opt]] if opt in stage_of else []
        _r, got = switched(dict(all_off, **{opt: True}))
        rep.check(got == want, 'C05.GATE', mi.loc(), 'only %s on -> %s' % (opt, got), 'exactly its own stage' if want else 'no rewriting stage of its own (it parameterises the renamer / the printer)',
                  'with only %s on the rewriting stages that run are %s, expected %s' % (opt, got, want), key='C05.GATE|on|' + opt)
    defaults = {}
    _r, base_on = switched({})
    for opt in options:
        d = mi.defaults().get(opt)
        cur = d.value if isinstance(d, ast.Constant) else True
        if not isinstance(cur, bool):
            continue
        _r, got = switched({opt: not cur})
        st_name = stage_of.get(opt)
        want = [n for n in base_on if n != st_name] if cur else (sorted(base_on + [st_name], key=lambda n: n) if st_name else base_on)
        ok = sorted(got) == sorted(want)
        rep.check(ok, 'C05.GATE', mi.loc(), 'defaults with %s=%s -> %d stages' % (opt, not cur, len(got)), 'differs from the default run by exactly its own stage',
                  'flipping %s to %s changes the set of rewriting stages from %s to %s' % (opt, not cur, sorted(base_on), sorted(got)), key='C05.GATE|flip|' + opt)
    # the annotation options object: every field off -> the stage does not run; any field on -> it runs
    from ..absint import Obj as _Obj
    for bits in ((False, False, False, False), (True, False, False, False), (False, False, False, True)):
        o = _Obj('RemoveAnnotationsOptions', remove_variable_annotations=bits[0], remove_return_annotations=bits[1], remove_argument_annotations=bits[2], remove_class_attribute_annotations=bits[3])
        o.qual = 'python_minifier.transforms.remove_annotations_options.RemoveAnnotationsOptions'
        _r, got = switched(dict(all_off, remove_annotations=o))
        want = ['RemoveAnnotations'] if any(bits) else []
        rep.check(got == want, 'C05.GATE', mi.loc(), 'remove_annotations=Options%s -> %s' % (bits, got), 'stage runs iff some field is on',
                  'with an options object %s the rewriting stages are %s, expected %s' % (bits, got, want), key='C05.GATE|options|%s' % (bits,))
    unknown = [n for n in base_on if n not in known]
    rep.check(not unknown, 'C05.GATE', mi.loc(), 'stages of the default run', 'all belong to a documented option', 'stages %s run by default but belong to no documented option' % unknown, key='C05.GATE|unknown')
    rep.floor('C05.GATE', 30)
    rep.floor('C05.EFF', 6)


# ---------------------------------------------------------------------- SUITE2
def suite2(model, rep):
    pairs = []
    for c in asdl().values():
        if c.name in ('Interactive', 'Match'):
            continue
        for f in c.stmt_list_fields():
            if (c.sort in ('stmt', 'mod', 'excepthandler') or c.name == 'match_case'):
                pairs.append((c.name, f))
    rep.count('stmt_list_fields', len(pairs))
    cells = 0
    for tname, tq in sorted(FILTERING.items()):
        for (cls, field) in sorted(pairs):
            node = mk_node(cls)
            if cls == 'Module':
                node.attrs['bindings'] = []
            seen = []
            hooks = hooks_for_transform()
            hooks['self.suite'] = lambda I, e, args, kw, env: (seen.append(args[0]), args[0])[1]
            hooks['_doc_in_module'] = lambda I, e, args, kw, env: False
            I = Interp(model, tq.rsplit('.', 1)[0], hooks)
            so = Obj(tname)
            res = I.explore(lambda: I.call_method(tq, 'visit', so, [node]))
            cells += 1
            for (o, ev, unk) in res:
                if o[0] not in ('return',):
                    raise AnalysisError('UNDECIDED: %s.visit(<%s>) -> %s %s' % (tname, cls, o, unk[:3]))
            routed = any(l is node.attrs[field] for l in seen)
            rep.check(routed, 'C05.SUITE2', model.cls(ST).path, '%s: %s.%s' % (tname, cls, field), 'handed to suite()',
                      '%s statements in %s.%s are never filtered: the list is not routed through suite() (falls through to generic traversal)' % (tname, cls, field),
                      key='C05.SUITE2|%s.%s' % (cls, field) if tname == 'RemovePass' else 'C05.SUITE2|%s|%s.%s' % (tname, cls, field))
    rep.floor('C05.SUITE2', 4 * 20)


# ---------------------------------------------------------------------- SUITE1 / FILTER
def stmt_exemplars():
    return {
        'Pass': lambda: Obj('Pass'),
        'Assert': lambda: Obj('Assert', test=Name('x'), msg=None),
        'ExprStr': lambda: Expr(Const('doc')),
        'ExprNum': lambda: Expr(Const(1)),
        'ExprBytes': lambda: Expr(Const(b'b')),
        'ExprNone': lambda: Expr(Const(None)),
        'ExprName': lambda: Expr(Name('x')),
        'ExprCall': lambda: Expr(Call(Name('f'))),
        'IfDebug': lambda: Obj('If', test=Name('__debug__'), body=[Obj('Break')], orelse=[]),
        'IfOther': lambda: Obj('If', test=Name('x'), body=[Obj('Break')], orelse=[]),
        'Assign': lambda: Obj('Assign', targets=[Name('a', 'Store')], value=Name('b')),
        'Return': lambda: Obj('Return', value=None),
    }


DOCUMENTED_REMOVALS = {'RemovePass': {'Pass'}, 'RemoveAsserts': {'Assert'}, 'RemoveLiteralStatements': {'ExprStr', 'ExprNum', 'ExprBytes', 'ExprNone'}, 'RemoveDebug': {'IfDebug'}}


def suite1(model, rep):
    ex = stmt_exemplars()
    cells = 0
    for tname, tq in sorted(FILTERING.items()):
        fi = model.method(tq, 'suite')
        removed_ok = True
        problems = []
        for parent_cls in ('Module', 'FunctionDef', 'If', 'ExceptHandler', 'ClassDef'):
            for n in (1, 2):
                for combo in itertools.product(sorted(ex), repeat=n):
                    stmts = [ex[k]() for k in combo]
                    parent = Obj(parent_cls, body=stmts)
                    hooks = hooks_for_transform()
                    hooks['self.visit'] = lambda I, e, args, kw, env: args[0]
                    I = Interp(model, tq.rsplit('.', 1)[0], hooks)
                    so = Obj(tname)
                    res = I.explore(lambda: I.call_method(tq, 'suite', so, [stmts, parent]))
                    cells += 1
                    for (o, ev, unk) in res:
                        if o[0] != 'return' or o[1] is TOP:
                            raise AnalysisError('UNDECIDED: %s.suite(%s, <%s>) -> %s %s' % (tname, list(combo), parent_cls, o, unk[:3]))
                        out = o[1]
                        keep = [s for s, k in zip(stmts, combo) if k not in DOCUMENTED_REMOVALS[tname]]
                        if keep:
                            want_ok = len(out) == len(keep) and all(a is b for a, b in zip(out, keep))
                            if not want_ok:
                                problems.append('%s in <%s>: result keeps %s' % (list(combo), parent_cls, [combo[stmts.index(x)] if x in stmts else getattr(x, 'cls', x) for x in out]))
                        elif parent_cls == 'Module':
                            if out != []:
                                problems.append('%s in <Module>: expected an empty body, got %d statements' % (list(combo), len(out)))
                        else:
                            placeholder = len(out) == 1 and isinstance(out[0], Obj) and out[0].cls == 'Expr' and isinstance(out[0].attrs.get('value'), Obj) and \
                                out[0].attrs['value'].cls == 'Constant' and out[0].attrs['value'].attrs.get('value') == 0 and type(out[0].attrs['value'].attrs.get('value')) is int
                            if not placeholder:
                                problems.append('%s in <%s>: an emptied block must become the single statement `0`, got %s' % (list(combo), parent_cls, [getattr(x, 'cls', x) for x in out]))
        if problems:
            rep.violation('C05.SUITE1', fi.loc(), '%s.suite' % tname, '; '.join(problems[:3]) + (' (+%d more)' % (len(problems) - 3) if len(problems) > 3 else ''), key='C05.SUITE1|' + tname)
        else:
            rep.ok('C05.SUITE1', fi.loc(), '%s.suite' % tname, 'removes exactly %s; order kept; emptied blocks become `0` (module: empty)' % sorted(DOCUMENTED_REMOVALS[tname]), key='C05.SUITE1|' + tname)
    rep.count('suite_cells', cells)
    rep.floor('C05.SUITE1', 4)


# ---------------------------------------------------------------------- DEBUG
def debug(model, rep):
    tq = FILTERING['RemoveDebug']
    fi = model.method(tq, 'can_remove')
    T_, F_, N_ = Const(True), Const(False), Const(None)
    tests = {
        '__debug__': (Name('__debug__'), True),
        '__debug__ is True': (Compare(Name('__debug__'), 'Is', Const(True)), True),
        '__debug__ is not False': (Compare(Name('__debug__'), 'IsNot', Const(False)), True),
        '__debug__ == True': (Compare(Name('__debug__'), 'Eq', Const(True)), True),
        'x': (Name('x'), False),
        'x is True': (Compare(Name('x'), 'Is', Const(True)), False),
        'x is not False': (Compare(Name('x'), 'IsNot', Const(False)), False),
        'x == True': (Compare(Name('x'), 'Eq', Const(True)), False),
        'f() is True': (Compare(Call(Name('f')), 'Is', Const(True)), False),
        '__debug__ is False': (Compare(Name('__debug__'), 'Is', Const(False)), False),
        '__debug__ is not True': (Compare(Name('__debug__'), 'IsNot', Const(True)), False),
        '__debug__ == False': (Compare(Name('__debug__'), 'Eq', Const(False)), False),
        '__debug__ is None': (Compare(Name('__debug__'), 'Is', Const(None)), False),
        '__debug__ is 1': (Compare(Name('__debug__'), 'Is', Const(1)), False),
        '__debug__ == 1': (Compare(Name('__debug__'), 'Eq', Const(1)), False),
        '__debug__ != True': (Compare(Name('__debug__'), 'NotEq', Const(True)), False),
        'not __debug__': (Obj('UnaryOp', op=Obj('Not'), operand=Name('__debug__')), False),
        'x.__debug__': (Attr(Name('x'), '__debug__'), False),
        '__debug__ and x': (Obj('BoolOp', op=Obj('And'), values=[Name('__debug__'), Name('x')]), False),
        '__debug__ is True is x': (Obj('Compare', left=Name('__debug__'), ops=[Obj('Is'), Obj('Is')], comparators=[Const(True), Name('x')]), False),
    }
    for label, (test, want) in sorted(tests.items()):
        node = Obj('If', test=test, body=[Obj('Break')], orelse=[])
        I = Interp(model, tq.rsplit('.', 1)[0], hooks_for_transform())
        so = Obj('RemoveDebug')
        res = I.explore(lambda: I.call_method(tq, 'can_remove', so, [node]))
        outs = set()
        for (o, ev, unk) in res:
            if o[0] == 'raise' and not want:
                outs.add(False)  # an AttributeError on an unexpected shape would crash minify; reported below
                outs.add('raises ' + o[1])
            elif o[0] != 'return' or o[1] is TOP:
                raise AnalysisError('UNDECIDED: can_remove(if %s) -> %s %s' % (label, o, unk[:3]))
            else:
                outs.add(bool(o[1]))
        got = outs - {False} if want else outs
        ok = outs == {want}
        rep.check(ok, 'C05.DEBUG', fi.loc(), 'if %s: -> removable=%s' % (label, sorted(map(str, outs))), 'as documented',
                  '`if %s:` is %s; only tests of __debug__ being true may be removed (the interpreter\'s -O mode keeps every other block)' % (label, 'removed' if True in outs else 'not removed' if want else 'mishandled: %s' % sorted(map(str, outs))),
                  key='C05.DEBUG|test|' + label)
    non_if = Obj('While', test=Name('__debug__'), body=[], orelse=[])
    I = Interp(model, tq.rsplit('.', 1)[0], hooks_for_transform())
    res = I.explore(lambda: I.call_method(tq, 'can_remove', Obj('RemoveDebug'), [non_if]))
    rep.check(all(o[0] == 'return' and o[1] is False for (o, _e, _u) in res), 'C05.DEBUG', fi.loc(), 'while __debug__: -> not removable', 'only if-statements', 'a non-if statement testing __debug__ is removed', key='C05.DEBUG|while')
    # else branch: `if __debug__: A else: B` under -O runs B
    B = Obj('Continue')
    node = Obj('If', test=Name('__debug__'), body=[Obj('Break')], orelse=[B])
    parent = Obj('FunctionDef', body=[node])
    hooks = hooks_for_transform()
    hooks['self.visit'] = lambda I, e, args, kw, env: args[0]
    I = Interp(model, tq.rsplit('.', 1)[0], hooks)
    res = I.explore(lambda: I.call_method(tq, 'suite', Obj('RemoveDebug'), [[node], parent]))
    for (o, ev, unk) in res:
        if o[0] != 'return' or o[1] is TOP:
            raise AnalysisError('UNDECIDED: RemoveDebug.suite(if/else) -> %s %s' % (o, unk[:3]))
        out = o[1]
        survives = any(x is B for x in out) or any(x is node for x in out) or any(isinstance(x, Obj) and any(y is B for y in walk(x)) for x in out)
        rep.check(survives, 'C05.DEBUG', model.method(tq, 'suite').loc(), 'if __debug__: A else: B  ->  %s' % [getattr(x, 'cls', x) for x in out], 'else branch survives',
                  'the else branch of a removed __debug__ test is deleted too, but -O would run it', key='C05.DEBUG|else')
    rep.floor('C05.DEBUG', 20)


# ---------------------------------------------------------------------- DOC
def doc(model, rep):
    tq = FILTERING['RemoveLiteralStatements']
    from .. import apirun
    r_ = apirun.run(model, kwargs={'remove_literal_statements': True})
    names_ = r_.names()
    bound_before = 'RemoveLiteralStatements' in names_ and 'bind_names' in names_ and names_.index('bind_names') < names_.index('RemoveLiteralStatements')
    shapes = {
        'print(__doc__)': lambda: Expr(Call(Name('print'), [Name('__doc__')])),
        'x.__doc__': lambda: Expr(Attr(Name('x'), '__doc__')),
        '__doc__ = __doc__ + "x"': lambda: Obj('Assign', targets=[Name('__doc__', 'Store')], value=Obj('BinOp', left=Name('__doc__'), op=Obj('Add'), right=Const('x'))),
        '__doc__ += "x"': lambda: Obj('AugAssign', target=Name('__doc__', 'Store'), op=Obj('Add'), value=Const('x')),
        'def f(): global __doc__; __doc__ += "x"': lambda: Obj('FunctionDef', name='f', args=Obj('arguments', posonlyargs=[], args=[], vararg=None, kwonlyargs=[], kw_defaults=[], kwarg=None, defaults=[]),
                                                                 body=[Obj('Global', names=['__doc__']), Obj('AugAssign', target=Name('__doc__', 'Store'), op=Obj('Add'), value=Const('x'))], decorator_list=[], returns=None, type_params=[]),
        'del __doc__': lambda: Obj('Delete', targets=[Name('__doc__', 'Del')]),
        'f(x)  (control)': lambda: Expr(Call(Name('f'), [Name('x')])),
    }
    fi = model.method(tq, '__call__')
    for label, mk in shapes.items():
        docstring = Expr(Const('module docstring'))
        other = mk()
        module = Obj('Module', body=[docstring, other], type_ignores=[])
        set_parents(module)
        # the binding table is only populated once bind_names has run (typestate taken from the pipeline order)
        module.attrs['bindings'] = [] if not bound_before else TOP
        I = Interp(model, tq.rsplit('.', 1)[0], hooks_for_transform())
        res = I.explore(lambda: I.call_method(tq, '__call__', Obj('RemoveLiteralStatements'), [module]))
        kept = set()
        for (o, ev, unk) in res:
            if o[0] != 'return':
                raise AnalysisError('UNDECIDED: RemoveLiteralStatements()(module with %s) -> %s %s' % (label, o, unk[:3]))
            kept.add(any(x is docstring for x in module.attrs['body']))
        want = 'control' not in label
        rep.check(kept == {want}, 'C05.DOC', fi.loc(), 'module docstring + `%s` -> docstring %s' % (label, 'kept' if True in kept else 'removed'), 'as documented',
                  'the module docstring is %s although the module %s __doc__' % ('removed' if want else 'kept', 'uses' if want else 'does not use'), key='C05.DOC|' + label)
    rep.floor('C05.DOC', 6)


# ---------------------------------------------------------------------- EXC
def exc(model, rep):
    mod = T + 'remove_exception_brackets'
    rf = model.func(mod + '._remove_empty_call')
    top = model.func(mod + '.remove_no_arg_exception_call')
    # 1. whitelist is a subset of the real exception classes
    consts = model.module_assigns.get(mod, {})
    used = set()
    for n in walk_own(top.node):
        if isinstance(n, ast.Compare) and isinstance(n.ops[0], ast.In):
            for c in n.comparators:
                for x in ast.walk(c):
                    if isinstance(x, ast.Name) and x.id in consts:
                        used.add(x.id)
    names = []
    for u in sorted(used):
        try:
            names += list(literal(consts[u], consts))
        except ValueError:
            raise AnalysisError('exception whitelist %s is not a literal list' % u)
    if not names:
        raise AnalysisError('exception whitelist not found in remove_no_arg_exception_call')
    bad = [n for n in names if hasattr(builtins, n) and not (isinstance(getattr(builtins, n), type) and issubclass(getattr(builtins, n), BaseException))]
    rep.check(not bad, 'C05.EXC', top.loc(), 'whitelist of %d names (%s)' % (len(names), ','.join(sorted(used))), 'every name that exists in builtins is an exception class',
              'whitelist contains builtins that are not exception classes: %s (raise X and raise X() differ for them)' % bad, key='C05.EXC|whitelist')
    # 2. which bindings are processed
    processed = []
    hooks = hooks_for_transform()
    hooks['_remove_empty_call'] = lambda I, e, args, kw, env: processed.append(args[0])
    hooks['.is_redefined'] = lambda I, e, args, kw, env: I.last_recv.attrs.get('_redefined', False)
    b_ok = Obj('BuiltinBinding', name=names[0], _redefined=False)
    b_redef = Obj('BuiltinBinding', name=names[0], _redefined=True)
    b_name = Obj('NameBinding', name=names[0], _redefined=False)
    b_notexc = Obj('BuiltinBinding', name='print', _redefined=False)
    b_notexc2 = Obj('BuiltinBinding', name='NotImplemented', _redefined=False)
    module = Obj('Module', bindings=[b_redef, b_name, b_notexc, b_ok, b_notexc2])
    I = Interp(model, mod, hooks, version=(3, 12, 0))
    res = I.explore(lambda: I.call_function(top.qual, [module]))
    if any(o[0] != 'return' for (o, _e, _u) in res):
        raise AnalysisError('UNDECIDED: remove_no_arg_exception_call -> %s' % [r[0] for r in res])
    rep.check(len(processed) == 1 and processed[0] is b_ok, 'C05.EXC', top.loc(), 'bindings processed: %s' % [(b.cls, b.attrs['name'], b.attrs['_redefined']) for b in processed],
              'only the un-shadowed builtin exception', 'brackets are removed for %s' % [(b.cls, b.attrs['name'], 'redefined' if b.attrs['_redefined'] else '') for b in processed if b is not b_ok] if processed else 'nothing is processed',
              key='C05.EXC|bindings')
    # is_redefined itself
    ir = model.method('python_minifier.rename.binding.BuiltinBinding', 'is_redefined')
    for label, refs, want in (('loads only', [Name('E'), Name('E')], False), ('a store', [Name('E'), Name('E', 'Store')], True), ('a def', [Name('E'), Obj('FunctionDef', name='E')], True),
                              ('a del', [Name('E', 'Del')], True)):
        so = Obj('BuiltinBinding', _references=refs)
        so.attrs['references'] = refs
        I = Interp(model, 'python_minifier.rename.binding', {})
        r2 = I.explore(lambda: I.call_method('python_minifier.rename.binding.BuiltinBinding', 'is_redefined', so, []))
        vals = {o[1] for (o, _e, _u) in r2 if o[0] == 'return'}
        rep.check(vals == {want}, 'C05.EXC', ir.loc(), 'is_redefined with %s -> %s' % (label, sorted(map(str, vals))), 'as required', 'is_redefined() is %s for a builtin name with %s' % (sorted(map(str, vals)), label), key='C05.EXC|redefined|' + label)
    # 3. positions
    def case(label, build, want_rewritten):
        name = Name('ValueError')
        root, call_node, raise_node = build(name)
        set_parents(root)
        before = (raise_node.attrs.get('exc'), raise_node.attrs.get('cause')) if raise_node is not None else None
        b = Obj('BuiltinBinding', _references=[name], name='ValueError')
        b.attrs['references'] = [name]
        I = Interp(model, mod, hooks_for_transform())
        r3 = I.explore(lambda: I.call_function(rf.qual, [b]))
        if any(o[0] != 'return' for (o, _e, _u) in r3):
            raise AnalysisError('UNDECIDED: _remove_empty_call(%s) -> %s' % (label, [r[0] for r in r3]))
        rewritten = raise_node is not None and (raise_node.attrs.get('exc'), raise_node.attrs.get('cause')) != before
        untouched = all(not (isinstance(v, Obj) and v is name) or k == 'func' for n_ in walk(root) for k, v in n_.attrs.items() if k not in ('_parent',)) if not want_rewritten else True
        rep.check(rewritten == want_rewritten, 'C05.EXC', rf.loc(), '%s -> %s' % (label, 'brackets removed' if rewritten else 'unchanged'), 'as documented',
                  '%s: brackets %s' % (label, 'are removed although the call is not a plain no-argument raise of the exception' if rewritten else 'are not removed'), key='C05.EXC|pos|' + label)

    def raise_exc(name):
        c = Call(name)
        r = Obj('Raise', exc=c, cause=None)
        return r, c, r

    def raise_cause(name):
        c = Call(name)
        r = Obj('Raise', exc=Name('e'), cause=c)
        return r, c, r

    def raise_args(name):
        c = Call(name, [Const('msg')])
        r = Obj('Raise', exc=c, cause=None)
        return r, c, r

    def raise_kw(name):
        c = Call(name, [], [Obj('keyword', arg='x', value=Const(1))])
        r = Obj('Raise', exc=c, cause=None)
        return r, c, r

    def expr_call(name):
        c = Call(name)
        e = Expr(c)
        return e, c, None

    def raise_name(name):
        r = Obj('Raise', exc=name, cause=None)
        return r, None, r

    def raise_arg_of_call(name):
        c = Call(Name('wrap'), [Call(name)])
        r = Obj('Raise', exc=c, cause=None)
        return r, c, r

    def raise_attr_call(name):
        c = Call(Attr(name, 'with_traceback'))
        r = Obj('Raise', exc=c, cause=None)
        return r, c, r
    case('raise ValueError()', raise_exc, True)
    case('raise e from ValueError()', raise_cause, True)
    case("raise ValueError('msg')", raise_args, False)
    case('raise ValueError(x=1)', raise_kw, False)
    case('ValueError()  (not raised)', expr_call, False)
    case('raise ValueError', raise_name, False)
    case('raise wrap(ValueError())', raise_arg_of_call, False)
    case('raise ValueError.with_traceback()', raise_attr_call, False)
    rep.floor('C05.EXC', 14)


# ---------------------------------------------------------------------- ANN / SCOPE
def ann(model, rep):
    tq = T + 'remove_annotations.RemoveAnnotations'
    mod = tq.rsplit('.', 1)[0]
    va = model.method(tq, 'visit_AnnAssign')
    cells = 0
    problems = {}

    # The whole transformer is run (mapper first, then RemoveAnnotations(options)(module)) on a probe module per cell; the statement carrying the
    # marker name is then classified. Nothing about the transformer's internals (attribute names, visit methods, caches per class) is assumed.
    from .c03 import to_obj as to_marked_obj, MAPPER
    OPTS = T + 'remove_annotations_options.RemoveAnnotationsOptions'
    HEADS = {
        'class': ('class C:', True, False), 'dataclass': ('@dataclass\nclass C:', True, True), 'dataclasses.dataclass': ('@dataclasses.dataclass\nclass C:', True, True),
        'dataclass()': ('@dataclass(frozen=True)\nclass C:', True, True), 'dataclasses.dataclass()': ('@dataclasses.dataclass()\nclass C:', True, True),
        'NamedTuple': ('class C(NamedTuple):', True, True), 'typing.NamedTuple': ('class C(typing.NamedTuple):', True, True), 'TypedDict': ('class C(TypedDict):', True, True),
        'function': ('def f():', False, False), 'module': (None, False, False),
        # scopes around or before the statement that must not change how it is treated
        'dataclass, after an inner class': ('@dataclass\nclass C:\n    class Inner(Enum):\n        A = 1', True, True),
        'NamedTuple, after a method with a local class': ('class C(NamedTuple):\n    def m(self):\n        class L: pass\n        return L', True, True),
        'plain class inside a dataclass': ('@dataclass\nclass Outer:\n    class C:', True, False),
        'dataclass inside a plain class': ('class Outer:\n    @dataclass\n    class C:', True, True),
        'function inside a dataclass': ('@dataclass\nclass Outer:\n    def f(self):', False, False),
    }
    NESTS = {'direct': '{S}', 'if': 'if t:\n    {S}', 'for': 'for i in it:\n    {S}', 'while': 'while t:\n    {S}', 'with': 'with w:\n    {S}', 'try': 'try:\n    {S}\nfinally:\n    pass',
             'else': 'if t:\n    pass\nelse:\n    {S}'}

    def sibling_depth(head):
        # for heads that end with a finished inner block, the probe statement belongs to class C: one level inside the `class C` line
        for l in head.split('\n'):
            if l.lstrip().startswith('class C'):
                return (len(l) - len(l.lstrip())) + 4
        return 4

    def run_cell(source, rv, rc):
        tree = ast.parse(source)
        markers = {}
        mod_obj = to_marked_obj(tree, markers)
        set_parents(mod_obj)
        I = Interp(model, mod, hooks_for_transform(), version=(3, 12, 0), max_depth=400)
        I.MAX_PATHS = 8

        def thunk():
            I.call_function(MAPPER + '.add_namespace', [mod_obj])
            opts = I.construct(ClassRef('RemoveAnnotationsOptions', OPTS), [], dict(remove_variable_annotations=rv, remove_return_annotations=False, remove_argument_annotations=False,
                                                                                   remove_class_attribute_annotations=rc))
            t = I.construct(ClassRef('RemoveAnnotations', tq), [opts], {})
            return I.call_method(tq, '__call__', t, [mod_obj])
        res = I.explore(thunk)
        if len(res) != 1 or res[0][0][0] != 'return':
            raise AnalysisError('UNDECIDED: RemoveAnnotations on %r -> %s %s' % (source[:60], [r[0] for r in res][:2], res[0][2][:3]))
        out = res[0][0][1] if isinstance(res[0][0][1], Obj) else mod_obj
        for o in walk(out):
            if o.cls == 'AnnAssign' and isinstance(o.attrs.get('target'), Obj) and o.attrs['target'].attrs.get('id') == 'm_x':
                a = o.attrs.get('annotation')
                if isinstance(a, Obj) and a.cls == 'Name' and a.attrs.get('id') == 'int':
                    return 'kept'
                if isinstance(a, Obj) and a.cls == 'Constant' and a.attrs.get('value') == 0:
                    return 'zero'
                return 'other annotation %r' % (a,)
            if o.cls == 'Assign' and any(isinstance(t_, Obj) and t_.attrs.get('id') == 'm_x' for t_ in o.attrs.get('targets', [])):
                return 'assign'
        return 'removed'

    for scope_kind in sorted(HEADS):
        head, is_class, protected = HEADS[scope_kind]
        for nest in ('direct', 'if', 'for', 'while', 'with', 'try', 'else'):
            if ' ' in scope_kind and nest not in ('direct', 'if'):
                continue
            for has_value in (True, False):
                stmt = 'm_x: int = 1' if has_value else 'm_x: int'
                body = NESTS[nest].replace('{S}', stmt)
                if head is None:
                    source = body + '\n'
                else:
                    last = head.split('\n')[-1]
                    depth = (len(last) - len(last.lstrip())) + 4 if last.rstrip().endswith(':') and not (scope_kind.startswith('dataclass, after') or scope_kind.startswith('NamedTuple, after')) else sibling_depth(head)
                    source = head + '\n' + '\n'.join(' ' * depth + l for l in body.split('\n')) + '\n'
                for rv in (True, False):
                    for rc in (True, False):
                        got = run_cell(source, rv, rc)
                        cells += 1
                        selected = rc if is_class else rv
                        if not selected or protected:
                            want = 'kept'
                        elif has_value:
                            want = 'assign'
                        else:
                            want = 'zero'
                        if got != want:
                            problems.setdefault((scope_kind, nest), []).append('value=%s var_opt=%s class_opt=%s: %s, expected %s' % (has_value, rv, rc, got, want))
    rep.count('annassign_cells', cells)
    by_nest = {}
    for (scope_kind, nest), ps in problems.items():
        by_nest.setdefault(('nested' if nest != 'direct' else 'direct', scope_kind), []).append((nest, ps))
    if problems:
        for (kind, scope_kind), items in sorted(by_nest.items()):
            nests = sorted(n for n, _ in items)
            rep.violation('C05.ANN', va.loc(), 'annotated assignment %s in a %s body%s' % (kind, scope_kind, ' (under %s)' % '/'.join(nests) if kind == 'nested' else ''),
                          '%s' % items[0][1][0] + ' -- what happens to an annotated assignment must depend only on the options and on the class/function/module it belongs to (fields of dataclass / NamedTuple / TypedDict classes are never touched)',
                          key='C05.ANN|%s|%s' % (kind, scope_kind))
    else:
        rep.ok('C05.ANN', va.loc(), 'visit_AnnAssign on %d (scope x nesting x value x options) cells' % cells, 'kept / assignment / `x: 0` exactly as documented', cells=cells, key='C05.ANN|annassign')
    # arguments and returns
    for opt_name, want_removed in (('remove_argument_annotations', True), ('remove_argument_annotations', False)):
        a = Obj('arg', arg='p', annotation=Name('int'))
        opts = Obj('RemoveAnnotationsOptions', closed=True, remove_variable_annotations=False, remove_return_annotations=not want_removed, remove_argument_annotations=want_removed, remove_class_attribute_annotations=False)
        so = Obj('RemoveAnnotations', _options=opts)
        I = Interp(model, mod, hooks_for_transform(), version=(3, 12, 0))
        res = I.explore(lambda: I.call_method(tq, 'visit_arg', so, [a]))
        removed = a.attrs['annotation'] is None
        rep.check(removed == want_removed, 'C05.ANN', model.method(tq, 'visit_arg').loc(), 'argument annotation with remove_argument_annotations=%s (return option %s) -> %s' % (want_removed, not want_removed, 'removed' if removed else 'kept'),
                  'controlled by its own option', 'argument annotations are %s with remove_argument_annotations=%s' % ('removed' if removed else 'kept', want_removed), key='C05.ANN|arg|%s' % want_removed)
    for want_removed in (True, False):
        args = Obj('arguments', posonlyargs=[Obj('arg', arg='a', annotation=Name('A'))], args=[Obj('arg', arg='b', annotation=Name('B'))], vararg=Obj('arg', arg='v', annotation=Name('V')),
                   kwonlyargs=[Obj('arg', arg='k', annotation=Name('K'))], kw_defaults=[None], kwarg=Obj('arg', arg='kw', annotation=Name('KW')), defaults=[])
        fn = Obj('FunctionDef', name='f', args=args, body=[Obj('Pass')], decorator_list=[], returns=Name('R'), type_params=[])
        opts = Obj('RemoveAnnotationsOptions', closed=True, remove_variable_annotations=False, remove_return_annotations=want_removed, remove_argument_annotations=not want_removed, remove_class_attribute_annotations=False)
        so = Obj('RemoveAnnotations', _options=opts)
        hooks = hooks_for_transform()
        hooks['self.suite'] = lambda I, e, a_, kw, env: a_[0]
        hooks['self.visit'] = lambda I, e, a_, kw, env: a_[0]
        I = Interp(model, mod, hooks, version=(3, 12, 0))
        res = I.explore(lambda: I.call_method(tq, 'visit_FunctionDef', so, [fn]))
        if any(o[0] != 'return' for (o, _e, _u) in res):
            raise AnalysisError('UNDECIDED: RemoveAnnotations.visit_FunctionDef -> %s' % [r[0] for r in res])
        removed = fn.attrs['returns'] is None
        rep.check(removed == want_removed, 'C05.ANN', model.method(tq, 'visit_FunctionDef').loc(), 'return annotation with remove_return_annotations=%s -> %s' % (want_removed, 'removed' if removed else 'kept'),
                  'controlled by its own option', 'return annotation is %s with remove_return_annotations=%s' % ('removed' if removed else 'kept', want_removed), key='C05.ANN|returns|%s' % want_removed)
        all_args = args.attrs['posonlyargs'] + args.attrs['args'] + [args.attrs['vararg']] + args.attrs['kwonlyargs'] + [args.attrs['kwarg']]
        arg_removed = {x.attrs['arg']: x.attrs['annotation'] is None for x in all_args}
        want_args = not want_removed
        rep.check(all(v == want_args for v in arg_removed.values()), 'C05.ANN', model.method(tq, 'visit_arguments').loc(), 'all five argument kinds with remove_argument_annotations=%s -> %s' % (want_args, arg_removed),
                  'every kind handled alike', 'argument kinds are treated differently: %s' % arg_removed, key='C05.ANN|argkinds|%s' % want_args)
    rep.floor('C05.ANN', 7)


# ---------------------------------------------------------------------- RET / OBJ / IMP / POS
def small(model, rep):
    # RET
    tq = T + 'remove_explicit_return_none.RemoveExplicitReturnNone'
    mod = tq.rsplit('.', 1)[0]
    vr = model.method(tq, 'visit_Return')
    for label, val, want_none in (('return None', lambda: Const(None), True), ('return 0', lambda: Const(0), False), ('return False', lambda: Const(False), False), ("return ''", lambda: Const(''), False),
                                  ('return x', lambda: Name('x'), False), ('return', lambda: None, True), ('return (None,)', lambda: Obj('Tuple', elts=[Const(None)]), False)):
        v = val()
        node = Obj('Return', value=v)
        I = Interp(model, mod, hooks_for_transform(), version=(3, 12, 0))
        res = I.explore(lambda: I.call_method(tq, 'visit_Return', Obj('RemoveExplicitReturnNone'), [node]))
        if any(o[0] != 'return' for (o, _e, _u) in res):
            raise AnalysisError('UNDECIDED: visit_Return(%s) -> %s' % (label, [r[0] for r in res]))
        got_none = node.attrs['value'] is None
        rep.check(got_none == want_none, 'C05.RET', vr.loc(), '%s -> %s' % (label, 'bare return' if got_none else 'unchanged'), 'only the constant None is dropped',
                  '`%s` is rewritten to a bare return' % label if got_none else '`%s` is not rewritten' % label, key='C05.RET|' + label)
    vf = model.method(tq, 'visit_FunctionDef')
    for label, body, want in (('[x, return]', lambda: [Expr(Name('x')), Obj('Return', value=None)], 1), ('[return]', lambda: [Obj('Return', value=None)], 'zero'),
                              ('[return x]', lambda: [Obj('Return', value=Name('x'))], 1), ('[return, x]', lambda: [Obj('Return', value=None), Expr(Name('x'))], 2),
                              ('[return None]', lambda: [Obj('Return', value=Const(None))], 'zero')):
        b = body()
        fn = Obj('FunctionDef', name='f', body=b, decorator_list=[])
        hooks = hooks_for_transform()
        I = Interp(model, mod, hooks, version=(3, 12, 0))
        res = I.explore(lambda: I.call_method(tq, 'visit_FunctionDef', Obj('RemoveExplicitReturnNone'), [fn]))
        if any(o[0] != 'return' for (o, _e, _u) in res):
            raise AnalysisError('UNDECIDED: RemoveExplicitReturnNone.visit_FunctionDef(%s) -> %s %s' % (label, [r[0] for r in res], res[0][2][:3]))
        out = fn.attrs['body']
        if want == 'zero':
            ok = len(out) == 1 and out[0].cls == 'Expr' and out[0].attrs['value'].cls == 'Constant' and out[0].attrs['value'].attrs['value'] == 0
        else:
            ok = len(out) == want and all(x in b for x in out)
        rep.check(ok, 'C05.RET', vf.loc(), 'function body %s -> %s' % (label, [x.cls for x in out]), 'only a trailing bare return is dropped; emptied body becomes `0`',
                  'function body %s becomes %s' % (label, [x.cls for x in out]), key='C05.RET|body|' + label)
    rep.floor('C05.RET', 12)

    # OBJ
    tq = T + 'remove_object_base.RemoveObject'
    mod = tq.rsplit('.', 1)[0]
    vc = model.method(tq, 'visit_ClassDef')
    o1, foo, attr = Name('object'), Name('Foo'), Attr(Name('builtins'), 'object')
    kwv = Name('object')
    cls = Obj('ClassDef', name='C', bases=[o1, foo, attr], keywords=[Obj('keyword', arg='metaclass', value=kwv)], body=[Obj('Pass')], decorator_list=[Name('object')], type_params=[])
    hooks = hooks_for_transform()
    hooks['self.visit'] = lambda I, e, a_, kw, env: a_[0]
    I = Interp(model, mod, hooks, version=(3, 12, 0))
    res = I.explore(lambda: I.call_method(tq, 'visit_ClassDef', Obj('RemoveObject'), [cls]))
    if any(o[0] != 'return' for (o, _e, _u) in res):
        raise AnalysisError('UNDECIDED: RemoveObject.visit_ClassDef -> %s' % [r[0] for r in res])
    bases = cls.attrs['bases']
    ok = len(bases) == 2 and bases[0] is foo and bases[1] is attr and cls.attrs['keywords'][0].attrs['value'] is kwv and len(cls.attrs['decorator_list']) == 1
    rep.check(ok, 'C05.OBJ', vc.loc(), 'class C(object, Foo, builtins.object, metaclass=object) -> bases %s' % [src_of(b) for b in bases], 'only the plain name object is dropped, only from the bases',
              'base list becomes %s / keywords or decorators touched' % [src_of(b) for b in bases], key='C05.OBJ|bases')
    rep.floor('C05.OBJ', 1)

    # IMP
    tq = T + 'combine_imports.CombineImports'
    mod = tq.rsplit('.', 1)[0]
    sf = model.method(tq, 'suite')

    def alias(n, a=None):
        return Obj('alias', name=n, asname=a)

    def imp(*names):
        return Obj('Import', names=[alias(n) for n in names], namespace='NS')

    def frm(module, level, *names):
        return Obj('ImportFrom', module=module, names=[alias(n) for n in names], level=level, namespace='NS')

    def describe(stmts):
        out = []
        for s in stmts:
            if not isinstance(s, Obj):
                out.append(repr(s))
            elif s.cls == 'Import':
                out.append('import ' + ','.join(a.attrs['name'] for a in s.attrs['names']))
            elif s.cls == 'ImportFrom':
                out.append('from %s%s import %s' % ('.' * s.attrs['level'], s.attrs['module'] or '', ','.join(a.attrs['name'] for a in s.attrs['names'])))
            else:
                out.append(s.cls)
        return out
    X = lambda: Expr(Call(Name('f')))
    cases = [
        ('import a; import b', [imp('a'), imp('b')], ['import a,b']),
        ('import b; import a', [imp('b'), imp('a')], ['import b,a']),
        ('import a; f(); import b', [imp('a'), X(), imp('b')], ['import a', 'Expr', 'import b']),
        ('from m import a; from m import b', [frm('m', 0, 'a'), frm('m', 0, 'b')], ['from m import a,b']),
        ('from m import a; from n import b', [frm('m', 0, 'a'), frm('n', 0, 'b')], ['from m import a', 'from n import b']),
        ('from m import a; from .m import b', [frm('m', 0, 'a'), frm('m', 1, 'b')], ['from m import a', 'from .m import b']),
        ('from m import *; from m import b', [frm('m', 0, '*'), frm('m', 0, 'b')], ['from m import *', 'from m import b']),
        ('from m import a; from m import *', [frm('m', 0, 'a'), frm('m', 0, '*')], ['from m import a', 'from m import *']),
        ('from m import a; import x; from m import b', [frm('m', 0, 'a'), imp('x'), frm('m', 0, 'b')], ['from m import a', 'import x', 'from m import b']),
        ('import a; from m import b; import c', [imp('a'), frm('m', 0, 'b'), imp('c')], ['import a', 'from m import b', 'import c']),
        ('from m import b; from m import a; f()', [frm('m', 0, 'b'), frm('m', 0, 'a'), X()], ['from m import b,a', 'Expr']),
    ]
    for label, stmts, want in cases:
        parent = Obj('Module', body=stmts)
        hooks = hooks_for_transform()
        hooks['self.visit'] = lambda I, e, a_, kw, env: a_[0]
        I = Interp(model, mod, hooks, version=(3, 12, 0))
        res = I.explore(lambda: I.call_method(tq, 'suite', Obj('CombineImports'), [stmts, parent]))
        for (o, ev, unk) in res:
            if o[0] != 'return' or o[1] is TOP:
                raise AnalysisError('UNDECIDED: CombineImports.suite(%s) -> %s %s' % (label, o, unk[:3]))
            got = describe(o[1])
            rep.check(got == want, 'C05.IMP', sf.loc(), '%s -> %s' % (label, '; '.join(got)), 'adjacent imports merged in order, nothing reordered',
                      '`%s` becomes `%s`, expected `%s`' % (label, '; '.join(got), '; '.join(want)), key='C05.IMP|' + label)
    rep.floor('C05.IMP', 11)

    # POS
    rp = model.func(T + 'remove_posargs.remove_posargs')
    a, b, c = Obj('arg', arg='a'), Obj('arg', arg='b'), Obj('arg', arg='c')
    args = Obj('arguments', posonlyargs=[a, b], args=[c], vararg=None, kwonlyargs=[], kw_defaults=[], kwarg=None, defaults=[Const(1)])
    I = Interp(model, rp.module, hooks_for_transform(), version=(3, 12, 0))
    res = I.explore(lambda: I.call_function(rp.qual, [args]))
    if any(o[0] != 'return' for (o, _e, _u) in res):
        raise AnalysisError('UNDECIDED: remove_posargs -> %s' % [r[0] for r in res])
    ok = args.attrs['posonlyargs'] == [] and [x.attrs['arg'] for x in args.attrs['args']] == ['a', 'b', 'c'] and len(args.attrs['defaults']) == 1 and args.attrs['kwonlyargs'] == []
    rep.check(ok, 'C05.POS', rp.loc(), 'def f(a, b, /, c=1) -> args %s posonly %s' % ([x.attrs['arg'] for x in args.attrs['args']], args.attrs['posonlyargs']), 'positional-only parameters prepended in order, nothing else touched',
              'arguments become args=%s posonlyargs=%s' % ([x.attrs['arg'] for x in args.attrs['args']], args.attrs['posonlyargs']), key='C05.POS')
    rep.floor('C05.POS', 1)


def src_of(o):
    if not isinstance(o, Obj):
        return repr(o)
    if o.cls == 'Name':
        return o.attrs['id']
    if o.cls == 'Attribute':
        return src_of(o.attrs['value']) + '.' + o.attrs['attr']
    return o.cls
