"""C13 - the command line tool writes exactly what the API would return (decided by evaluating the entry point on enumerated scenarios)."""
import glob
import os
import re

from .. import clirun
from . import cli_e2e as E
from ..model import AnalysisError

MAIN = 'python_minifier.__main__'


def cmdline(label, argv):
    if label.startswith('three files'):
        return 'pyminify %s --in-place f1.py f2.py f3.py' % ' '.join(argv)
    return 'pyminify %s mod.py' % ' '.join(argv)


def run(model, rep):
    rep.explanation = ('main() of the command line module is evaluated by the abstract interpreter inside a modelled environment (pmstatic.clirun): a real '
                       'argparse parser of the standard library is driven by the calls the repository makes, the file system, stdin/stdout, the environment '
                       'and the API function minify() are answered by the checker and every effect is recorded in order. (FLAGS) for no flags, every flag '
                       'alone, every vector of the annotation flags, several spellings of the preserve lists (thorough: every pair of flags) the keyword '
                       'arguments that reach minify() must be the documented meaning of the flags - --no-x turns x off, --x turns x on, everything else '
                       'keeps the default of the API signature, preserve lists are split on commas and stripped - the source handed over is the bytes read '
                       'and stdout receives the UTF-8 encoding of the answer. (VAL) 112 argument shapes (stdin / files / directory x --in-place x --output x '
                       'the annotation conflict): invalid ones end with a failure status before anything is read, minified or written, valid ones run. '
                       '(OUT) over the output modes (stdin, file, several files, directory tree; stdout, --output, --in-place) x per-source answers (shorter, '
                       'longer, longer only in bytes, equal, rejected, unreadable): every destination receives exactly the encoded answer or the untouched '
                       'source, through binary channels, and the path listing never shares stdout with a module. (DOC) every --flag spelled in the '
                       'documentation exists in the parser the repository builds. No shape of main / parse_args / do_minify is assumed. '
                       'Not decided: that minify() itself honours its keywords (C05), and flag subsets larger than pairs.')
    for r, t in [('C13.FLAGS', 'flags -> keyword arguments of minify(): documented meaning, own option and no other, defaults = API defaults, lists split (enumerated end to end)'),
                 ('C13.VAL', 'invalid argument combinations fail before anything is read or written; valid ones run (enumerated)'),
                 ('C13.OUT', 'every destination receives the UTF-8 encoding of the minify() answer or the untouched source, through binary channels; listing never on the payload channel'),
                 ('C13.DOC', 'every --flag spelled in docs/source exists in the parser the repository builds')]:
        rep.rule(r, t)
    main = model.func(MAIN + '.main')
    where = main.loc()
    flags, booleans, lists = E.run_flags(model, rep.tier)
    rep.count('boolean_flags', len(booleans))
    rep.count('list_flags', len(lists))
    if len(booleans) < 15:
        raise AnalysisError('the parser built by the repository has only %d boolean option flags' % len(booleans))
    for (label, argv, probs) in flags:
        mine = [p for p in probs if p.clause in ('flags', 'payload', 'validation')]
        if mine:
            for p in mine[:3]:
                rep.violation('C13.FLAGS', where, cmdline(label, argv), p.text, key='C13.FLAGS|%s|%s' % (label, p.text[:60]))
        else:
            rep.ok('C13.FLAGS', where, cmdline(label, argv), 'minify() receives the documented meaning of the flags and stdout its encoded answer', key='C13.FLAGS|' + label)
    rep.floor('C13.FLAGS', 50)

    val = E.run_validation(model, rep.tier)
    groups = {}
    for (label, argv, probs) in val:
        g = ' '.join(a for a in argv if not a.startswith('--') and a != 'out.py') or '(none)'
        groups.setdefault(g, [0, []])
        groups[g][0] += 1
        groups[g][1] += probs
    for g, (n, probs) in sorted(groups.items()):
        if probs:
            for p in probs[:3]:
                rep.violation('C13.VAL', where, 'pyminify ' + p.label, p.text, key='C13.VAL|%s|%s' % (p.label, p.text[:50]))
        else:
            rep.ok('C13.VAL', where, 'paths %s x --in-place x --output x annotation conflict (%d shapes)' % (g, n), 'invalid shapes fail before any effect, valid shapes run', cells=n, key='C13.VAL|' + g)
    rep.floor('C13.VAL', 7)

    modes = E.run_modes(model, rep.tier)
    E.report(rep, 'C13.OUT', where, modes, ('payload', 'size', 'listing', 'channel', 'destination'), 'output', 'destinations receive the encoded answer or the untouched source, binary, no listing on the payload channel', None)
    rep.floor('C13.OUT', 9)

    # ---- DOC
    parser = E.the_parser(model)
    known = set()
    for a in parser._actions:
        known.update(a.option_strings)
    n = 0
    root = model.root
    for path in sorted(glob.glob(os.path.join(root, 'docs', 'source', 'transforms', '*.rst')) + glob.glob(os.path.join(root, 'docs', 'source', 'command_usage.rst'))):
        rel = os.path.relpath(path, root)
        text = model.overlay.get(rel)
        if text is None:
            with open(path, encoding='utf-8') as f:
                text = f.read()
        for i, line in enumerate(text.splitlines(), 1):
            for mm in re.finditer(r'``(--[A-Za-z0-9_-]+)``', line):
                fl = mm.group(1)
                n += 1
                rep.check(fl in known, 'C13.DOC', '%s:%d' % (rel, i), fl, 'flag exists', 'documented flag %s does not exist in the parser' % fl, key='C13.DOC|%s|%s' % (os.path.basename(rel), fl))
    rep.floor('C13.DOC', 15)
