"""C13 - the command line tool writes exactly what the API would return (structural clauses)."""
import argparse
import ast
import glob
import itertools
import os
import re

from ..absint import Interp, Obj, TOP
from ..astutil import calls, kwarg, local_defs, literal
from ..facts import Facts
from ..model import AnalysisError, src, walk_own
from .cli_common import MAIN, NOT_BENEFICIAL, MainAnalysis

OPTIONS_CLS = 'python_minifier.transforms.remove_annotations_options.RemoveAnnotationsOptions'


class Spec(object):
    def __init__(self, call, flags, action, dest, default, has_default, nargs, typ, group):
        self.call = call
        self.flags = flags
        self.action = action
        self.dest = dest
        self.default = default
        self.has_default = has_default
        self.nargs = nargs
        self.typ = typ
        self.group = group

    @property
    def long(self):
        ls = [f for f in self.flags if f.startswith('--')]
        return ls[0] if ls else (self.flags[0] if self.flags else None)


def extract_specs(A):
    """Statically read every add_argument call of parse_args: [(Spec)] plus group structure."""
    fi = A.parse_args
    defs = A.defs[fi.qual]
    specs = []
    mutex = {}
    for n in walk_own(fi.node):
        if isinstance(n, ast.Assign) and isinstance(n.value, ast.Call) and isinstance(n.value.func, ast.Attribute) and \
                n.value.func.attr == 'add_mutually_exclusive_group' and isinstance(n.targets[0], ast.Name):
            mutex[n.targets[0].id] = []
    for c in calls(fi.node):
        if not (isinstance(c.func, ast.Attribute) and c.func.attr == 'add_argument'):
            continue
        flags = []
        for a in c.args:
            if isinstance(a, ast.Constant) and isinstance(a.value, str):
                flags.append(a.value)
            else:
                raise AnalysisError('add_argument with a non-literal flag at %s' % fi.loc(c))
        kw = {k.arg: k.value for k in c.keywords}

        def lit(name, default=None):
            if name not in kw:
                return default
            e = kw[name]
            if isinstance(e, ast.Constant):
                return e.value
            if isinstance(e, ast.Name) and e.id in ('str', 'int'):
                return e.id
            return ('expr', src(e))
        action = lit('action', 'store')
        dest = lit('dest')
        if dest is None and flags:
            longs = [f for f in flags if f.startswith('--')]
            dest = (longs[0][2:] if longs else flags[0].lstrip('-')).replace('-', '_')
        group = src(c.func.value)
        s = Spec(c, flags, action, dest, lit('default'), 'default' in kw, lit('nargs'), lit('type'), group)
        specs.append(s)
        if group in mutex:
            mutex[group].append(s)
    return specs, mutex


def normalised(flag, action):
    """--no-x-y + store_false -> ('x_y', False-when-given) ; --x-y + store_true -> ('x_y', True-when-given)"""
    name = flag[2:].replace('-', '_')
    if name.startswith('no_'):
        return name[3:], False
    return name, True


def build_parser(specs, mutex):
    """O6: an argparse parser built by the checker from the extracted specs."""
    p = argparse.ArgumentParser(prog='probe', add_help=False)
    p.error = lambda msg: (_ for _ in ()).throw(ValueError(msg))
    groups = {g: p.add_mutually_exclusive_group() for g in mutex}
    for s in specs:
        if s.action == 'version':
            continue
        tgt = groups.get(s.group, p)
        kw = {}
        if s.action != 'store' or True:
            kw['action'] = s.action
        if s.flags and s.flags[0].startswith('-'):
            kw['dest'] = s.dest
        if s.has_default:
            kw['default'] = s.default
        if s.nargs is not None:
            kw['nargs'] = s.nargs
        if s.typ == 'str':
            kw['type'] = str
        if s.action in ('store_true', 'store_false'):
            kw.pop('nargs', None)
            kw.pop('type', None)
        tgt.add_argument(*s.flags, **kw)
    return p


def signature_defaults(fi):
    out = {}
    for k, d in fi.defaults().items():
        if isinstance(d, ast.Constant):
            out[k] = d.value
        else:
            out[k] = ('expr', src(d))
    return out


def _loops_of(model, node, fnode):
    out = []
    cur = model.parent(node)
    while cur is not None and cur is not fnode:
        if isinstance(cur, (ast.For, ast.AsyncFor, ast.comprehension, ast.ListComp, ast.GeneratorExp, ast.SetComp, ast.DictComp)):
            out.append(cur)
        cur = model.parent(cur)
    return out


def _definitions(model, fnode):
    """[(name, value expr or None, defining node)] for the function's own body."""
    out = []
    for n in walk_own(fnode):
        if isinstance(n, ast.Assign):
            for t in n.targets:
                for x in ast.walk(t):
                    if isinstance(x, ast.Name):
                        out.append((x.id, n.value, n))
        elif isinstance(n, (ast.For, ast.AsyncFor)):
            for x in ast.walk(n.target):
                if isinstance(x, ast.Name):
                    out.append((x.id, n.iter, n))
        elif isinstance(n, (ast.ListComp, ast.GeneratorExp, ast.SetComp, ast.DictComp)):
            for g in n.generators:
                for x in ast.walk(g.target):
                    if isinstance(x, ast.Name):
                        out.append((x.id, g.iter, n))
        elif isinstance(n, ast.AugAssign) and isinstance(n.target, ast.Name):
            out.append((n.target.id, n.value, n))
    return out


def dests_in(e, defs, fnode, argname, seen=None, model=None, site=None, _defs_cache={}):
    """Set of parser dests (attributes read from the namespace parameter) that flow into expression e inside the function:
    through local definitions (those in the innermost loop shared with the use are preferred - the function re-uses
    loop-local names), through mutations of containers (extend/append/+=) and through the tests of if-statements that
    select between definitions."""
    seen = seen if seen is not None else set()
    out = set()
    if e is None or isinstance(e, str):
        return out
    dlist = _defs_cache.get(id(fnode))
    if dlist is None:
        dlist = _defs_cache[id(fnode)] = _definitions(model, fnode)
    site = site if site is not None else e
    site_loops = _loops_of(model, site, fnode) + ([site] if isinstance(site, (ast.ListComp, ast.GeneratorExp, ast.SetComp, ast.DictComp)) else [])
    for n in ast.walk(e):
        if isinstance(n, ast.Attribute) and isinstance(n.value, ast.Name) and n.value.id == argname:
            out.add(n.attr)
        elif isinstance(n, ast.Name) and isinstance(n.ctx, ast.Load) and n.id != argname:
            cands = [(v, d) for (name, v, d) in dlist if name == n.id]
            # comprehension-local names first
            inner = [c for c in cands if isinstance(c[1], (ast.ListComp, ast.GeneratorExp, ast.SetComp, ast.DictComp)) and any(c[1] is a for a in list(_anc(model, n, fnode)))]
            if inner:
                cands = inner
            else:
                cands = [c for c in cands if not isinstance(c[1], (ast.ListComp, ast.GeneratorExp, ast.SetComp, ast.DictComp))]
                local = [c for c in cands if site_loops and any(l is site_loops[0] for l in ([c[1]] + _loops_of(model, c[1], fnode)))]
                if local:
                    cands = local
            for (v, d) in cands:
                k = (n.id, id(d))
                if k in seen:
                    continue
                seen.add(k)
                out |= dests_in(v, defs, fnode, argname, seen, model, site=d)
                # controlling tests of this definition
                for a in _anc(model, d, fnode):
                    if isinstance(a, ast.If):
                        out |= dests_in(a.test, defs, fnode, argname, seen, model, site=a)
            # mutations of a container variable (only for function-level variables)
            if not inner:
                for m in walk_own(fnode):
                    if isinstance(m, ast.Call) and isinstance(m.func, ast.Attribute) and isinstance(m.func.value, ast.Name) and m.func.value.id == n.id \
                            and m.func.attr in ('extend', 'append', 'insert', 'add', 'update'):
                        k = (n.id, 'mut', id(m))
                        if k in seen:
                            continue
                        seen.add(k)
                        for a in m.args:
                            out |= dests_in(a, defs, fnode, argname, seen, model, site=m)
                        for a in _anc(model, m, fnode):
                            if isinstance(a, (ast.For, ast.AsyncFor)):
                                out |= dests_in(a.iter, defs, fnode, argname, seen, model, site=a)
    return out


def _anc(model, node, fnode):
    cur = model.parent(node)
    while cur is not None and cur is not fnode:
        yield cur
        cur = model.parent(cur)


def run(model, rep):
    rep.explanation = ('Decides the flag -> dest -> keyword chain of the CLI statically: add_argument specs are read from parse_args, an argparse parser '
                       'rebuilt from those specs by the checker is probed (no flags; every flag alone; every pair), dests are followed through do_minify '
                       'into the minify(...) call, and the invalid-combination tests are evaluated by abstract interpretation over all argument shapes. '
                       'Not decided: that minify() itself honours its keywords (C05).')
    for r, t in [('C13.FLAG', 'normalised flag name = keyword its dest is forwarded to; --no-x is store_false, --x is store_true; no shared dests; a flag moves only its own dest'),
                 ('C13.DEF', 'with no flags every dest equals the API default of the keyword it feeds'),
                 ('C13.FWD', 'minify(...) in do_minify passes every option keyword exactly once, fed by exactly the dests of the flags of that name'),
                 ('C13.ANN', 'remove_annotations False => four sub-options False; otherwise the four dests feed the four same-named keywords'),
                 ('C13.SPLIT', 'preserve lists: action=append, every entry iterated, split on comma, stripped'),
                 ('C13.VAL', 'invalid combinations reach sys.exit(non-zero) before parse_args returns; valid ones return; main writes only after parse_args'),
                 ('C13.OUT', 'every written payload is the do_minify result (= minify(...).encode("utf-8")) or the bytes read; path listing only when stdout is not the output'),
                 ('C13.DOC', 'every --flag spelled in docs/source/transforms/*.rst exists in the parser')]:
        rep.rule(r, t)
    A = MainAnalysis(model)
    pa = A.parse_args
    dm = A.do_minify
    specs, mutex = extract_specs(A)
    in_mutex = {id(s) for ss in mutex.values() for s in ss}
    opt_specs = [s for s in specs if s.flags and s.flags[0].startswith('-') and s.action in ('store_true', 'store_false', 'append') and id(s) not in in_mutex]
    rep.count('option_flags', len(opt_specs))
    minify_fi = model.func('python_minifier.minify')
    api_defaults = signature_defaults(minify_fi)
    opt_init = model.func(OPTIONS_CLS + '.__init__')
    ann_defaults = signature_defaults(opt_init)
    api_params = [p for p in minify_fi.params if p not in ('source', 'filename')]
    mcall = A.minify_call()
    argname = dm.positional[2] if len(dm.positional) > 2 else None
    if argname is None:
        raise AnalysisError('do_minify lost its namespace parameter')
    defs = A.defs[dm.qual]

    # ---- where does each dest go?  keyword -> dests
    kw_dests = {}
    seen_kw = {}
    for kw in mcall.keywords:
        if kw.arg is None:
            rep.violation('C13.FWD', dm.loc(mcall), 'minify(**...)', 'option keywords are forwarded through ** - cannot be followed')
            continue
        seen_kw[kw.arg] = seen_kw.get(kw.arg, 0) + 1
        kw_dests[kw.arg] = dests_in(kw.value, defs, dm.node, argname, model=model)
    # annotation sub keywords
    ann_calls = [c for c in calls(dm.node) if isinstance(c.func, ast.Name) and model.resolve_name(MAIN, c.func.id) == OPTIONS_CLS]
    ann_kw_dests = {}
    for c in ann_calls:
        for kw in c.keywords:
            ds = dests_in(kw.value, defs, dm.node, argname, model=model)
            ann_kw_dests.setdefault(kw.arg, set()).update(ds)

    # ---- FLAG
    dest_seen = {}
    flag_of_dest = {}
    ann_names = set(ann_defaults)
    for s in opt_specs:
        where = pa.loc(s.call)
        name, polarity = normalised(s.long, s.action)
        key = 'C13.FLAG|' + s.long
        if s.dest in dest_seen:
            rep.violation('C13.FLAG', where, s.long, 'dest %r is shared with %s' % (s.dest, dest_seen[s.dest]), key=key + '|shared')
        dest_seen[s.dest] = s.long
        flag_of_dest[s.dest] = s
        if s.action in ('store_true', 'store_false'):
            want = 'store_true' if polarity else 'store_false'
            rep.check(s.action == want, 'C13.FLAG', where, '%s action=%s' % (s.long, s.action), 'polarity agrees with the spelling',
                      '%s must be %s (the flag is documented to %s the option)' % (s.long, want, 'enable' if polarity else 'disable'), key=key + '|action')
        # which keyword(s) does the dest feed?
        targets = {k for k, ds in kw_dests.items() if s.dest in ds and k != 'remove_annotations'}
        targets |= {k for k, ds in ann_kw_dests.items() if s.dest in ds}
        if name == 'remove_annotations':
            targets = {'remove_annotations'} if s.dest in kw_dests.get('remove_annotations', ()) else set()
        rep.check(targets == {name}, 'C13.FLAG', where, '%s dest=%s' % (s.long, s.dest), 'feeds keyword %s' % name,
                  '%s must control %s and nothing else, but its dest %r feeds %s' % (s.long, name, s.dest, sorted(targets) or 'no keyword'), key=key + '|target')
    rep.floor('C13.FLAG', 2 * 19)

    # ---- O6 probes: defaults, single flags, pairs
    parser = build_parser(specs, mutex)
    base = vars(parser.parse_args(['x.py']))
    n_probe = 1
    for s in opt_specs:
        if s.action == 'append':
            argv = [s.long, 'a,b', 'x.py']
        else:
            argv = [s.long, 'x.py']
        got = vars(parser.parse_args(argv))
        n_probe += 1
        changed = {k for k in got if got[k] != base[k]}
        rep.check(changed == {s.dest}, 'C13.FLAG', pa.loc(s.call), '%s probe' % s.long, 'moves only %s' % s.dest,
                  '%s alone changes %s (expected only %s)' % (s.long, sorted(changed), s.dest), key='C13.FLAG|%s|probe' % s.long)
    pair_bad = 0
    for a, b in itertools.combinations(opt_specs, 2):
        argv = []
        for s in (a, b):
            argv += [s.long, 'n'] if s.action == 'append' else [s.long]
        try:
            got = vars(parser.parse_args(argv + ['x.py']))
        except ValueError:
            continue
        n_probe += 1
        changed = {k for k in got if got[k] != base[k]}
        if changed != {a.dest, b.dest}:
            pair_bad += 1
            rep.violation('C13.FLAG', pa.loc(a.call), '%s %s probe' % (a.long, b.long), 'pair changes %s' % sorted(changed), key='C13.FLAG|pair|%s|%s' % (a.long, b.long))
    rep.ok('C13.FLAG', pa.loc(), 'pairwise probes', '%d argv probes against the rebuilt parser' % n_probe, cells=n_probe, key='C13.FLAG|pairs')

    # ---- DEF
    for s in opt_specs:
        name, _ = normalised(s.long, s.action)
        where = pa.loc(s.call)
        val = base.get(s.dest)
        if s.action == 'append':
            rep.check(val is None, 'C13.DEF', where, '%s default' % s.long, 'absent list -> API default None/[]', 'default %r' % (val,), key='C13.DEF|' + s.long)
            continue
        if name in ann_names and name != 'remove_annotations':
            want = ann_defaults.get(name)
        elif name == 'remove_annotations':
            want = True  # default options object removes (some) annotations: truthy
        else:
            want = api_defaults.get(name, ('missing',))
        rep.check(val == want and type(val) is type(want), 'C13.DEF', where, '%s default=%r' % (s.long, val), 'equals API default of %s' % name,
                  'with no flags dest %s is %r but the API default of %s is %r' % (s.dest, val, name, want), key='C13.DEF|' + s.long)
    rep.floor('C13.DEF', 19)

    # ---- FWD
    for p in api_params:
        where = dm.loc(mcall)
        n = seen_kw.get(p, 0)
        if n != 1:
            rep.violation('C13.FWD', where, 'minify(... %s=...)' % p, 'keyword %s passed %d times: the CLI cannot express this option' % (p, n), key='C13.FWD|' + p)
            continue
        want = {s.dest for s in opt_specs if normalised(s.long, s.action)[0] == p}
        if p == 'remove_annotations':
            want = {s.dest for s in opt_specs if normalised(s.long, s.action)[0] in ann_names | {'remove_annotations'}}
        got = kw_dests.get(p, set())
        rep.check(got == want and want, 'C13.FWD', where, '%s=%s' % (p, src([k for k in mcall.keywords if k.arg == p][0].value)),
                  'fed by dest(s) %s' % sorted(got), 'keyword %s is fed by dests %s, expected %s' % (p, sorted(got), sorted(want)), key='C13.FWD|' + p)
    for k in seen_kw:
        if k not in minify_fi.params:
            rep.violation('C13.FWD', dm.loc(mcall), 'minify(... %s=...)' % k, 'keyword is not a parameter of minify', key='C13.FWD|extra|' + k)
    first = mcall.args[0] if mcall.args else kwarg(mcall, 'source')
    rep.check(isinstance(first, ast.Name) and first.id == dm.positional[0], 'C13.FWD', dm.loc(mcall), 'minify(%s, ...)' % src(first),
              'source passed positionally', 'the source handed to minify is not do_minify\'s source parameter', key='C13.FWD|source')
    fn = kwarg(mcall, 'filename', 1)
    rep.check(isinstance(fn, ast.Name) and fn.id == dm.positional[1], 'C13.FWD', dm.loc(mcall), 'filename=%s' % src(fn), 'filename forwarded',
              'filename is not forwarded', key='C13.FWD|filename')
    rep.floor('C13.FWD', 17)

    # ---- ANN
    # (the arms of the annotation options and the list splitting are decided semantically by C13.EVAL below)

    # ---- SPLIT
    for p in ('preserve_globals', 'preserve_locals'):
        ss = [s for s in opt_specs if normalised(s.long, s.action)[0] == p]
        if len(ss) != 1:
            rep.violation('C13.SPLIT', pa.loc(), '--' + p.replace('_', '-'), 'flag missing')
            continue
        s = ss[0]
        rep.check(s.action == 'append', 'C13.SPLIT', pa.loc(s.call), '%s action=%s' % (s.long, s.action), 'repeatable',
                  'repeated %s would overwrite instead of accumulate' % s.long, key='C13.SPLIT|%s|action' % p)
    rep.floor('C13.SPLIT', 2)

    rep.rule('C13.EVAL', 'do_minify abstractly evaluated on namespaces: one option flipped, all annotation vectors, list spellings -> keywords of minify()')
    run_eval(model, rep, A, opt_specs, ann_defaults, api_params)
    run_val(model, rep, A, specs, mutex)
    run_out(model, rep, A)
    run_doc(model, rep, A, specs)


def run_ann(model, rep, A, ann_calls, ann_defaults, argname, flag_of_dest):
    dm = A.dm if hasattr(A, 'dm') else A.do_minify
    F = A.facts[dm.qual]
    seen_false_arm = seen_true_arm = False
    for c in ann_calls:
        facts = F.facts_at(c)
        if facts is None:
            continue
        t = '%s.remove_annotations' % argname
        off = ('%s is False' % t, True) in facts or (t, False) in facts
        on = ('%s is False' % t, False) in facts or (t, True) in facts
        where = dm.loc(c)
        kws = {k.arg: k.value for k in c.keywords}
        if c.args:
            rep.violation('C13.ANN', where, src(c)[:80], 'positional arguments to RemoveAnnotationsOptions cannot be matched to sub-options by name')
            continue
        if off:
            seen_false_arm = True
            bad = [k for k in ann_defaults if not (isinstance(kws.get(k), ast.Constant) and kws[k].value is False)]
            rep.check(not bad, 'C13.ANN', where, 'RemoveAnnotationsOptions(... all False) under --no-remove-annotations', 'all four sub-options False',
                      '--no-remove-annotations must disable every annotation removal, but %s is not False' % bad, key='C13.ANN|off-arm')
        elif on:
            seen_true_arm = True
            for k in sorted(ann_defaults):
                v = kws.get(k)
                ok = isinstance(v, ast.Attribute) and isinstance(v.value, ast.Name) and v.value.id == argname and v.attr in flag_of_dest and \
                    __import__('pmstatic.props.c13', fromlist=['x']).normalised(flag_of_dest[v.attr].long, flag_of_dest[v.attr].action)[0] == k
                rep.check(ok, 'C13.ANN', where, '%s=%s' % (k, src(v)), 'fed by its own flag', 'sub-option %s is fed by %s' % (k, src(v)), key='C13.ANN|on-arm|' + k)
        else:
            rep.violation('C13.ANN', where, src(c)[:80], 'options object built outside the remove_annotations arms', key='C13.ANN|stray')
    rep.check(seen_false_arm and seen_true_arm, 'C13.ANN', dm.loc(), 'both arms present', 'off-arm and on-arm found',
              'arm for %s missing' % ('--no-remove-annotations' if not seen_false_arm else 'default'), key='C13.ANN|arms')
    rep.floor('C13.ANN', 6)


# ---------------------------------------------------------------------- VAL (abstract evaluation of the validation block)
def run_val(model, rep, A, specs, mutex):
    pa = A.parse_args
    # statements after `args = parser.parse_args()`
    body = pa.node.body
    idx = None
    argvar = None
    for i, s in enumerate(body):
        if isinstance(s, ast.Assign) and isinstance(s.value, ast.Call) and isinstance(s.value.func, ast.Attribute) and s.value.func.attr == 'parse_args' \
                and isinstance(s.targets[0], ast.Name):
            idx = i
            argvar = s.targets[0].id
    if idx is None:
        raise AnalysisError('parse_args() call not found at the top level of parse_args')
    tail = body[idx + 1:]
    # mutual exclusion of --output / --in-place
    groups = [g for g, ss in mutex.items() if {s.dest for s in ss} >= {'output', 'in_place'}]
    rep.check(bool(groups), 'C13.VAL', pa.loc(), '--output/--in-place', 'declared in one mutually exclusive group',
              '--output and --in-place are not mutually exclusive', key='C13.VAL|mutex')

    def spec_invalid(path, in_place, rca, ra, isdir):
        return ('-' in path and len(path) != 1) or ('-' in path and in_place) or (len(path) > 1 and not in_place) or \
            (len(path) == 1 and isdir and not in_place) or (rca and not ra)

    shapes = [['-'], ['-', 'a.py'], ['a.py', '-'], ['a.py'], ['a.py', 'b.py'], ['d']]
    n = 0
    bad = []
    for path in shapes:
        for in_place in (False, True):
            for output in (None, 'out.py'):
                if in_place and output:
                    continue
                for rca in (False, True):
                    for ra in (False, True):
                        isdir = path == ['d']
                        hooks = {'os.path.isdir': lambda I, e, args, kw, env, _d=isdir: _d and args[0] == 'd',
                                 'sys.stderr.write': lambda I, e, args, kw, env: None}
                        I = Interp(model, MAIN, hooks)
                        ns = Obj('Namespace', closed=True, path=list(path), in_place=in_place, output=output, remove_class_attribute_annotations=rca, remove_annotations=ra)
                        for s in specs:
                            if s.dest and s.dest not in ns.attrs:
                                ns.attrs[s.dest] = TOP
                        res = I.explore(lambda: I.block(tail, {argvar: ns}))
                        n += 1
                        outs = {r[0][0] + (':' + str(r[0][1]) if r[0][0] == 'exit' else '') for r in res}
                        inv = spec_invalid(path, in_place, rca, ra, isdir)
                        if any(o == 'abort' or o == 'raise' for o in [r[0][0] for r in res]):
                            raise AnalysisError('UNDECIDED: validation block of parse_args cannot be evaluated for %r: %s' % (path, res[0][0]))
                        if inv:
                            ok = all(r[0][0] == 'exit' and r[0][1] not in (0, None, TOP) for r in res)
                        else:
                            ok = all(r[0][0] == 'return' for r in res)
                        if not ok:
                            bad.append((path, in_place, output, rca, ra, sorted(outs), inv))
    for b in bad[:6]:
        rep.violation('C13.VAL', pa.loc(tail[0]) if tail else pa.loc(), 'path=%r in_place=%r output=%r class_attr=%r annotations=%r' % b[:5],
                      '%s combination %s' % ('invalid' if b[6] else 'valid', 'is not rejected with a non-zero exit: ' + str(b[5]) if b[6] else 'is rejected: ' + str(b[5])),
                      key='C13.VAL|state|%r' % (b[:5],))
    if not bad:
        rep.ok('C13.VAL', pa.loc(tail[0]) if tail else pa.loc(), 'validation block x %d argument shapes' % n, 'invalid shapes exit non-zero, valid shapes return', cells=n, key='C13.VAL|enum')
    # ordering in main: parse_args() dominates every write/open
    mf = A.facts[A.main.qual]
    pa_name = None
    for c in calls(A.main.node):
        if isinstance(c.func, ast.Name) and model.resolve_name(MAIN, c.func.id) == pa.qual:
            pa_name = c.func.id
    if pa_name is None:
        rep.violation('C13.VAL', A.main.loc(), 'main', 'main() does not call parse_args()', key='C13.VAL|order')
    else:
        late = []
        for s in A.lifted_sinks():
            if s.func is A.main and ('<did:%s>' % pa_name, True) not in s.facts:
                late.append(s)
        for (g, c, path, mode, f) in A.lifted_opens():
            if g is A.main and ('<did:%s>' % pa_name, True) not in f:
                late.append(c)
        rep.check(not late, 'C13.VAL', A.main.loc(), 'parse_args() dominates every write and open in main', '%d sinks checked' % (len(A.lifted_sinks())),
                  'something is written before arguments are validated', key='C13.VAL|order')
    rep.floor('C13.VAL', 3)


def run_out(model, rep, A):
    dm = A.do_minify
    for snk in A.lifted_sinks():
        fi = snk.func
        where = fi.loc(snk.call)
        tgt = src(snk.target) if snk.target is not None else snk.kind
        in_handler = ('<caught:%s>' % NOT_BENEFICIAL, True) in snk.facts
        key = 'C13.OUT|%s|%s|%s|%s' % (fi.name, src(snk.payload), tgt, 'handler' if in_handler else 'normal')
        ok, kind, why = A.judge_sink(snk)
        if ok is None:
            listing_ok = any(p and ('output' in k or 'in_place' in k) for (k, p) in snk.facts if not k.startswith('<'))
            rep.check(listing_ok and snk.kind == 'stdout-text', 'C13.OUT', where, src(snk.call), 'path listing only when stdout is not the output channel',
                      'path listing can be mixed into minified output on stdout', key=key)
            continue
        if not ok:
            rep.violation('C13.OUT', where, '%s -> %s' % (src(snk.call)[:60], tgt), why, key=key)
            continue
        binary = (snk.kind == 'stdout-bytes') or (snk.kind == 'file' and isinstance(snk.mode, str) and 'b' in snk.mode and any(ch in snk.mode for ch in 'wax'))
        rep.check(binary, 'C13.OUT', where, '%s -> %s' % (src(snk.call)[:60], tgt), 'payload (%s) written through a binary channel' % kind,
                  'payload is written through a text-mode channel (newline / encoding translation)', key=key)
    # wrappers write exactly their parameter
    for name, fi in A.stdout_wrappers.items():
        ws = [c for c in calls(fi.node) if isinstance(c.func, ast.Attribute) and c.func.attr in ('write', 'writelines')]
        rep.check(all(len(c.args) == 1 and isinstance(c.args[0], ast.Name) and c.args[0].id == fi.positional[0] for c in ws), 'C13.OUT', fi.loc(), name,
                  'stdout helper writes exactly its argument', 'stdout helper writes something other than its argument', key='C13.OUT|wrapper|' + name)
    # any function of __main__ that writes to stdout but is not a pure wrapper is inspected as a sink owner above; a helper that
    # writes its parameter *and* something else is caught here
    for q, fi in model.funcs.items():
        if fi.module == MAIN and fi.name not in A.stdout_wrappers and fi.outer is None and len(fi.positional) == 1 and fi.name not in ('main', 'do_minify', 'parse_args', 'source_modules'):
            ws = [c for c in calls(fi.node) if isinstance(c.func, ast.Attribute) and c.func.attr == 'write' and src(c.func.value).startswith('sys.stdout')]
            if ws:
                rep.violation('C13.OUT', fi.loc(), fi.name, 'stdout helper does not write exactly its argument', key='C13.OUT|wrapper|' + fi.name)
    # the returned payload of do_minify is the utf-8 encoding of the minify result
    F = A.facts[dm.qual]
    defs = A.defs[dm.qual]
    mcall = A.minify_call()
    for (ret, facts) in F.returns:
        e = ret.value
        if isinstance(e, ast.Name) and len(defs.get(e.id, [])) == 1 and isinstance(defs[e.id][0], ast.AST):
            e = defs[e.id][0]
        ok = isinstance(e, ast.Call) and isinstance(e.func, ast.Attribute) and e.func.attr == 'encode'
        enc = None
        if ok:
            a = e.args[0] if e.args else kwarg(e, 'encoding')
            enc = a.value if isinstance(a, ast.Constant) else ('utf-8' if a is None else None)
            r = e.func.value
            if isinstance(r, ast.Name):
                rd = defs.get(r.id, [])
                ok = len(rd) == 1 and rd[0] is mcall
            else:
                ok = r is mcall
            errs = kwarg(e, 'errors', 1)
            if errs is not None:
                ok = False
        ok = ok and isinstance(enc, str) and enc.lower().replace('_', '-') in ('utf-8', 'utf8')
        rep.check(ok, 'C13.OUT', dm.loc(ret), 'return ' + src(ret.value), 'minify(...).encode("utf-8")', 'returned payload is not the strict UTF-8 encoding of the minify() result: ' + src(e),
                  key='C13.OUT|return|' + src(ret.value))
    rep.floor('C13.OUT', 4)


def run_doc(model, rep, A, specs):
    flags = set()
    for s in specs:
        flags.update(s.flags)
    n = 0
    root = model.root
    for path in sorted(glob.glob(os.path.join(root, 'docs', 'source', 'transforms', '*.rst')) + glob.glob(os.path.join(root, 'docs', 'source', 'command_usage.rst'))):
        rel = os.path.relpath(path, root)
        text = model.overlay.get(rel)
        if text is None:
            with open(path, encoding='utf-8') as f:
                text = f.read()
        for i, line in enumerate(text.splitlines(), 1):
            for mm in re.finditer(r'``(--[A-Za-z0-9_-]+)``', line):
                fl = mm.group(1)
                n += 1
                rep.check(fl in flags, 'C13.DOC', '%s:%d' % (rel, i), fl, 'flag exists', 'documented flag %s does not exist in the parser' % fl, key='C13.DOC|%s|%s' % (os.path.basename(rel), fl))
    rep.floor('C13.DOC', 15)


# ---------------------------------------------------------------------- EVAL: do_minify abstractly evaluated on argparse namespaces
def run_eval(model, rep, A, opt_specs, ann_defaults, api_params):
    """For namespaces that differ from the defaults in one option (and for all annotation sub-option vectors, and for several
    spellings of the preserve lists) the keyword arguments handed to minify() must be the documented meaning of the flags."""
    dm = A.do_minify
    by_name = {normalised(s.long, s.action)[0]: s for s in opt_specs}
    parser_defaults = {}
    specs, mutex = extract_specs(A)
    base = vars(build_parser(specs, mutex).parse_args(['x.py']))

    def evaluate(ns_values):
        captured = {}

        def minify_hook(I, e, args, kw, env):
            captured['args'] = args
            captured['kw'] = kw
            return 'minified text'
        hooks = {'minify': minify_hook, 'os.environ.get': lambda I, e, args, kw, env: '1'}
        I = Interp(model, MAIN, hooks)
        ns = Obj('Namespace', closed=True, **ns_values)
        res = I.explore(lambda: I.call_function(dm.qual, [b'source bytes', 'file.py', ns]))
        outs = {r[0][0] for r in res}
        if outs == {'raise'}:
            return {'raise': res[0][0][1]}
        if outs != {'return'} or 'kw' not in captured:
            raise AnalysisError('UNDECIDED: do_minify on a namespace -> %s %s' % ([r[0] for r in res][:2], res[0][2][:3]))
        return captured

    def expected(ns_values):
        want = {}
        for p in api_params:
            if p == 'remove_annotations':
                continue
            s = by_name.get(p)
            if s is None:
                continue
            v = ns_values[s.dest]
            if s.action == 'append':
                names = []
                for entry in (v or []):
                    names += [n.strip() for n in entry.split(',') if n.strip()]
                v = names
            want[p] = v
        ann = {}
        for k in ann_defaults:
            s = by_name.get(k)
            ann[k] = bool(ns_values[by_name['remove_annotations'].dest]) and bool(ns_values[s.dest]) if s is not None else None
        return want, ann

    def compare(label, ns_values):
        cap = evaluate(ns_values)
        if 'raise' in cap:
            rep.violation('C13.EVAL', dm.loc(), label, 'do_minify raises %s on the namespace the argument parser produces for these flags' % cap['raise'], key='C13.EVAL|' + label)
            return
        want, ann = expected(ns_values)
        kw = cap['kw']
        problems = []
        for p, v in want.items():
            got = kw.get(p, '<missing>')
            if isinstance(v, list):
                if got is None and v == []:
                    continue
                if not isinstance(got, list) or [x for x in got if x] != v:
                    problems.append('%s=%r (documented meaning: %r)' % (p, got, v))
            elif got is not v:
                problems.append('%s=%r (documented meaning: %r)' % (p, got, v))
        ra = kw.get('remove_annotations')
        if isinstance(ra, Obj):
            for k, v in ann.items():
                got = ra.attrs.get(k)
                if bool(got) is not v or got is TOP:
                    problems.append('remove_annotations.%s=%r (documented meaning: %r)' % (k, got, v))
        elif isinstance(ra, bool):
            for k, v in ann.items():
                if ra is not v:
                    problems.append('remove_annotations=%r but %s should be %r' % (ra, k, v))
        else:
            problems.append('remove_annotations=%r' % (ra,))
        rep.check(not problems, 'C13.EVAL', dm.loc(), label, 'minify() receives the documented meaning of the flags', '; '.join(problems[:3]), key='C13.EVAL|' + label)

    n = 0
    compare('no flags', dict(base))
    for s in opt_specs:
        if s.action == 'append':
            continue
        v = dict(base)
        v[s.dest] = not base[s.dest]
        if normalised(s.long, s.action)[0] == 'remove_class_attribute_annotations':
            pass
        compare(s.long, v)
    subs = [by_name[k] for k in sorted(ann_defaults) if k in by_name]
    for master in (True, False):
        for bits in itertools.product((True, False), repeat=len(subs)):
            v = dict(base)
            v[by_name['remove_annotations'].dest] = master
            for s, b in zip(subs, bits):
                v[s.dest] = b
            compare('annotations: master=%s %s' % (master, ','.join('%s=%s' % (s.dest.replace('remove_', '').replace('_annotations', ''), b) for s, b in zip(subs, bits))), v)
    for p in ('preserve_globals', 'preserve_locals'):
        s = by_name.get(p)
        if s is None:
            continue
        for spelling in (None, ['a'], ['a,b'], ['a, b', 'c'], ['a,,b'], [' a ,b ', 'c,d'], ['a', 'b', 'c']):
            v = dict(base)
            v[s.dest] = spelling
            compare('%s %r' % (s.long, spelling), v)
    rep.floor('C13.EVAL', 60)
