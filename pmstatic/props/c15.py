"""C15 - in-place minification touches only Python files and never corrupts one (structural clauses)."""
import ast

from ..astutil import calls, kwarg, local_defs
from ..facts import Facts, fact_texts
from ..model import AnalysisError, src, walk_own
from .cli_common import MAIN, NOT_BENEFICIAL, MainAnalysis

SUFFIXES = {'.py', '.pyw'}
FS_MUTATORS = {'remove', 'unlink', 'rename', 'replace', 'rmdir', 'removedirs', 'renames', 'truncate', 'chmod', 'chown', 'makedirs', 'mkdir', 'symlink', 'link',
               'rmtree', 'move', 'copy', 'copyfile', 'copy2', 'copytree', 'write_text', 'write_bytes', 'touch', 'utime', 'mkstemp', 'NamedTemporaryFile'}


def run(model, rep):
    rep.explanation = ('Decides on __main__.py: (SEL) inside a directory walk a path is yielded only under a suffix test for .py/.pyw on the very file '
                       'name that is joined into the path, and walk errors are re-raised; (WRT) the only files opened for writing are the visited path '
                       'under the in-place fact, or the --output path; no other file-system mutation exists in the package; (ORD) the destination is '
                       'opened only after do_minify returned for that file (or, in the size-fallback handler, only the --output path); (ERR) no handler '
                       'other than the size fallback swallows an exception, so a failing file ends the run with a traceback/non-zero status. '
                       'Not decided: atomicity of the final write against a crash.')
    for r, t in [('C15.SEL', 'yield inside os.walk loop carries endswith((".py",".pyw")) on the joined file name; onerror re-raises; explicit paths yielded as given'),
                 ('C15.WRT', 'open-for-write targets: loop path under args.in_place, or args.output; no other fs mutation in the package'),
                 ('C15.ORD', 'open-for-write of the visited path is dominated by the read and by a completed do_minify call'),
                 ('C15.ERR', 'every except handler in the CLI is the size fallback or ends in raise/sys.exit(non-zero)')]:
        rep.rule(r, t)
    A = MainAnalysis(model)
    sm = A.source_modules
    F = A.facts[sm.qual]
    defs = A.defs[sm.qual]

    # ---------------- SEL
    walks = []
    for n in walk_own(sm.node):
        if isinstance(n, ast.For) and isinstance(n.iter, ast.Call) and src(n.iter.func) in ('os.walk', 'walk'):
            walks.append(n)
    for w in walks:
        onerr = kwarg(w.iter, 'onerror', 2)
        ok = False
        why = 'os.walk has no onerror: unreadable directories are skipped silently'
        if isinstance(onerr, ast.Name):
            tgt = model.funcs.get(sm.qual + '.' + onerr.id) or model.funcs.get(MAIN + '.' + onerr.id)
            if tgt is not None:
                FF = Facts(tgt.node)
                ok = FF.fallthrough is None and not FF.returns and bool(FF.raises)
                why = 'onerror handler %s does not raise on every path' % onerr.id
        rep.check(ok, 'C15.SEL', sm.loc(w), src(w.iter), 'walk errors are re-raised', why, key='C15.SEL|onerror')
    for (y, facts) in F.yields:
        where = sm.loc(y)
        in_walk = [w for w in walks if any(x is y for x in ast.walk(w))]
        if not in_walk:
            # explicit path argument, yielded as given
            v = y.value
            ds = defs.get(v.id, []) if isinstance(v, ast.Name) else []
            ok = isinstance(v, ast.Name) and all(isinstance(d, tuple) and d[0] == '<iter>' and src(d[1]).endswith('.path') for d in ds) and ds
            rep.check(bool(ok), 'C15.SEL', where, 'yield ' + src(v), 'explicit path argument yielded as given', 'a path that is not one of the command line arguments is yielded outside a directory walk',
                      key='C15.SEL|explicit|' + src(v))
            continue
        w = in_walk[0]
        v = y.value
        # yielded value: os.path.join(root, <file var>)
        fvar = None
        if isinstance(v, ast.Call) and src(v.func) in ('os.path.join', 'join') and v.args and isinstance(v.args[-1], ast.Name):
            fvar = v.args[-1].id
        good = False
        why = 'no suffix test on the yielded file name; facts: %s' % fact_texts(facts)
        for (k, p) in (facts or ()):
            if k.startswith('<') or not p:
                continue
            try:
                t = ast.parse(k, mode='eval').body
            except SyntaxError:
                continue
            if isinstance(t, ast.Call) and isinstance(t.func, ast.Attribute) and t.func.attr == 'endswith' and isinstance(t.func.value, ast.Name) and len(t.args) == 1:
                try:
                    sfx = ast.literal_eval(t.args[0])
                except Exception:
                    continue
                sfx = {sfx} if isinstance(sfx, str) else set(sfx)
                if t.func.value.id != fvar:
                    why = 'suffix test is on %s but the yielded path is built from %s' % (t.func.value.id, fvar)
                elif not sfx or not sfx <= SUFFIXES:
                    why = 'suffix test admits %s; only .py and .pyw files may be selected' % sorted(sfx - SUFFIXES)
                else:
                    good = True
        # the file variable must iterate the walk's file list (third element)
        if good:
            names = w.target.elts if isinstance(w.target, ast.Tuple) and len(w.target.elts) == 3 else None
            fdefs = defs.get(fvar, [])
            if not (names and all(isinstance(d, tuple) and d[0] == '<iter>' and isinstance(d[1], ast.Name) and d[1].id == getattr(names[2], 'id', None) for d in fdefs)):
                good = False
                why = 'the tested name does not iterate the file list of os.walk'
        rep.check(good, 'C15.SEL', where, 'yield ' + src(v), 'only under %s.endswith((.py,.pyw))' % fvar, why, key='C15.SEL|walk|' + src(v))
    rep.floor('C15.SEL', 3)

    # ---------------- WRT / ORD
    mf = A.facts[A.main.qual]
    mdefs = A.defs[A.main.qual]
    n_w = 0
    sinks = A.lifted_sinks()
    for (fi, c, path, mode, facts) in A.lifted_opens():
        fdefs = A.defs[fi.qual]
        if mode is None:
            rep.violation('C15.WRT', fi.loc(c), src(c), 'open() with a computed mode cannot be classified', key='C15.WRT|mode|' + src(c))
            continue
        if not any(ch in mode for ch in 'wax+'):
            continue
        if isinstance(path, ast.Constant) and path.value is None:
            rep.note('open(None, %r) at %s: a helper arm that cannot succeed for this call (no path)' % (mode, fi.loc(c)))
            continue
        n_w += 1
        ptxt = src(path)
        key = 'C15.WRT|%s|%s|%s' % (fi.name, ptxt, 'handler' if any(k.startswith('<caught:') for k, _ in facts) else 'main')
        if ptxt.endswith('.output') and isinstance(path, ast.Attribute):
            ok = (ptxt, True) in facts
            rep.check(ok, 'C15.WRT', fi.loc(c), 'open(%s, %r)' % (ptxt, mode), 'the --output path, under the fact that it was given', 'the --output path is opened without testing that it was given', key=key)
            continue
        pdefs = fdefs.get(path.id, []) if isinstance(path, ast.Name) else []
        from_walk = bool(pdefs) and all(isinstance(d, tuple) and d[0] == '<iter>' and isinstance(d[1], ast.Call) and isinstance(d[1].func, ast.Name)
                                         and model.resolve_name(MAIN, d[1].func.id) == A.source_modules.qual for d in pdefs)
        if not from_walk:
            rep.violation('C15.WRT', fi.loc(c), 'open(%s, %r)' % (ptxt, mode), 'file opened for writing is neither a selected source path nor the --output path', key=key)
            continue
        inplace = any(p and k.endswith('.in_place') for (k, p) in facts if not k.startswith('<'))
        rep.check(inplace, 'C15.WRT', fi.loc(c), 'open(%s, %r)' % (ptxt, mode), 'selected source path, under the in-place fact', 'a source file is overwritten without --in-place', key=key)
        dom = ('<did:do_minify>', True) in facts and not any(k.startswith('<caught:') for k, _ in facts)
        if not dom:
            # alternatively: what is written through this open is, on every path, a completed do_minify result of this iteration
            written = [sk for sk in sinks if sk.func is fi and sk.call is c and sk.target is not None and src(sk.target) == ptxt]
            dom = bool(written) and all(A.judge_sink(sk)[0] is True and A.judge_sink(sk)[1] == 'minified' for sk in written)
        rd = any(k.startswith('<did:') and k.endswith('.read>') for k, _ in facts)
        in_try = any(k.startswith('<in-try:') for k, _ in facts)
        rep.check(dom and rd and not in_try, 'C15.ORD', fi.loc(c), 'open(%s, %r)' % (ptxt, mode), 'dominated by the read and by a completed do_minify(); outside the try',
                  'the destination can be opened (truncated) before minification of that file has succeeded', key='C15.ORD|' + ptxt)
    rep.floor('C15.WRT', 2, n_w)
    rep.floor('C15.ORD', 1)
    # other file-system mutations anywhere in the package
    n_mut = 0
    for rel, tree in model.trees.items():
        for n in ast.walk(tree):
            if isinstance(n, ast.Call) and isinstance(n.func, ast.Attribute) and n.func.attr in FS_MUTATORS:
                base = src(n.func.value)
                if base in ('os', 'shutil', 'os.path', 'tempfile', 'pathlib') or base.startswith('pathlib.') or base.startswith('Path('):
                    n_mut += 1
                    rep.violation('C15.WRT', '%s:%d' % (rel, n.lineno), src(n)[:80], 'file-system mutation other than writing the destination', key='C15.WRT|fs|' + src(n.func))
            if isinstance(n, (ast.Import, ast.ImportFrom)):
                mods = [a.name for a in n.names] if isinstance(n, ast.Import) else [n.module or '']
                for mname in mods:
                    if mname.split('.')[0] in ('shutil', 'tempfile', 'pathlib'):
                        rep.note('%s imports %s' % (rel, mname))
    rep.ok('C15.WRT', 'src/python_minifier', 'no other file-system mutation', '%d trees scanned' % len(model.trees), key='C15.WRT|fs-scan', trivial=True)

    # ---------------- ERR
    n_h = 0
    for fi in [f for f in model.funcs.values() if f.module == MAIN]:
        for t in [n for n in walk_own(fi.node) if isinstance(n, ast.Try)]:
            for h in t.handlers:
                n_h += 1
                tname = src(h.type) if h.type is not None else '<bare>'
                key = 'C15.ERR|%s|%s' % (fi.name, tname)
                if h.type is not None and isinstance(h.type, ast.Name) and model.resolve_name(MAIN, h.type.id) == A.exc.qual:
                    rep.ok('C15.ERR', fi.loc(h), 'except ' + tname, 'the size-fallback handler', key=key)
                    continue
                HF = Facts(body=h.body)
                terminal = HF.fallthrough is None and not HF.returns and not any(True for _ in HF.loop_exits)
                exits_ok = True
                for (s, _f) in HF.raises:
                    if isinstance(s, ast.Expr):  # sys.exit(...)
                        a = s.value.args[0] if s.value.args else None
                        if a is None or (isinstance(a, ast.Constant) and a.value in (0, None, False)):
                            exits_ok = False
                has_jump = any(isinstance(x, (ast.Continue, ast.Break)) for x in ast.walk(ast.Module(body=h.body, type_ignores=[])))
                rep.check(terminal and exits_ok and not has_jump, 'C15.ERR', fi.loc(h), 'except ' + tname, 'handler ends in raise / non-zero exit',
                          'handler swallows %s: a failing file no longer stops the run with a non-zero status' % tname, key=key)
            if t.finalbody:
                for x in ast.walk(ast.Module(body=t.finalbody, type_ignores=[])):
                    if isinstance(x, (ast.Return, ast.Continue, ast.Break)):
                        rep.violation('C15.ERR', fi.loc(t), 'finally: ' + type(x).__name__, 'jump out of finally swallows the exception', key='C15.ERR|finally|' + fi.name)
        for w in [n for n in walk_own(fi.node) if isinstance(n, (ast.With, ast.AsyncWith))]:
            for it in w.items:
                if 'suppress' in src(it.context_expr):
                    rep.violation('C15.ERR', fi.loc(w), src(it.context_expr), 'exceptions suppressed by context manager', key='C15.ERR|suppress|' + fi.name)
    rep.floor('C15.ERR', 2, n_h)
