"""C15 - in-place minification touches only Python files and never corrupts one (decided by evaluating the entry point on enumerated scenarios)."""
import ast

from . import cli_e2e as E
from ..astutil import calls
from ..model import AnalysisError, src

MAIN = 'python_minifier.__main__'
FS_MUTATORS = {'remove', 'unlink', 'rename', 'replace', 'rmdir', 'removedirs', 'renames', 'truncate', 'chmod', 'chown', 'makedirs', 'mkdir', 'symlink', 'link',
               'rmtree', 'move', 'copy', 'copyfile', 'copy2', 'copytree', 'write_text', 'write_bytes', 'touch', 'utime', 'mkstemp', 'NamedTemporaryFile'}


def run(model, rep):
    rep.explanation = ('main() of the command line module is evaluated by the abstract interpreter inside a modelled environment (pmstatic.clirun; see C13) on a '
                       'directory tree with python files (.py, .pyw), other files (.txt, .pyc, .py.bak, no suffix), a nested directory and a symlinked '
                       'directory, as single file, several files, directory, and mixed argument lists. Per source the API answers shorter / longer / '
                       'equal / rejected, or the file is unreadable, at every position of the list. (SEL) exactly the python files below a directory '
                       'argument and the explicitly named files are read, in order, symlinked directories are followed. (WRT) the only files opened for '
                       'writing are a selected source under --in-place or the --output file, in binary mode; a syntactic scan finds no other file-system '
                       'mutation in the package. (CNT) what a file receives is the minified module for its own bytes, or its original bytes. (ORD) a destination is opened for writing only after minify() has returned for that source, so a file '
                       'whose minification fails is never truncated. (ERR) an unreadable file, a rejected source or an unlistable directory ends the run '
                       'with a failure status; files after it are neither read nor written. Not decided: atomicity of the final write against a crash.')
    for r, t in [('C15.SEL', 'exactly the .py/.pyw files below directory arguments and the named files are read, in order (enumerated)'),
                 ('C15.WRT', 'files opened for writing: selected source under --in-place, or --output; binary; no other fs mutation in the package'),
                 ('C15.CNT', 'every written file receives the complete minified module for its own bytes, or its original bytes'),
                 ('C15.ORD', 'the destination is opened for writing only after minify() returned for that source'),
                 ('C15.ERR', 'a failing file ends the run with a failure status; later files untouched; walk errors are not swallowed')]:
        rep.rule(r, t)
    main = model.func(MAIN + '.main')
    where = main.loc()
    modes = E.run_modes(model, rep.tier)
    E.report(rep, 'C15.SEL', where, modes, ('selection',), 'selection', 'exactly the selected python sources are read, in order', None)
    E.report(rep, 'C15.WRT', where, modes, ('destination', 'channel'), 'destinations', 'only selected sources (in place) or --output are opened for writing, in binary mode', None)
    E.report(rep, 'C15.CNT', where, modes, ('payload', 'size'), 'content', 'each file receives the minified module for its own bytes or keeps its original bytes', None)
    E.report(rep, 'C15.ORD', where, modes, ('order',), 'order', 'no destination is opened for writing before minify() returned for its source', None)
    E.report(rep, 'C15.ERR', where, modes, ('failure',), 'failures', 'a failing source ends the run with a failure status, later files untouched', None)
    for r in ('C15.SEL', 'C15.WRT', 'C15.CNT', 'C15.ORD', 'C15.ERR'):
        rep.floor(r, 9)
    # no other file-system mutation anywhere in the package
    n = 0
    for q, fi in sorted(model.funcs.items()):
        for c in calls(fi.node):
            f = c.func
            name = f.attr if isinstance(f, ast.Attribute) else (f.id if isinstance(f, ast.Name) else None)
            if name in FS_MUTATORS and isinstance(f, ast.Attribute) and src(f.value).split('.')[0] in ('os', 'shutil', 'pathlib', 'tempfile', 'Path'):
                n += 1
                rep.violation('C15.WRT', fi.loc(c), src(c)[:80], 'file-system mutation other than writing the destination', key='C15.WRT|fs|%s|%s' % (q, name))
    rep.ok('C15.WRT', 'src/python_minifier', 'scan of %d functions for file-system mutators' % len(model.funcs), 'none', cells=len(model.funcs), key='C15.WRT|scan')
