"""C02 - printed source re-parses to exactly the same tree (finite tables decided against CPython's own parser)."""
import ast
import copy
import itertools
import keyword
import multiprocessing
import os
import warnings

from ..absprint import MP, print_module, real_dump, same_tree
from ..astutil import const_value, calls, literal, local_defs
from ..model import AnalysisError, Model, src, walk_own
from .. import oracles

# ---------------------------------------------------------------------- probe tables (hand-written templates; one line per slot / child class)
CHILD = {
    'Name': 'c', 'Int': '1', 'Float': '1.5', 'Str': "'s'", 'Bytes': "b's'", 'NoneConst': 'None', 'Ellipsis': '...',
    'Tuple': 'c, d', 'Tuple1': 'c,', 'Tuple0': '()', 'StarTuple': '*c, d', 'List': '[c]', 'Dict': '{c: d}', 'Set': '{c}',
    'ListComp': '[c for c in d]', 'SetComp': '{c for c in d}', 'GeneratorExp': '(c for c in d)', 'DictComp': '{c: d for c in e}',
    'NamedExpr': 'c := d', 'Yield': 'yield c', 'Yield0': 'yield', 'YieldFrom': 'yield from c', 'Await': 'await c',
    'Lambda': 'lambda: c', 'LambdaArgs': 'lambda x, *y: c', 'IfExp': 'c if d else e', 'Or': 'c or d', 'And': 'c and d', 'Not': 'not c',
    'Compare': 'c < d', 'NotEq': 'c != d', 'In': 'c in d', 'NotIn': 'c not in d', 'Is': 'c is d', 'IsNot': 'c is not d', 'Chain': 'c < d < e',
    'BitOr': 'c | d', 'BitXor': 'c ^ d', 'BitAnd': 'c & d', 'LShift': 'c << d', 'RShift': 'c >> d',
    'Add': 'c + d', 'Sub': 'c - d', 'Mult': 'c * d', 'Div': 'c / d', 'MatMult': 'c @ d', 'Mod': 'c % d', 'FloorDiv': 'c // d',
    'USub': '-c', 'UAdd': '+c', 'Invert': '~c', 'Pow': 'c ** d', 'NegInt': '-1',
    'Call': 'c(d)', 'Attribute': 'c.d', 'Subscript': 'c[d]', 'Starred': '*c', 'JoinedStr': "f'{c}'", 'Slice': 'c:d',
}
CHILD_CONTEXT = {'Starred': ('[{}]', lambda v: v.elts[0]), 'Slice': ('a[{}]', lambda v: v.slice)}

SLOTS = {
    'Return.value': 'return {}', 'Assign.value': 't = {}', 'Assign.target': '{} = v', 'Assign.target2': 't = {} = v', 'AugAssign.value': 't += {}', 'AugAssign.target': '{} += v', 'Expr.value': '{}',
    'AnnAssign.annotation': 't: {} = v', 'AnnAssign.value': 't: a = {}', 'AnnAssign.target': '{}: a = v', 'For.iter': 'for t in {}: pass', 'For.target': 'for {} in v: pass',
    'AsyncFor.iter': 'async for t in {}: pass',
    'If.test': 'if {}: pass', 'Elif.test': 'if a: pass\n elif {}: pass', 'While.test': 'while {}: pass', 'Assert.test': 'assert {}', 'Assert.msg': 'assert t, {}',
    'Raise.exc': 'raise {}', 'Raise.cause': 'raise t from {}', 'Delete.target': 'del {}', 'Delete.target2': 'del a, {}',
    'With.item1': 'with {}: pass', 'With.item1as': 'with {} as t: pass', 'With.item2': 'with {}, t: pass', 'With.item2b': 'with t, {}: pass', 'With.vars': 'with t as {}: pass',
    'AsyncWith.item1': 'async with {}: pass',
    'Match.subject': 'match {}:\n  case _: pass', 'match_case.guard': 'match t:\n  case _ if {}: pass', 'MatchValue.value': 'match t:\n  case a.b | {}: pass',
    'Except.type': 'try: pass\n except {}: pass', 'ExceptStar.type': 'try: pass\n except* {}: pass', 'Decorator': '@{}\n def g(): pass', 'ClassDecorator': '@{}\n class g: pass',
    'ClassDef.base': 'class g({}): pass', 'ClassDef.base2': 'class g(a, {}): pass', 'ClassDef.kw': 'class g(k={}): pass', 'ClassDef.starstar': 'class g(**{}): pass',
    'arg.default': 'def g(a={}): pass', 'arg.kwdefault': 'def g(*, a={}): pass', 'arg.annotation': 'def g(a: {}): pass', 'vararg.annotation': 'def g(*a: {}): pass', 'returns': 'def g() -> {}: pass',
    'lambda.default': 't = lambda a={}: a',
    'Lambda.body': 't = lambda: {}', 'IfExp.body': 't = {} if a else b', 'IfExp.test': 't = a if {} else b', 'IfExp.orelse': 't = a if b else {}',
    'BoolOp.or.first': 't = {} or b', 'BoolOp.or.rest': 't = a or {}', 'BoolOp.and.first': 't = {} and b', 'BoolOp.and.rest': 't = a and {}',
    'Not.operand': 't = not {}', 'USub.operand': 't = -{}', 'Invert.operand': 't = ~{}', 'Compare.left': 't = {} < b', 'Compare.right': 't = a < {}', 'Compare.mid': 't = a < {} < b',
    'In.right': 't = a in {}', 'IsNot.right': 't = a is not {}',
    'BinOp.add.left': 't = {} + b', 'BinOp.add.right': 't = a + {}', 'BinOp.sub.right': 't = a - {}', 'BinOp.mult.left': 't = {} * b', 'BinOp.mult.right': 't = a * {}',
    'BinOp.div.right': 't = a / {}', 'BinOp.mod.left': 't = {} % b', 'BinOp.matmult.right': 't = a @ {}',
    'BinOp.pow.left': 't = {} ** b', 'BinOp.pow.right': 't = a ** {}', 'BinOp.bitor.left': 't = {} | b', 'BinOp.bitor.right': 't = a | {}', 'BinOp.bitxor.right': 't = a ^ {}',
    'BinOp.bitand.left': 't = {} & b', 'BinOp.lshift.left': 't = {} << b', 'BinOp.lshift.right': 't = a << {}',
    'Await.value': 't = await {}', 'Attribute.value': 't = {}.a', 'Subscript.value': 't = {}[a]', 'Subscript.slice': 't = a[{}]', 'Subscript.slice.elt': 't = a[{}, b]', 'Call.func': 't = {}(a)',
    'Call.arg': 't = a({}, b)', 'Call.solearg': 't = a({})', 'Call.kwvalue': 't = a(k={})', 'Call.starstar': 't = a(**{})', 'Call.star': 't = a(*{})', 'Starred.value': 't = [*{}]',
    'Dict.key': 't = {{{}: a}}', 'Dict.value': 't = {{a: {}}}', 'Dict.starstar': 't = {{**{}}}', 'List.elt': 't = [{}, a]', 'Set.elt': 't = {{{}, a}}', 'Tuple.elt': 't = ({}, a)', 'Tuple.sole': 't = ({},)',
    'ListComp.elt': 't = [{} for a in b]', 'GeneratorExp.elt': 't = ({} for a in b)', 'DictComp.key': 't = {{{}: a for a in b}}', 'DictComp.value': 't = {{a: {} for a in b}}',
    'comp.iter': 't = [a for a in {}]', 'comp.iter2': 't = [a for a in b for c in {}]', 'comp.if': 't = [a for a in b if {}]', 'comp.if2': 't = [a for a in b if c if {}]', 'comp.target': 't = [a for {} in b]',
    'Slice.lower': 't = a[{}:b]', 'Slice.upper': 't = a[b:{}]', 'Slice.step': 't = a[b:c:{}]',
    'NamedExpr.value': 't = (a := {})', 'Yield.value': 't = yield {}', 'YieldFrom.value': 't = yield from {}', 'Yield.stmt': 'yield {}',
    'FormattedValue.value': "t = f'{{{}}}'", 'FormattedValue.value.conv': "t = f'{{{}!r}}'", 'FormattedValue.spec': "t = f'{{a:{{{}}}}}'",
    'TypeAlias.value': 'type t = {}', 'TypeVar.bound': 'def g[T: {}](): pass',
    'Global-free stmt after': 'a = 1\n {}',
}

STMTS = {
    'Assign': 'a = b', 'AnnAssign': 'a: b = c', 'AugAssign': 'a += b', 'Expr': 'f(a)', 'ExprStr': "'doc'", 'ExprNum': '0', 'Delete': 'del a', 'Pass': 'pass', 'Import': 'import a', 'ImportFrom': 'from a import b',
    'ImportFromRel': 'from . import b', 'Global': 'global g1', 'Nonlocal': None, 'Assert': 'assert a', 'Return': 'return a', 'Return0': 'return', 'Raise': 'raise a', 'Raise0': 'raise',
    'YieldStmt': 'yield a', 'AwaitStmt': 'await a', 'TypeAlias': 'type T = a',
    'For': 'for a in b: pass', 'ForElse': 'for a in b: pass\nelse: pass', 'AsyncFor': 'async for a in b: pass', 'While': 'while a: pass', 'WhileElse': 'while a: pass\nelse: pass',
    'If': 'if a: pass', 'IfElse': 'if a: pass\nelse: pass', 'IfElif': 'if a: pass\nelif b: pass\nelse: pass', 'With': 'with a: pass', 'AsyncWith': 'async with a: pass',
    'Try': 'try: pass\nexcept a: pass', 'TryFinally': 'try: pass\nfinally: pass', 'TryFull': 'try: pass\nexcept a as b: pass\nelse: pass\nfinally: pass', 'TryStar': 'try: pass\nexcept* a: pass',
    'FunctionDef': 'def g(): pass', 'AsyncFunctionDef': 'async def g(): pass', 'ClassDef': 'class g: pass', 'Decorated': '@d\ndef g(): pass', 'Match': 'match a:\n  case 1: pass\n  case _: pass',
    'NestedIf': 'if a:\n  if b: pass\n  c = 1', 'NestedDef': 'def g():\n  def h(): pass\n  return h', 'Break': None, 'Continue': None,
}

LITERALS = ['0', '1', '7', '255', '256', '65535', '65536', '4294967296', '10000000000', '1000000000000000', '10000000000000000', '100000000000000000000', '0xdeadbeef12', '0o777', '0b1010',
            '1.0', '1.5', '0.5', '10.0', '100.0', '1000.0', '123000.0', '1200000.0', '1e22', '1e23', '1e-5', '1.5e-7', '1e100', '1e999', '0.1', '100.5', '5e-324', '1.7976931348623157e308', '0.0', '1e16', '123456789.0',
            '1j', '1.5j', '0j', '1e999j', '10j', '100000j', '0.5j', '1e-5j',
            "'a'", "''", '"it\'s"', "'a\"b'", "'\\n'", "'\\\\'", "'\\x00'", "'\\xe9'", "'\\u2028'", "'\\ud800'", "'a' 'b'", "b''", "b'a'", 'b"\'"', "b'\\\\'", "b'\\xff'", "b'\\n'",
            '0x' + 'f' * 5000, '1' + '0' * 4000,
            'None', 'True', 'False', '...', '-1', '-1.5', '-1j', '- -1', '+1', '~1', '-0.0', '1 + 2j', '(1).real', '1.5.real', '1j.real', '0x10.real', '1e5.real', '1 .real']

# systematic grids (deterministic): mantissa x exponent for floats, powers for ints, a few complex
for _m in ('1', '1.5', '1.25', '2.5', '1.2345678901234567', '9.999999999999998', '1.0000000000000002', '12345678901234568', '1.7', '4.2'):
    for _e in range(-12, 26, 1):
        LITERALS.append('%se%d' % (_m, _e))
for _k in range(0, 26):
    LITERALS.append(str(10 ** _k))
    LITERALS.append(str(2 ** (3 * _k)))
    LITERALS.append(str(16 ** _k - 1 if _k else 3))
for _c in ('1e16j', '1.5e16j', '12345678901234568j', '1e-7j', '123456.0j', '1e22j'):
    LITERALS.append(_c)
LITERALS = list(dict.fromkeys(LITERALS))

ADJ = ['c', '1', '0x1f', '1.5', '.5', '1e5', '1.', '1j', "'s'", "b's'", "f'{c}'", 'None', 'True', '(c)', '[c]', '{c}', '-1', 'not c', '...', 'c.d', '1e5j', '10', "''", 'lambda: c', '_', 'match', 'case', 'type']
ADJ_QUICK = ['c', '1', '0x1f', '1.5', '.5', '1e5', '1j', "'s'", "b's'", "f'{c}'", 'None', '(c)', '-1', 'not c', '_']
ADJ_TEMPLATES = ['t = {A} if {B} else c', 't = c if {A} else {B}', 't = {A} in {B}', 't = {A} is not {B}', 't = {A} not in {B}', 't = {A} and {B}', 't = {A} or {B}', 't = not {A}',
                 't = lambda: {A}', 'return {A}', 't = [{A} for x in {B}]', 't = [x for x in {A} if {B}]', 'assert {A}, {B}', 'del c[{A}]', 'raise c from {A}', 'yield {A}', 't = await {A}',
                 'for x in {A}: pass', 'while {A}: pass', 'if {A}: pass', 'with {A} as w: pass', 'match {A}:\n  case {CASE}: pass', 't = c({A})[{B}]', 't = {{{A}: {B}}}', 't = c[{A}:{B}]', 'type T = {A}',
                 "t = f'{{{A}}}'", "t = f'{{c if {A} else {B}}}'", "t = f'{{{A} in {B}}}'", "t = f'{{not {A}}}'", "t = f'{{c:{{{A}}}}}'", "t = f'{{{A}!r:>{{{B}}}}}'", "t = f'x{{{A}}}y{{{B}}}z'",
                 't = print({A}, {B})', 'global g1\n {A}', 'import x\n {A}']
PATTERNS = ['1', '-1', '1.5', '1j', '1 + 2j', "'s'", "b's'", 'None', 'True', 'c', '_', 'c.d', '[c, d]', '[c]', '[]', '(c, d)', '[c, *d]', '[*_]', '{1: c}', "{'k': c, **r}", '{}', 'C()', 'C(c)', 'C(c, k=d)', 'C(k=1)',
            'c | d', '1 | 2 | 3', '(c | d) as e', '[c, d] as e', 'c as d', '(1 | 2) | 3', '(1 as y) | (2 as y)', '[(1 as y) | 2]', '(c.d as y) | 0', 'C((1 as y) | 2)', '[1 | 2, 3]', 'C(1 | 2)', '{1: 2 | 3}', "f.g | 'x'", '*c, d', 'c, d', 'c,']


# ---------------------------------------------------------------------- cell construction
class Hole(ast.NodeTransformer):
    def __init__(self, child):
        self.child = child
        self.done = 0

    def visit_Name(self, n):
        if n.id == 'HOLE':
            self.done += 1
            new = copy.deepcopy(self.child)
            if isinstance(n.ctx, (ast.Store, ast.Del)):
                set_ctx(new, n.ctx)
            return new
        return n


def set_ctx(node, ctx):
    if isinstance(node, (ast.Name, ast.Attribute, ast.Subscript)):
        node.ctx = type(ctx)()
    elif isinstance(node, (ast.Tuple, ast.List)):
        node.ctx = type(ctx)()
        for e in node.elts:
            set_ctx(e, ctx)
    elif isinstance(node, ast.Starred):
        node.ctx = type(ctx)()
        set_ctx(node.value, ctx)


def child_node(name, text):
    if name in CHILD_CONTEXT:
        tpl, pick = CHILD_CONTEXT[name]
        try:
            return pick(ast.parse('t = ' + tpl.format(text)).body[0].value)
        except SyntaxError:
            return None
    wrap = 'async def _f_():\n t = (%s)\n' if 'await' in text else 'def _f_():\n t = (%s)\n'
    try:
        return ast.parse(wrap % text).body[0].body[0].value
    except SyntaxError:
        return None


def build_program(template, child_text, child_name):
    """The intended tree for `template` with the child substituted for the hole; None when the combination is not a program."""
    node = child_node(child_name, child_text)
    if node is None:
        return None
    needs_async = 'await' in child_text or 'await' in template or 'async' in template
    if 'yield from' in child_text or 'yield from' in template:
        if needs_async:
            return None
        pre = 'def _f_():\n '
    else:
        pre = 'async def _f_():\n ' if needs_async else 'def _f_():\n '
    try:
        t = ast.parse(pre + template.format('HOLE') + '\n')
    except (SyntaxError, IndexError, KeyError):
        return None
    h = Hole(node)
    t = h.visit(t)
    if h.done != 1:
        return None
    ast.fix_missing_locations(t)
    return t


def representable(tree):
    """Is the tree the parse of some source text?  (CPython's compiler accepts it and CPython's own unparser round-trips it.)"""
    try:
        with warnings.catch_warnings():
            warnings.simplefilter('ignore')
            compile(tree, 'probe', 'exec', dont_inherit=True)
    except Exception:
        return False
    try:
        text = ast.unparse(tree)
        back = ast.parse(text)
    except Exception:
        return False
    return same_tree(tree, back)


_MODEL = None


def _init(root, overlay):
    global _MODEL
    _MODEL = Model(root=root, overlay=overlay)


def eval_cell(cell):
    """cell = (kind, label, source or (template, child name)) -> (label, status, detail)"""
    kind, label, payload = cell
    try:
        if kind == 'slot':
            template, cname = payload
            tree = build_program(template, CHILD[cname], cname)
        elif kind == 'fslot':
            # the slot with its child as the expression of an f-string replacement field: `t = <expr>` becomes t = f'{<expr>}', f'{<expr>!r}', f'{<expr>:>{w}}'
            template, cname, wrapper = payload
            tree = build_program(template, CHILD[cname], cname)
            if tree is not None:
                assign = tree.body[0].body[0]
                if not isinstance(assign, ast.Assign):
                    tree = None
                else:
                    spec = None
                    if wrapper == 'spec':
                        spec = ast.JoinedStr(values=[ast.Constant(value='>'), ast.FormattedValue(value=ast.Name(id='w', ctx=ast.Load()), conversion=-1, format_spec=None)])
                    fv = ast.FormattedValue(value=assign.value, conversion=114 if wrapper == 'conv' else -1, format_spec=spec)
                    values = [fv] if wrapper != 'text' else [ast.Constant(value='a '), fv, ast.Constant(value=' b')]
                    assign.value = ast.JoinedStr(values=values)
                    ast.fix_missing_locations(tree)
                    if not representable(tree):
                        return (label, 'skip', 'not representable')
        else:
            try:
                tree = ast.parse(payload)
            except SyntaxError:
                tree = None
        if tree is None:
            return (label, 'skip', 'not a program')
        if kind == 'slot' and not representable(tree):
            ok = False
            if kind == 'slot':
                # CPython's unparser itself mis-prints a few cells (a sole parenthesised tuple as with-item): try explicit parentheses
                for text in ('(%s)' % CHILD[payload[1]], '((%s))' % CHILD[payload[1]]):
                    for pre in ('def _f_():\n ', 'async def _f_():\n '):
                        try:
                            alt = ast.parse(pre + payload[0].format(text) + '\n')
                        except SyntaxError:
                            continue
                        if same_tree(alt, tree):
                            try:
                                with warnings.catch_warnings():
                                    warnings.simplefilter('ignore')
                                    compile(alt, 'probe', 'exec', dont_inherit=True)
                                ok = True
                            except Exception:
                                pass
            if not ok:
                return (label, 'skip', 'not representable')
        r = print_module(_MODEL, tree)
        if r[0] == 'undecided':
            return (label, 'undecided', r[1])
        if r[0] == 'raise':
            return (label, 'bad', 'printer raises %s' % r[1])
        text = r[1]
        try:
            back = ast.parse(text)
        except SyntaxError as e:
            return (label, 'bad', 'output %r does not parse (%s)' % (text[-60:], e.msg))
        if not same_tree(tree, back):
            return (label, 'bad', 'output %r parses to a different tree' % text[-70:])
        return (label, 'ok', text)
    except AnalysisError as e:
        return (label, 'undecided', str(e))
    except RecursionError:
        return (label, 'undecided', 'recursion limit')


def run_cells(model, cells, jobs=None):
    # Worker processes forked from the checker (whose interpreter thread already has its large first frame, see pmstatic.fatstack); a variant
    # run by the battery is itself a pool worker and evaluates its cells in process.
    if jobs is None:
        jobs = int(os.environ.get('PMSTATIC_JOBS', '0')) or (1 if multiprocessing.current_process().daemon else min(8, os.cpu_count() or 1))
    if len(cells) < 40 or jobs <= 1:
        _init(model.root, model.overlay)
        return [eval_cell(c) for c in cells]
    ctx = multiprocessing.get_context('fork')
    with ctx.Pool(jobs, initializer=_init, initargs=(model.root, model.overlay)) as pool:
        return pool.map(eval_cell, cells, chunksize=max(1, len(cells) // (jobs * 8)))


def report_cells(rep, rule, results, where, group_of, floor):
    groups = {}
    undecided = []
    n_ok = n_skip = 0
    for (label, status, detail) in results:
        g = group_of(label)
        groups.setdefault(g, {'ok': 0, 'bad': []})
        if status == 'ok':
            groups[g]['ok'] += 1
            n_ok += 1
        elif status == 'bad':
            groups[g]['bad'].append((label, detail))
        elif status == 'undecided':
            undecided.append((label, detail))
        else:
            n_skip += 1
    if undecided:
        raise AnalysisError('UNDECIDED: %d %s cells could not be evaluated, e.g. %s: %s' % (len(undecided), rule, undecided[0][0], undecided[0][1]))
    for g in sorted(groups):
        d = groups[g]
        if d['bad']:
            # one finding per failing cell (keyed by the cell, so that a listed known finding never hides another cell of its group); a group with
            # many failing cells is summarised after the first six
            for i_, (label, detail) in enumerate(d['bad'][:6]):
                more = '' if i_ or len(d['bad']) <= 6 else ' (+%d more cells of this group: %s)' % (len(d['bad']) - 6, '; '.join(l for l, _ in d['bad'][6:9]))
                rep.violation(rule, where, label, detail + more, key='%s|%s' % (rule, label), cells=(d['ok'] + len(d['bad'])) if i_ == 0 else 1)
        else:
            rep.ok(rule, where, g, '%d cells re-parse to the intended tree' % d['ok'], cells=d['ok'], key='%s|%s' % (rule, g))
    rep.count(rule + '_cells', {'evaluated': n_ok + sum(len(d['bad']) for d in groups.values()), 'skipped_not_programs': n_skip})
    rep.floor(rule + '#cells', floor, n_ok + sum(len(d['bad']) for d in groups.values()))


# ---------------------------------------------------------------------- rules
def run(model, rep):
    rep.explanation = ('Printing is syntax directed, so round-tripping reduces to finite tables, each decided against CPython\'s own parser: (EX) every ASDL class has a handler and every '
                       'statement class a dispatch entry; compound statements are known to the layout code. (ENUM1) for every (syntactic slot x child class) cell - %d slot templates x %d '
                       'child classes - the intended tree is built by substituting the child into the slot, the printer classes are run by the abstract interpreter on its descriptor, and the '
                       'text must parse back to exactly that tree. (LAY) every ordered pair of statement forms at module level, in a function body and in a nested block. (ENUM2) adjacency '
                       'probes put every pair of literal / keyword / identifier token classes next to each other, also inside f-string replacement fields. (NUM) a sample of numeric, string '
                       'and bytes literal spellings must denote the identical constant (type, value, sign). (PAT) match patterns. Not decided: literal spellings beyond the sampled values; '
                       'interpreters other than the one running the check.' % (len(SLOTS), len(CHILD)))
    for r, t in [('C02.EX1', 'every ASDL node class has a print path'), ('C02.EX2', 'statement dispatch table covers every statement class'), ('C02.TAB1', 'compound statement list complete'),
                 ('C02.TAB3', 'every operator class has a precedence entry'), ('C02.KEYW', 'keyword / soft keyword tables agree with the interpreter'),
                 ('C02.ENUM1', 'slot x child-class cells re-parse to the intended tree'), ('C02.LAY', 'statement sequences re-parse'), ('C02.ENUM2', 'token adjacency probes re-parse'),
                 ('C02.NUM', 'sampled literal spellings denote the identical constant'), ('C02.PAT', 'match patterns re-parse')]:
        rep.rule(r, t)
    static_tables(model, rep, 'C02')
    enumerate_all(model, rep, 'C02')


def static_tables(model, rep, P):
    A = oracles.asdl()
    printer_methods = model.methods(MP)
    mp_path = model.cls(MP).path
    # EX1 (a handler may be a method, a class-level alias, built by a factory in the class body, or installed with setattr at module level: the
    # look-up is the interpreter's)
    from ..absint import Interp as _I, ClassRef as _C, _MISSING
    _interp = _I(model, 'python_minifier.module_printer', {})
    _probe = []

    def has_member(name):
        if not _probe:
            res = _interp.explore(lambda: _interp.construct(_C('ModulePrinter', MP), [], {}))
            _probe.append(res[0][0][1] if res and res[0][0][0] == 'return' else None)
        o = _probe[0]
        if o is None:
            return False
        r = _interp.explore(lambda: _interp.member(o, name) is not _MISSING)
        return bool(r and r[0][0][0] == 'return' and r[0][0][1] is True)
    inline = {'FormattedValue': 'python_minifier.f_string.FormattedValue', 'Load': None, 'Store': None, 'Del': None, 'TypeIgnore': None, 'Interactive': None, 'FunctionType': None}
    n = 0
    for name, c in sorted(A.items()):
        if c.sort in ('expr_context', 'type_ignore') or (c.sort == 'mod' and name != 'Module' and name != 'Expression'):
            continue
        n += 1
        if name == 'FormattedValue':
            ok = inline['FormattedValue'] in model.classes and 'visit_JoinedStr' in printer_methods
            rep.check(ok, P + '.EX1', mp_path, 'FormattedValue', 'printed by the f-string module', 'no print path for FormattedValue', key=P + '.EX1|FormattedValue')
            continue
        rep.check('visit_' + name in printer_methods or has_member('visit_' + name), P + '.EX1', mp_path, name, 'visit_%s' % name, 'node class %s of the interpreter\'s grammar has no handler: printing it raises RuntimeError(Unknown node)' % name, key=P + '.EX1|' + name)
    rep.floor(P + '.EX1', 95)
    # EX2 / TAB1
    sb = model.func(MP + '._suite_body')
    keys = None
    cands = [n_.value for n_ in walk_own(sb.node) if isinstance(n_, ast.Assign)] + [n_.value for n_ in walk_own(sb.node) if isinstance(n_, ast.Subscript)]
    for c_ in cands:
        try:
            v = const_value(model, sb, c_)
        except (ValueError, TypeError):
            continue
        if isinstance(v, dict) and 'If' in v:
            keys = v
    if keys is None:
        rep.note('%s.EX2: no literal statement dispatch table in _suite_body; whether every statement class is printed is decided by the ENUM1 cells' % P)
    else:
        for name in oracles.classes_of('stmt') + ['match_case']:
            rep.check(keys.get(name) in ('self.visit_' + name, 'visit_' + name), P + '.EX2', sb.loc(), 'statements[%r] = %s' % (name, keys.get(name)), 'dispatches to its handler',
                      'statement class %s %s' % (name, 'is missing from the dispatch table (KeyError when printed)' if name not in keys else 'is dispatched to %s' % keys[name]), key=P + '.EX2|' + name)
    if keys is not None:
        rep.floor(P + '.EX2', 28)
    su = model.func(MP + '._suite')
    comp = None
    for n_ in walk_own(su.node):
        if isinstance(n_, ast.Compare) and len(n_.ops) == 1 and isinstance(n_.ops[0], (ast.In, ast.NotIn)):
            try:
                v = const_value(model, su, n_.comparators[0])
            except (ValueError, TypeError):
                continue
            if isinstance(v, (list, tuple, set)) and 'If' in v:
                comp = set(v)
    if comp is None:
        rep.note('%s.TAB1: no literal compound-statement table is consulted in _suite; the block layout of every compound statement is decided by the LAY cells' % P)
    else:
        for name, c in sorted(A.items()):
            if (c.sort == 'stmt' and c.stmt_list_fields()) or name == 'match_case':
                rep.check(name in comp, P + '.TAB1', su.loc(), 'compound_statements contains ' + name, 'block layout used', 'compound statement %s is missing: it would be joined to the previous statement with a semicolon' % name, key=P + '.TAB1|' + name)
    if comp is not None:
        rep.floor(P + '.TAB1', 13)
    # TAB3
    init = model.func('python_minifier.expression_printer.ExpressionPrinter.__init__')
    prec = None
    try:
        prec = const_value(model, init, ast.parse('self.precedences', mode='eval').body)
    except (ValueError, TypeError):
        rep.note('%s.TAB3: no literal precedence table self.precedences; operator printing is decided by the ENUM1 cells' % P)
    if prec is not None:
        for name in oracles.classes_of('operator', 'unaryop', 'boolop', 'cmpop'):
            rep.check(name in prec, P + '.TAB3', init.loc(), 'precedences[%r]' % name, 'present', 'operator class %s has no precedence entry (KeyError when printed)' % name, key=P + '.TAB3|' + name)
    if prec is not None:
        rep.floor(P + '.TAB3', 29)
    # KEYW
    kwf = model.func('python_minifier.token_printer.TokenPrinter.keyword')
    allowed = soft = None
    for n_ in walk_own(kwf.node):
        if isinstance(n_, ast.Compare) and len(n_.ops) == 1 and isinstance(n_.ops[0], (ast.In, ast.NotIn)):
            try:
                v = const_value(model, kwf, n_.comparators[0])
            except (ValueError, TypeError):
                continue
            if not isinstance(v, (list, tuple, set)):
                continue
            if 'if' in v and 'while' in v:
                allowed = set(v)
            elif 'match' in v or 'case' in v:
                soft = set(v)
    if allowed is None:
        rep.note('%s.KEYW: no literal keyword table in TokenPrinter.keyword; every keyword is exercised by the ENUM1 cells' % P)
    else:
        missing = set(keyword.kwlist) - allowed
        rep.check(not missing, P + '.KEYW', kwf.loc(), 'keyword() accepts every hard keyword', '%d keywords' % len(allowed), 'keywords %s are rejected by the token printer' % sorted(missing), key=P + '.KEYW|hard')
    if soft is None:
        rep.note('%s.KEYW: no literal soft keyword table in TokenPrinter.keyword; separation after match / case / type is decided by the ENUM2 adjacency cells' % P)
    else:
        rep.check(soft >= set(keyword.softkwlist), P + '.KEYW', kwf.loc(), 'soft keywords %s' % sorted(soft), 'cover the interpreter\'s soft keyword list',
                  'soft keyword set %s lacks %s of the interpreter\'s soft keywords: a number or string after such a keyword is not separated from it' % (sorted(soft), sorted(set(keyword.softkwlist) - soft)), key=P + '.KEYW|soft')


QUICK_CHILD = ['Name', 'Int', 'Str', 'Tuple', 'Tuple1', 'Tuple0', 'StarTuple', 'List', 'Dict', 'GeneratorExp', 'NamedExpr', 'Yield', 'YieldFrom', 'Await', 'Lambda', 'IfExp', 'Or', 'And', 'Not',
               'Compare', 'NotIn', 'BitOr', 'BitAnd', 'LShift', 'Add', 'Mult', 'USub', 'Pow', 'NegInt', 'Call', 'Attribute', 'Starred', 'JoinedStr', 'Slice', 'DictComp', 'Set']
OPERATOR_SLOTS = ['BinOp', 'BoolOp', 'Compare', 'Not.', 'USub.', 'Invert.', 'Await.', 'IfExp', 'In.', 'IsNot.', 'Starred', 'Call.star', 'Dict.starstar', 'Attribute.value', 'Subscript.value', 'Call.func']
OPERATOR_CHILD = ['BitXor', 'RShift', 'Sub', 'Div', 'Mod', 'FloorDiv', 'MatMult', 'UAdd', 'Invert', 'In', 'Is', 'IsNot', 'Chain', 'Float']
FIELD_CHILD = ['Name', 'Lambda', 'LambdaArgs', 'IfExp', 'NamedExpr', 'Dict', 'Set', 'DictComp', 'SetComp', 'Str', 'JoinedStr', 'NotEq', 'Compare', 'Yield', 'Await', 'Tuple', 'StarTuple', 'GeneratorExp', 'Not', 'NegInt']
QUICK_STMTS = ['Assign', 'Expr', 'ExprStr', 'Pass', 'Import', 'Global', 'Return', 'YieldStmt', 'For', 'WhileElse', 'IfElif', 'With', 'TryFull', 'FunctionDef', 'ClassDef', 'Decorated', 'Match', 'NestedIf', 'TypeAlias']


FSTRING_PARTS = ['\x007', '\x00', '\x000 ', 'a\x001b', '\x008', '\\', '\\n', '\\x41', '{', '}', '{}', '{{c}}', "'", '"', '\'"', "'''", '"""', '\n', '\r', '\r\n', '\t', '\x7f', '\x1b[0m', '\xe9', '\u2028', '\\N{BULLET}',
                 '\u2022', '#', '%s', ' ', '\x0c', '\\', 'a\\', '\\0', '\\07', '\x07', '\x01', '\ud800']


def all_cells(tier):
    cells = []
    quick = tier != 'thorough'
    for sname, tpl in SLOTS.items():
        children = list(CHILD) if not quick else list(QUICK_CHILD)
        if quick and any(k in sname for k in OPERATOR_SLOTS):
            children += [c for c in OPERATOR_CHILD if c not in children]
        for cname in children:
            cells.append(('slot', 'slot %s <- %s' % (sname, cname), (tpl, cname)))
    # the same table inside an f-string replacement field (the field printer is a printer of its own: `:` `!` `=` `{` and quotes mean something there)
    for sname, tpl in SLOTS.items():
        if not tpl.startswith('t = '):
            continue
        for cname in (list(CHILD) if not quick else FIELD_CHILD):
            for wrapper in (('plain', 'conv', 'spec', 'text') if not quick or cname in ('Lambda', 'IfExp', 'NamedExpr', 'Dict') else ('plain',)):
                cells.append(('fslot', 'slot f-string field (%s) <- %s <- %s' % (wrapper, sname, cname), (tpl, cname, wrapper)))
    stm = {k: v for k, v in STMTS.items() if v and (not quick or k in QUICK_STMTS)}
    for (a, sa), (b, sb_) in itertools.product(stm.items(), repeat=2):
        cells.append(('prog', 'lay module: %s ; %s' % (a, b), sa + '\n' + sb_ + '\n'))
        ind = lambda s: '\n'.join('  ' + l for l in s.split('\n'))
        if 'return' in sa or 'return' in sb_ or 'yield' in sa or 'yield' in sb_ or 'await' in sa or 'await' in sb_ or 'async' in sa or 'async' in sb_ or 'global' in sa or 'global' in sb_:
            pass
        cells.append(('prog', 'lay function: %s ; %s' % (a, b), 'async def _f_():\n' + ind(sa) + '\n' + ind(sb_) + '\n'))
    for a, sa in stm.items():
        ind = lambda s, n=1: '\n'.join('  ' * n + l for l in s.split('\n'))
        cells.append(('prog', 'lay nested: if/else around %s' % a, 'async def _f_():\n  if x:\n' + ind(sa, 2) + '\n  else:\n' + ind(sa, 2) + '\n  z = 1\n'))
        cells.append(('prog', 'lay nested: try/finally around %s' % a, 'async def _f_():\n  try:\n' + ind(sa, 2) + '\n  finally:\n' + ind(sa, 2) + '\n'))
        cells.append(('prog', 'lay nested: loop-else around %s' % a, 'async def _f_():\n  for i in j:\n' + ind(sa, 2) + '\n  else:\n' + ind(sa, 2) + '\n' + ind(sa, 1) + '\n'))
        cells.append(('prog', 'lay nested: class body %s' % a, 'class K:\n' + ind(sa.replace('return a', 'pass').replace('return', 'pass').replace('yield a', 'pass').replace('await a', 'pass').replace('async ', '').replace('global g1', 'pass'), 1) + '\nz = 1\n'))
        cells.append(('prog', 'lay nested: match case %s' % a, 'async def _f_():\n  match x:\n    case 1:\n' + ind(sa, 3) + '\n    case _:\n' + ind(sa, 3) + '\n'))
    for lit in LITERALS:
        short = lit if len(lit) < 30 else lit[:12] + '...(%d digits)' % len(lit)
        cells.append(('prog', 'num %s' % short, 'x = %s\n' % lit))
        if len(lit) < 30 and ('e' not in lit or lit.count('e') and len(lit) < 8):
            cells.append(('prog', 'num [%s, %s]' % (short, short), 'x = [%s, %s] if %s else %s\n' % (lit, lit, lit, lit)))
    # literals that compare equal but are different constants, next to each other in one module, in both orders (nothing the printer remembers about
    # one literal may leak into the next)
    for group in EQUAL_LITERALS:
        for a in group:
            for b in group:
                if a != b:
                    cells.append(('prog', 'num pair %s then %s' % (a, b), 'x = [%s, %s, %s]\ny = %s\nz = f"{%s}{%s}"\n' % (a, b, a, b, a, b)))
    # f-string text that spells an expression followed by `=` and a field with !r: the printer may use the debug form {expr=} only when the
    # field's expression is that very expression (the text `2.0=` in front of {2!r} is not)
    for text_, expr in (('2.0', '2'), ('2', '2.0'), ('1', 'True'), ('True', '1'), ('0', '0.0'), ('0j', '0'), ('a', 'a'), ('a', 'b'), ('2', '2'), ('1+1', '2'), ("'s'", "'s'"), ("'s'", "b's'"), ('a.b', 'a.b'), ('a .b', 'a.b')):
        cells.append(('prog', 'num debug specifier %s= before {%s!r}' % (text_, expr), 'x = f"%s={%s!r}"\ny = f"t {%s!r} %s={%s!r:>4}"\n' % (text_, expr, expr, text_, expr)))
    adj = ADJ if tier == 'thorough' else ADJ_QUICK
    for tpl in ADJ_TEMPLATES:
        two = '{B}' in tpl
        for a in adj:
            for b in ((adj if not quick else ['c', '1', "b's'", '.5', "f'{c}'", 'not c']) if two else ['c']):
                case = a if a in ('1', "'s'", 'None', 'c', '_', '-1', '1.5', '1j', 'c.d', "b's'", 'True') else '_'
                try:
                    text = tpl.replace('{A}', a).replace('{B}', b).replace('{CASE}', case).replace('{{', '{').replace('}}', '}')
                except Exception:
                    continue
                cells.append(('prog', 'adj %s | %s | %s' % (tpl.split('\n')[0], a, b if two else ''), 'async def _f_():\n ' + text + '\n'))
    # f-strings: tricky literal text next to replacement fields (escapes that change meaning when a digit / brace / quote follows)
    for part in FSTRING_PARTS:
        for shape in ('after', 'before', 'between'):
            if quick and shape == 'between':
                continue
            fv = lambda n: ast.FormattedValue(value=ast.Name(id=n, ctx=ast.Load()), conversion=-1, format_spec=None)
            values = {'after': [fv('c'), ast.Constant(value=part)], 'before': [ast.Constant(value=part), fv('c')], 'between': [fv('c'), ast.Constant(value=part), fv('d')]}[shape]
            tree = ast.Module(body=[ast.Assign(targets=[ast.Name(id='t', ctx=ast.Store())], value=ast.JoinedStr(values=values))], type_ignores=[])
            try:
                source = ast.unparse(ast.fix_missing_locations(tree)) + '\n'
                ast.parse(source)
            except Exception:
                continue
            cells.append(('prog', 'num f-string text %r %s a field' % (part, shape), source))
    # constants nested inside replacement fields: str / bytes with every escape class (NUL, backslash, line ends, both quotes, braces, non-ASCII,
    # control characters), alone, with quoted text around the field, as a call argument, a subscript, in a nested f-string and in a format spec
    nested_values = ['\0', 'a\0b', '\0' + '1', '\\', 'a\\b', 'a\\', '\\n', '\n', '\r', '\t', "'", '"', "'\"", "'''", '\"\"\"', '\xe9', '\x7f', '\x1b', '{', '}', '{}', '', ' ',
                     b'\\', b'a\\b', b'\0', b'\n', b'\r', b"'", b'"', b"'\"", b'\xff', b'\x80a', b'{', b'', b'\t']
    if quick:
        nested_values = nested_values[::2] + [b'\\', '\0']
    for v_ in nested_values:
        const = lambda: ast.Constant(value=v_)
        fv = lambda inner, conv=-1, spec=None: ast.FormattedValue(value=inner, conversion=conv, format_spec=spec)
        name = lambda n: ast.Name(id=n, ctx=ast.Load())
        shapes = {
            'alone': [fv(const())],
            'quoted text around': [ast.Constant(value="it's \"q\" "), fv(const(), 114), ast.Constant(value=" '")],
            'call argument': [fv(ast.Call(func=name('g'), args=[const()], keywords=[]))],
            'subscript': [fv(ast.Subscript(value=name('d'), slice=const(), ctx=ast.Load()))],
            'nested f-string': [fv(ast.JoinedStr(values=[ast.Constant(value='n '), fv(const())]))],
            'comparison': [fv(ast.Compare(left=name('c'), ops=[ast.Eq()], comparators=[const()]))],
        }
        if isinstance(v_, str) and v_:
            shapes['format spec'] = [fv(name('c'), -1, ast.JoinedStr(values=[fv(const())]))]
        for sl, values in shapes.items():
            tree = ast.Module(body=[ast.Assign(targets=[ast.Name(id='t', ctx=ast.Store())], value=ast.JoinedStr(values=values))], type_ignores=[])
            try:
                source = ast.unparse(ast.fix_missing_locations(tree)) + '\n'
                if ast.dump(ast.parse(source)) != ast.dump(ast.parse(ast.unparse(ast.parse(source)))) or ast.dump(ast.parse(source).body[0].value) != ast.dump(tree.body[0].value):
                    continue           # the interpreter's own unparser does not give this tree back: not a probe
            except Exception:
                continue               # not representable as source on this interpreter (a backslash inside a field before 3.12)
            cells.append(('prog', 'num constant %r inside a replacement field, %s' % (v_, sl), source))
    for p in PATTERNS:
        cells.append(('prog', 'pat case %s' % p, 'match x:\n  case %s: pass\n' % p))
        cells.append(('prog', 'pat case %s if g' % p, 'match x:\n  case %s if g: pass\n  case _: pass\n' % p))
        cells.append(('prog', 'pat nested [%s, y]' % p, 'match x:\n  case [%s, y]: pass\n' % p))
        cells.append(('prog', 'pat or %s | 0' % p, 'match x:\n  case %s | 0: pass\n' % p))
        cells.append(('prog', 'pat as (%s) as z' % p, 'match x:\n  case (%s) as z: pass\n' % p))
        cells.append(('prog', 'pat class C(%s)' % p, 'match x:\n  case C(%s): pass\n' % p))
        cells.append(('prog', 'pat mapping {1: %s}' % p, 'match x:\n  case {1: %s}: pass\n' % p))
    return cells


EQUAL_LITERALS = [['0', '0.0', '0j', 'False'], ['1', '1.0', 'True', '1e0'], ['2', '2.0', '2e0'], ['10000000000000000', '1e16'], ['255', '0xff', '255.0'],
                  ["'a'", "b'a'"], ["''", "b''"], ['0.0', '-0.0'], ['0j', '-0j'], ['100', '1e2', '100.0'], ['None', "'None'"], ['1j', '1.0j']]


def enumerate_all(model, rep, P):
    cells = all_cells(rep.tier)
    results = run_cells(model, cells)
    where = 'src/python_minifier/{module,expression,token}_printer.py, f_string.py'
    by = {'slot': [], 'lay': [], 'num': [], 'adj': [], 'pat': []}
    for r in results:
        by[r[0].split(' ')[0]].append(r)
    thorough = rep.tier == 'thorough'
    report_cells(rep, P + '.ENUM1', by['slot'], where, lambda l: l.split(' <- ')[0], 4500 if thorough else 2500)
    report_cells(rep, P + '.LAY', by['lay'], where, lambda l: l.split(':')[0] + ': ' + l.split(': ')[1].split(' ;')[0].split(' around')[0].split(' body')[0].split(' case')[0], 2500 if thorough else 600)
    report_cells(rep, P + '.NUM', by['num'], where, lambda l: 'literal spellings', 500)
    report_cells(rep, P + '.ENUM2', by['adj'], where, lambda l: l.split(' | ')[0], 10000 if thorough else 1500)
    report_cells(rep, P + '.PAT', by['pat'], where, lambda l: l.split(' ')[1], 150)
