"""C16 - shebang, source encoding and line endings (structural clauses)."""
import ast
import os

from ..astutil import calls, kwarg, local_defs, expanded_facts
from ..facts import Facts, fact_texts
from ..model import AnalysisError, src, walk_own
MAIN = 'python_minifier.__main__'

MINIFY = 'python_minifier.minify'


def pattern_text(e):
    """(kind, text) of a str/bytes regex literal"""
    if isinstance(e, ast.Constant) and isinstance(e.value, (str, bytes)):
        v = e.value
        return ('bytes', v.decode('latin-1')) if isinstance(v, bytes) else ('str', v)
    return (None, None)


def run(model, rep):
    rep.explanation = ('Decides: (BYTES) the source argument of minify reaches ast.parse untouched (so the interpreter itself handles BOM, coding cookie and '
                       'line endings), the CLI reads files and stdin in binary mode; (ENC) the CLI encodes the result as strict UTF-8; (SHEB) the text and bytes arms '
                       'of the shebang finder use the same pattern, the prefix is attached only under preserve_shebang and only as line + newline + result; '
                       '(DEC) every bytes->text conversion of input data on the minify path names a codec that cannot fail or the declared source encoding; '
                       '(REPR) string and bytes literals are spelled through repr. Not decided: that the spelling denotes the same constants for every codec.')
    for r, t in [('C16.BYTES', 'source parameter -> ast.parse unmodified; binary reads in the CLI'),
                 ('C16.ENC', 'do_minify returns <minify result>.encode("utf-8") (strict)'),
                 ('C16.SHEB', 'both arms same pattern, anchored at start; prefix only under preserve_shebang; shape line+"\\n"+minified; only returns of minify'),
                 ('C16.DEC', 'no strict implicit-codec decode of input-derived bytes on the minify path'),
                 ('C16.REPR', 'string/bytes literal text derives from repr(value)')]:
        rep.rule(r, t)
    mi = model.func(MINIFY)
    F = Facts(mi.node)
    defs = local_defs(mi.node)
    srcp = mi.positional[0]

    # ---- BYTES
    # minify() evaluated with recorders (pmstatic.apirun): the object handed to the interpreter's parser is the caller's source itself, text or bytes
    from .. import apirun
    ODD = 'a = "p\ufeffq"\nb = "\xa0r\u200bs\x7f"\nc = b"t\x0cu"\nd = f"v\ufeff{a}w\u2028\x1a"\n'
    TRIPLE = 'a = """l1 \t\r\nl2\t \rl3  """\nb = 1\\\r\n + 2\r\n'
    LOOKALIKE = 's = """\n# -*- coding: latin-1 -*-\n#!/bin/sh\n"""\nt = "\xe9"\n'
    sources = [('text', 'x = "caf\xe9"\r\n'), ('bytes with a latin-1 cookie and CR line ends', b'# -*- coding: latin-1 -*-\rx = "\xe9"\r'), ('bytes with a BOM', b'\xef\xbb\xbfx = 1\n'),
               ('text with U+FEFF, NBSP, zero-width space, DEL, form feed, U+2028 and SUB inside literals', ODD), ('the same as UTF-8 bytes', ODD.encode('utf-8')),
               ('the same as UTF-8 bytes with a BOM', b'\xef\xbb\xbf' + ODD.encode('utf-8')),
               ('text: triple-quoted literal with CR LF, CR, tabs and trailing blanks; continuation line', TRIPLE), ('the same as bytes', TRIPLE.encode('utf-8')),
               ('text: a literal that looks like a coding cookie and a shebang', LOOKALIKE), ('the same as UTF-8 bytes', LOOKALIKE.encode('utf-8')),
               ('the same as latin-1 bytes under a cookie', b'# coding: latin-1\n' + LOOKALIKE.encode('latin-1'))]
    for what, source in sources:
        r = apirun.run(model, kwargs={}, source=source)
        parsed = [t for t in r.trace if t[0] == 'parse']
        handed = parsed[0][1] if len(parsed) == 1 else None
        ok = handed is source or (type(handed) is type(source) and handed == source)
        if not ok and isinstance(handed, (str, bytes)):
            # the property is about the program, not about the object: whatever reaches the parser must denote the tree of the caller's source
            try:
                ok = ast.dump(ast.parse(handed)) == ast.dump(ast.parse(source))
            except (SyntaxError, ValueError):
                ok = False
        rep.check(ok, 'C16.BYTES', mi.loc(), 'minify(<%s>) hands %.60r to the parser' % (what, handed), 'the caller\'s source itself, or something the interpreter parses to the identical tree',
                  'the source is transformed before it is parsed (%r instead of %r) and no longer denotes the same constants: decoding, BOM / cookie handling and line ends are no longer the interpreter\'s own' % (handed, source),
                  key='C16.BYTES|parse|' + what + ('|bytes' if isinstance(source, bytes) else '|text'))
    # the command line tool: evaluated end to end (pmstatic.clirun) on sources with a BOM, CRLF / CR line ends, a latin-1 cookie, undecodable bytes
    from .. import clirun
    main = model.func(MAIN + '.main')
    tricky = [('UTF-8 BOM and CRLF', b'\xef\xbb\xbfx = 1\r\ny = 2\r\n'), ('latin-1 cookie, CR line ends', b'# -*- coding: latin-1 -*-\rx = "\xe9"\r'),
              ('bare CR and form feed', b'a = 1\r\x0cb = 2\r'), ('bytes that are not UTF-8', b'x = "\xff\xfe"\n'), ('NUL byte', b'x = 1\x00\n'), ('empty', b'')]
    for (what, data) in tricky:
        for via in ('file', 'stdin'):
            sc = clirun.Scenario(['m.py'] if via == 'file' else ['-'], files={'m.py': data}, stdin=data, default_answer=('ok', ''), env={'PYMINIFY_FORCE_BEST_EFFORT': '1'})
            r = clirun.run(model, sc)
            got = [ev[1] for ev in r.events('minify')]
            modes_ = [ev[2] for ev in r.events('open') if ev[1] == 'm.py']
            ok = got == [data] and all(isinstance(m_, str) and 'b' in m_ for m_ in modes_)
            rep.check(ok, 'C16.BYTES', main.loc(), 'pyminify %s with %s' % ('m.py' if via == 'file' else '-', what), 'minify() receives exactly the bytes of the source',
                      'minify() receives %r for the source bytes %r (open modes %s): decoding or newline translation happens before the interpreter sees the source' % (got, data, modes_),
                      key='C16.BYTES|cli|%s|%s' % (via, what))
    rep.floor('C16.BYTES', 18)

    # ---- ENC: what is written is the strict UTF-8 encoding of the answer of minify()
    for (what, text, want) in (('non-ASCII text', 'x="\xe9\u20ac\U0001f600"', 'x="\xe9\u20ac\U0001f600"'.encode('utf-8')), ('ASCII text', 'x=1', b'x=1'), ('text with a lone surrogate', 'x="\udc80"', None)):
        for via, argv in (('stdout', ['m.py']), ('--output', ['m.py', '--output', 'o.py']), ('--in-place', ['m.py', '--in-place'])):
            for (how, SRC) in (('plain source', b'x = "................................................"\n'),
                               ('source with a latin-1 cookie', b'# -*- coding: latin-1 -*-\nx = "\xe9..............................................."\n'),
                               ('source with a UTF-8 BOM', b'\xef\xbb\xbfx = "................................................"\n')):
                sc = clirun.Scenario(argv, files={'m.py': SRC}, answers={SRC: ('ok', text)})
                r = clirun.run(model, sc)
                written = [ev[1] for ev in r.events('stdout-bytes')] + [ev[3] for ev in r.events('write')]
                if any(not isinstance(w, bytes) for w in written):
                    raise AnalysisError('UNDECIDED: %s to %s, %s: what is written is not determined (%r)' % (what, via, how, written))
                if want is None:
                    ok = r.failed() and not written
                    why = 'a result that cannot be encoded as UTF-8 is written as %r (%s) instead of failing' % (written, r.outcome)
                else:
                    ok = written == [want] and not r.failed()
                    why = '%r is written, expected the UTF-8 encoding %r (the output carries no coding cookie, so it is read as UTF-8)' % (written, want)
                rep.check(ok, 'C16.ENC', main.loc(), '%s to %s, %s' % (what, via, how), 'strict UTF-8 encoding of the result', why, key='C16.ENC|%s|%s|%s' % (what, via, how))
    rep.floor('C16.ENC', 27)

    # ---- SHEB
    # what minify() returns, evaluated over preserve_shebang x (first line is / is not a shebang) x (text / bytes source)
    for preserve in (True, False):
        for shebang in (None, '#!/usr/bin/env python3 -O'):
            for as_bytes in (False, True):
                text_src = (shebang + '\n' if shebang else '') + 'import sys\nprint(sys.argv)\n'
                source = text_src.encode('utf-8') if as_bytes else text_src
                r = apirun.run(model, kwargs={'preserve_shebang': preserve}, source=source, real_shebang=True)
                if r.outcome[0] != 'return':
                    raise AnalysisError('UNDECIDED: minify(preserve_shebang=%r) -> %s' % (preserve, r.outcome))
                want = (shebang + '\n' + 'MINIFIED') if (preserve and shebang) else 'MINIFIED'
                label = 'preserve_shebang=%r, %s, %s source' % (preserve, 'first line %r' % shebang if shebang else 'no shebang line', 'bytes' if as_bytes else 'text')
                rep.check(r.outcome[1] == want, 'C16.SHEB', mi.loc(), '%s -> %r' % (label, r.outcome[1]),
                          'the shebang line, a newline, then the printed module - only when preservation is on and the source has one',
                          'minify returns %r, expected %r' % (r.outcome[1], want), key='C16.SHEB|minify-return|' + label)
    # what the printer produced is returned as it is, whatever the line ends of the source: a printed module may contain every character str.splitlines() splits on
    # (inside f-strings they are printed raw), and none of them may be touched after the self-check of unparse()
    PRINTED = 'a="x\x0by\x0cz"\nb=f"p\x1cq\x1dr\x1es\x85t\u2028u\u2029v"\nc=1'
    for ends, nl in (('LF', '\n'), ('CRLF', '\r\n'), ('CR', '\r')):
        for shebang in (None, '#!/bin/sh'):
            for as_bytes in (False, True):
                for preserve in (True, False):
                    text_src = (shebang + nl if shebang else '') + 'a = 1' + nl + 'b = 2' + nl
                    source = text_src.encode('utf-8') if as_bytes else text_src
                    r = apirun.run(model, kwargs={'preserve_shebang': preserve}, source=source, real_shebang=True, printed=PRINTED)
                    label = 'printed module with raw line-separator characters, %s source with %s line ends%s, preserve_shebang=%r' % ('bytes' if as_bytes else 'text', ends, ', shebang' if shebang else '', preserve)
                    if r.outcome[0] != 'return':
                        rep.violation('C16.SHEB', mi.loc(), label, 'minify fails: %s' % (r.outcome,), key='C16.SHEB|printed|' + label)
                        continue
                    got = r.outcome[1]
                    ok = isinstance(got, str) and got.endswith(PRINTED) and (got == PRINTED or (preserve and shebang and got[:-len(PRINTED)].rstrip('\r\n') == shebang))
                    rep.check(ok, 'C16.SHEB', mi.loc(), label, 'the printed module is returned character for character (after the shebang line, if kept)',
                              'minify returns %r: the text the printer produced (and unparse() verified) is altered afterwards' % (got[:80],), key='C16.SHEB|printed|' + label)
    sheb_enum(model, rep)
    rep.floor('C16.SHEB', 40)

    # ---- DEC: bytes sources whose first line holds bytes that are not UTF-8 (legal under a latin-1 / cp1252 cookie on the second line): minify()
    # evaluated (pmstatic.apirun, the repository's own pattern and decoding run for real) must not fail on them
    for what, source in (('shebang line with a latin-1 byte, cookie on line 2', b'#!/usr/bin/python\xe9\n# -*- coding: latin-1 -*-\nx = 1\n'),
                         ('plain ASCII shebang under a latin-1 cookie', b'#!/usr/bin/python\n# -*- coding: latin-1 -*-\nx = "\xe9"\n')):
        r = apirun.run(model, kwargs={'preserve_shebang': True}, source=source, real_shebang=True)
        ok = r.outcome[0] == 'return'
        rep.check(ok, 'C16.DEC', mi.loc(), 'minify(<bytes: %s>, preserve_shebang=True) -> %s' % (what, r.outcome[0] if not ok else 'returns'), 'the source is accepted',
                  'minify raises %s for a valid source: input-derived bytes are decoded with the implicit strict UTF-8 codec although the source declares another encoding' % (r.outcome[1],),
                  key='C16.DEC|' + what)
    rep.floor('C16.DEC', 2)

    # ---- REPR: the token printer's string / bytes literal emitters abstractly run on crafted values. The emitted text must denote the identical
    # constant, must be encodable as UTF-8 (no lone surrogate) and must not contain a raw CR, LF or NUL (universal newlines would rewrite a CR inside
    # a literal; the tokenizer refuses NUL).
    from ..absprint import TP, token_printer
    strs = ['', 'a', "it's", '"', "'\"", 'e\u0301\xe9', '\u20ac', '\ud800', 'x\udcffy', '\r', '\n', 'a\r\nb', '\x00', '\x1b[0m', '\x7f', '\x85', '\u2028', '\\', '\\n', '\U0001f600', 'a\tb', '{}', '# -*- coding: x -*-']
    byts = [b'', b'a', b"'", b'"', b'\xe9', b'a\r\nb', b'\x00', b'\\', b'\xff\xfe', b'\n']
    for meth, values in (('stringliteral', strs), ('bytesliteral', byts)):
        fi = model.func(TP + '.' + meth)
        bad = []
        for v in values:
            I, mk = token_printer(model)
            box = []

            def thunk():
                tp = mk()
                box.append(tp)
                I.call_method(TP, meth, tp, [v])
                return I.call_method(TP, '__str__', tp, [])       # the emitted text, read the way the printers read it
            res = I.explore(thunk)
            if len(res) != 1 or res[0][0][0] not in ('return', 'raise'):
                raise AnalysisError('UNDECIDED: TokenPrinter.%s(%r) -> %s' % (meth, v, [(r[0], r[2][:2]) for r in res][:2]))
            if res[0][0][0] == 'raise':
                bad.append('%r: raises %s' % (v, res[0][0][1]))
                continue
            code = res[0][0][1]
            if not isinstance(code, str):
                raise AnalysisError('UNDECIDED: TokenPrinter.%s(%r) leaves code %r' % (meth, v, code))
            try:
                back = ast.literal_eval(code)
            except (SyntaxError, ValueError) as e:
                bad.append('%r printed as %r, which is not a literal (%s)' % (v, code, e))
                continue
            if back != v or type(back) is not type(v):
                bad.append('%r printed as %r, which denotes %r' % (v, code, back))
            elif any(c in code for c in '\r\n\x00'):
                bad.append('%r printed as %r with a raw CR / LF / NUL inside the literal' % (v, code))
            else:
                try:
                    code.encode('utf-8')
                except UnicodeEncodeError:
                    bad.append('%r printed as %r, which cannot be encoded as UTF-8 (lone surrogate written raw)' % (v, code))
        rep.check(not bad, 'C16.REPR', fi.loc(), '%s on %d crafted values' % (meth, len(values)), 'emitted text denotes the identical constant, is UTF-8 encodable and has no raw CR / LF / NUL',
                  '; '.join(bad[:3]), key='C16.REPR|' + meth, cells=len(values))
    rep.floor('C16.REPR', 2)


def sheb_enum(model, rep):
    """minify(source, preserve_shebang=True) evaluated (pmstatic.apirun; the repository's own pattern matched by the regular expression engine) on
    source shapes: the result starts with the first line (without its line ending) when that line starts with #!, and is the bare module
    otherwise; text and bytes sources agree."""
    import re
    from .. import apirun
    mi = model.func(MINIFY)
    shapes = ['#!/bin/sh\nx=1\n', '#!/bin/sh\r\nx=1\r\n', '#!/bin/sh\rx=1\r', '#!/bin/sh', '#!', '#!\nx=1', 'x=1\n#!/bin/sh\n', ' #!/bin/sh\nx=1', '# !/bin/sh\nx=1', '\n#!/bin/sh\n', '',
              '#!/usr/bin/env python3 -O\nimport a\n', '#!a\n#!b\n', '#!/bin/sh\n\rx', '#!/usr/bin/python # -*- coding: latin-1 -*-\nx=1\n', '#!/usr/bin/python # -*- coding: utf-8 -*-\nx=1\n',
              '#!/bin/sh\x0cx=1\n', '#!/bin/sh\u2028x=1\n']
    for s in shapes:
        accept = {None}
        want = None
        if s.startswith('#!'):
            want = re.split(r'[\r\n]', s)[0]
            accept = {want}
            if s[len(want):len(want) + 2] == '\r\n':
                accept.add(want + '\r')   # a CRLF first line reproduced with its CR is still the same first line
        got = {}
        for kind, arg in (('text', s), ('bytes', s.encode('utf-8'))):
            r = apirun.run(model, kwargs={'preserve_shebang': True}, source=arg, real_shebang=True)
            if r.outcome[0] != 'return' or not isinstance(r.outcome[1], str):
                raise AnalysisError('UNDECIDED: minify(%r, preserve_shebang=True) -> %s' % (arg, r.outcome))
            text = r.outcome[1]
            if text == 'MINIFIED':
                got[kind] = None
            elif text.endswith('\nMINIFIED'):
                got[kind] = text[:-len('\nMINIFIED')]
            else:
                got[kind] = '<malformed: %r>' % text
        ok = got['text'] in accept and got['bytes'] == got['text']
        if ok and want is not None and re.search(r'coding[:=]\s*([-\w.]+)', got['text'] or '') and not re.search(r'coding[:=]\s*(utf-?8)', got['text'] or '', re.I):
            # the line is re-attached verbatim (C16.SHEB minify-return), so a PEP 263 cookie written on the shebang line survives into output that is UTF-8
            rep.violation('C16.COOKIE', mi.loc(), 'minify(%r, preserve_shebang=True)' % s[:50], 'the preserved first line still declares a non-UTF-8 source encoding while the result is encoded as UTF-8: non-ASCII constants are read back wrongly',
                          key='C16.COOKIE|shebang-line-cookie')
            continue
        rep.check(ok, 'C16.SHEB', mi.loc(), 'first line of minify(%r, preserve_shebang=True) -> text %r, bytes %r' % (s[:30], got['text'], got['bytes']), 'the first line when it starts with #!',
                  'for the source %r the shebang found is %r (text) / %r (bytes), expected %r: %s' % (s[:30], got['text'], got['bytes'], want,
                   'everything up to the first \\n is taken, so with CR line endings the whole program is repeated in front of the output' if want and got['text'] and len(got['text']) > len(want) else 'text and bytes input disagree or a non-first line is taken'),
                  key='C16.SHEB|enum|%r' % s[:30])
