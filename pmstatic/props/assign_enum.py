"""NameAssigner.__call__ abstractly evaluated on a two-binding module (one module-level binding, one function-level binding).

The name-assignment loop is run by the abstract interpreter with its collaborators answered by the checker: the order of bindings, the
reservation scope, the candidate stream (iter_names) and the answers of binding.should_rename / is_available are scenario inputs; what is
observed is which name reaches binding.rename() and whether binding.disallow_rename() is called instead. Two properties read the result:

  C04.GLOB  under prefix_globals a module-level binding only ever receives a name that starts with "_", and the name handed to rename()
            is one that was tested available in the binding's reservation scope;
  C17.GATE  rename(name) happens exactly when should_rename(that same name) holds or the original name has been taken by another binding
            (NameBinding whose own name is not reserved); otherwise the binding is pinned.

No shape of the loop is assumed: helpers may be nested functions, methods, or inlined.
"""
import itertools

from ..absint import Interp, Obj, TOP
from ..model import AnalysisError

NA = 'python_minifier.rename.renamer.NameAssigner'
MOD = 'python_minifier.rename.renamer'
QUALS = {'NameBinding': 'python_minifier.rename.binding.NameBinding', 'BuiltinBinding': 'python_minifier.rename.binding.BuiltinBinding',
         'HoistedBinding': 'python_minifier.rename.rename_literals.HoistedBinding'}


def scenarios():
    for prefix_globals, profitable, orig_free, self_reserved, kind in itertools.product((True, False), (True, False), (True, False), (True, False), ('NameBinding', 'BuiltinBinding', 'HoistedBinding')):
        for shape in ('long original name, short candidates', 'short original name, longer candidates', 'module defines __all__'):
            if shape != 'long original name, short candidates' and not (kind == 'NameBinding' and not self_reserved):
                continue
            yield dict(prefix_globals=prefix_globals, profitable=profitable, orig_free=orig_free, self_reserved=self_reserved, kind=kind, shape=shape)


def run(model, sc):
    """-> list of per-binding observations {where, renamed_to, pinned, asked, tested}"""
    scope_m, scope_f = Obj('Scope', tag='module-scope'), Obj('Scope', tag='function-scope')
    module = Obj('Module', body=[], assigned_names=set())
    func = Obj('FunctionDef', name='f', assigned_names=set())

    short = sc.get('shape') == 'short original name, longer candidates'
    stem = 'o' if short else 'orig_'
    cands = ['aa', 'bb', 'cc'] if short else ['a', 'b', 'c']

    def binding(tag):
        o = Obj(sc['kind'], name=stem + tag, _name=stem + tag, allow_rename=True, reserved=(stem + tag) if sc['self_reserved'] else None, tag=tag)
        o.qual = QUALS[sc['kind']]
        return o
    bm, bf = binding('m'), binding('f')
    obs = {id(bm): dict(where='module', renamed_to=[], pinned=0, asked=[], tested=[]), id(bf): dict(where='function', renamed_to=[], pinned=0, asked=[], tested=[])}
    current = [None]

    def h_sorted(I, e, args, kw, env):
        return [(module, bm), (func, bf)]

    def h_scope(I, e, args, kw, env):
        b = args[1]
        current[0] = b
        return [scope_m] if b is bm else [scope_f]

    def h_should(I, e, args, kw, env):
        b = I.last_recv
        if id(b) in obs:
            obs[id(b)]['asked'].append(args[0] if args else None)
            return sc['profitable']
        return TOP

    def h_rename(I, e, args, kw, env):
        b = I.last_recv
        if id(b) in obs:
            obs[id(b)]['renamed_to'].append(args[0] if args else None)
            return None
        return TOP

    def h_pin(I, e, args, kw, env):
        b = I.last_recv
        if id(b) in obs:
            obs[id(b)]['pinned'] += 1
            return None
        return TOP

    def h_avail(I, e, args, kw, env):
        name = args[0]
        b = current[0]
        if isinstance(name, str) and name in (stem + 'm', stem + 'f'):
            return sc['orig_free']
        if b is not None:
            obs[id(b)]['tested'].append(name)
        # the first candidate is taken, the second is free: the loop has to advance
        return isinstance(name, str) and name.lstrip('_') != cands[0]
    hooks = {'sorted_bindings': h_sorted, 'all_bindings': lambda I, e, args, kw, env: [], 'add_assigned': lambda I, e, args, kw, env: None,
             'reservation_scope': h_scope, 'reserve_name': lambda I, e, args, kw, env: None,
             '.should_rename': h_should, '.rename': h_rename, '.disallow_rename': h_pin,
             'self.is_available': h_avail, 'self.iter_names': lambda I, e, args, kw, env: list(cands),
             'name_filter': lambda I, e, args, kw, env: iter(()),
             'find__all__': lambda I, e, args, kw, env: (['exported'] if sc.get('shape') == 'module defines __all__' else [])}
    # a helper named should_rename on the assigner itself (method or nested function) must run for real: the attribute hook above would
    # shadow `self.should_rename(...)`, so it is answered only for the binding objects and otherwise falls through
    I = Interp(model, MOD, hooks)
    orig_attr_hook = hooks['.should_rename']

    def h_should_any(I_, e, args, kw, env):
        b = I_.last_recv
        if isinstance(b, Obj) and id(b) in obs:
            return orig_attr_hook(I_, e, args, kw, env)
        return NotImplemented
    hooks['.should_rename'] = h_should_any
    # entered through rename(module, prefix_globals=..., preserved_globals=...), the function minify() calls
    res = I.explore(lambda: I.call_function(MOD + '.rename', [module], {'prefix_globals': sc['prefix_globals'], 'preserved_globals': []}))
    if len(res) != 1 or res[0][0][0] != 'return':
        model.undecided([k for k in hooks if k != 'find__all__'], 'UNDECIDED: rename() under %s -> %s' % (sc, [(r[0], r[2][:2]) for r in res][:3]))
    return [obs[id(bm)], obs[id(bf)]]


def enumerate_loop(model):
    out = []
    for sc in scenarios():
        out.append((sc, run(model, sc)))
    return out


def expect_rename(sc):
    if sc['profitable']:
        return True
    if sc['kind'] == 'HoistedBinding':   # not a NameBinding: it has no original name to fall back to
        return False
    if sc['self_reserved']:
        return False
    return not sc['orig_free']


# ---------------------------------------------------------------------- reservations: the loop run with the real reservation code
def reservation_world(model, preserved_globals=('PRESERVED',)):
    """rename(module, ...) evaluated on a module namespace with two function namespaces. Only the order of bindings, their reservation scopes
    and the candidate stream are supplied by the checker; reserve_name, is_available, available_name and the loop itself are the repository's.
    The candidate stream begins with the names that must stay free (a pinned name, a preserved global, the original name of a binding that is
    not renamed) - if any of them is handed out, or two bindings whose scopes overlap end up with one name, the reservation discipline is broken.
    -> list of problems"""
    def ns(kind, name):
        o = Obj(kind, name=name, body=[])
        o.attrs['assigned_names'] = set()
        return o
    module, f, g = ns('Module', 'm'), ns('FunctionDef', 'f'), ns('FunctionDef', 'g')

    def binding(name, allow, reserved=None, kind='NameBinding'):
        o = Obj(kind, name=name, _name=name, allow_rename=allow, _allow_rename=allow, reserved=reserved, _reserved=reserved)
        o.qual = QUALS[kind]
        return o
    pinned = binding('pinned_name', False, reserved='pinned_name')
    kept = binding('kept', True)           # renamable, but the cost model says no: keeps its name, which must then be reserved
    b1, b2, b3 = binding('first', True), binding('second', True), binding('third', True)
    gb = binding('glob', True)
    # processing order: the pinned binding, a global (tempted by the preserved names), in g a binding that keeps its name and then one that is
    # tempted by that name, in f two bindings that must not share a name
    order = [(module, pinned), (module, gb), (g, kept), (g, b3), (f, b1), (f, b2)]
    scopes = {id(pinned): [module, f, g], id(gb): [module, f], id(kept): [g], id(b3): [g], id(b1): [f], id(b2): [f]}
    renamed = {}
    stream = ['pinned_name'] + list(preserved_globals) + ['n0', 'kept', 'n1', 'n2', 'n3', 'n4', 'n5', 'n6', 'n7', 'n8']

    def h_rename(I, e, args, kw, env):
        b = I.last_recv
        if isinstance(b, Obj) and id(b) in scopes:
            renamed[id(b)] = args[0]
            b.attrs['name'] = b.attrs['_name'] = args[0]
            return None
        return TOP

    def h_pin(I, e, args, kw, env):
        b = I.last_recv
        if isinstance(b, Obj) and id(b) in scopes:
            b.attrs['allow_rename'] = b.attrs['_allow_rename'] = False
            b.attrs['reserved'] = b.attrs['_reserved'] = b.attrs['name']
            return None
        return TOP

    def h_should(I, e, args, kw, env):
        b = I.last_recv
        if isinstance(b, Obj) and id(b) in scopes:
            return b is not kept
        return NotImplemented
    hooks = {'sorted_bindings': lambda I, e, a, kw, env: list(order), 'all_bindings': lambda I, e, a, kw, env: list(order),
             'add_assigned': lambda I, e, a, kw, env: None, 'reservation_scope': lambda I, e, a, kw, env: list(scopes[id(a[1])]),
             '.should_rename': h_should, '.rename': h_rename, '.disallow_rename': h_pin,
             'name_filter': lambda I, e, a, kw, env: iter(stream), 'find__all__': lambda I, e, a, kw, env: []}
    I = Interp(model, MOD, hooks)
    res = I.explore(lambda: I.call_function(MOD + '.rename', [module], {'prefix_globals': False, 'preserved_globals': list(preserved_globals)}))
    if len(res) != 1 or res[0][0][0] != 'return':
        model.undecided([k for k in hooks if k != 'find__all__'], 'UNDECIDED: rename() on the reservation world -> %s' % [(r[0], r[2][:2]) for r in res][:3])
    problems = []
    final = {id(b): b.attrs['name'] for (_n, b) in order}
    label = {id(pinned): 'the pinned binding', id(b1): 'first', id(kept): 'the binding that keeps its name', id(b2): 'second', id(b3): 'third', id(gb): 'the global binding'}
    if final[id(kept)] != 'kept':
        raise AnalysisError('reservation world: the binding that should keep its name was renamed to %r' % final[id(kept)])
    for (_n, b) in order:
        nm = final[id(b)]
        if b is not pinned and nm == 'pinned_name':
            problems.append('%s is given the name of a pinned binding that is visible in its scope (pinned names must be reserved before names are handed out)' % label[id(b)])
        if nm in preserved_globals and module in scopes[id(b)]:
            problems.append('%s is given the preserved global name %r' % (label[id(b)], nm))
    for i_, (_n1, x) in enumerate(order):
        for (_n2, y) in order[i_ + 1:]:
            if final[id(x)] == final[id(y)] and set(map(id, scopes[id(x)])) & set(map(id, scopes[id(y)])):
                problems.append('%s and %s both end up named %r although their scopes overlap' % (label[id(x)], label[id(y)], final[id(x)]))
    for (_n, b) in order:
        for n_ in scopes[id(b)]:
            if final[id(b)] not in n_.attrs['assigned_names']:
                problems.append('the final name %r of %s is not reserved in namespace %s of its scope' % (final[id(b)], label[id(b)], n_.attrs['name']))
                break
    if not any(id(b) in renamed for (_n, b) in order):
        raise AnalysisError('reservation world: no binding was renamed - the enumeration does not reach the assignment loop')
    return problems, {label[k]: v for k, v in final.items()}


def sort_world(model):
    """rename() on one scope with four bindings of different mention counts: names are handed out in descending order of new mentions (the
    shortest names go to the most used bindings). Only all_bindings, the reservation scope and the per-binding counts are supplied.
    -> (order in which bindings were named, their counts)"""
    module = Obj('Module', name='m', body=[])
    module.attrs['assigned_names'] = set()
    counts = {'rare': 1, 'busy': 9, 'middle': 4, 'common': 6}
    bs = []
    for nm in ('rare', 'busy', 'middle', 'common'):
        o = Obj('NameBinding', name='original_' + nm, _name='original_' + nm, allow_rename=True, _allow_rename=True, reserved=None, _reserved=None, tag=nm)
        o.qual = QUALS['NameBinding']
        bs.append(o)
    named = []

    def h_rename(I, e, args, kw, env):
        b = I.last_recv
        if isinstance(b, Obj) and b in bs:
            named.append((b.attrs['tag'], args[0]))
            b.attrs['name'] = b.attrs['_name'] = args[0]
            return None
        return TOP

    def h_count(I, e, args, kw, env):
        b = I.last_recv
        if isinstance(b, Obj) and any(b is x for x in bs):
            return counts[b.attrs['tag']]
        return NotImplemented
    hooks = {'all_bindings': lambda I, e, a, kw, env: [(module, b) for b in bs], 'add_assigned': lambda I, e, a, kw, env: None,
             'reservation_scope': lambda I, e, a, kw, env: [module], '.new_mention_count': h_count, '.old_mention_count': lambda I, e, a, kw, env: 0,
             '.should_rename': lambda I, e, a, kw, env: True if (isinstance(I.last_recv, Obj) and any(I.last_recv is x for x in bs)) else NotImplemented,
             '.rename': h_rename, '.disallow_rename': lambda I, e, a, kw, env: None,
             'name_filter': lambda I, e, a, kw, env: iter(['a', 'b', 'c', 'd', 'e', 'f']), 'find__all__': lambda I, e, a, kw, env: []}
    I = Interp(model, MOD, hooks)
    res = I.explore(lambda: I.call_function(MOD + '.rename', [module], {'prefix_globals': False, 'preserved_globals': []}))
    if len(res) != 1 or res[0][0][0] != 'return':
        model.undecided([k for k in hooks if k != 'find__all__'], 'UNDECIDED: rename() on the sorting world -> %s' % [(r[0], r[2][:2]) for r in res][:3])
    if len(named) != 4:
        raise AnalysisError('sorting world: %d of 4 bindings were named' % len(named))
    return named, counts
