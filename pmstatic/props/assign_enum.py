"""NameAssigner.__call__ abstractly evaluated on a two-binding module (one module-level binding, one function-level binding).

The name-assignment loop is run by the abstract interpreter with its collaborators answered by the checker: the order of bindings, the
reservation scope, the candidate stream (iter_names) and the answers of binding.should_rename / is_available are scenario inputs; what is
observed is which name reaches binding.rename() and whether binding.disallow_rename() is called instead. Two properties read the result:

  C04.GLOB  under prefix_globals a module-level binding only ever receives a name that starts with "_", and the name handed to rename()
            is one that was tested available in the binding's reservation scope;
  C17.GATE  rename(name) happens exactly when should_rename(that same name) holds or the original name has been taken by another binding
            (NameBinding whose own name is not reserved); otherwise the binding is pinned.

No shape of the loop is assumed: helpers may be nested functions, methods, or inlined.
"""
import itertools

from ..absint import Interp, Obj, TOP
from ..model import AnalysisError

NA = 'python_minifier.rename.renamer.NameAssigner'
MOD = 'python_minifier.rename.renamer'
QUALS = {'NameBinding': 'python_minifier.rename.binding.NameBinding', 'BuiltinBinding': 'python_minifier.rename.binding.BuiltinBinding',
         'HoistedBinding': 'python_minifier.rename.rename_literals.HoistedBinding'}


def scenarios():
    for prefix_globals, profitable, orig_free, self_reserved, kind in itertools.product((True, False), (True, False), (True, False), (True, False), ('NameBinding', 'BuiltinBinding', 'HoistedBinding')):
        yield dict(prefix_globals=prefix_globals, profitable=profitable, orig_free=orig_free, self_reserved=self_reserved, kind=kind)


def run(model, sc):
    """-> list of per-binding observations {where, renamed_to, pinned, asked, tested}"""
    scope_m, scope_f = Obj('Scope', tag='module-scope'), Obj('Scope', tag='function-scope')
    module = Obj('Module', body=[], assigned_names=set())
    func = Obj('FunctionDef', name='f', assigned_names=set())

    def binding(tag):
        o = Obj(sc['kind'], name='orig_' + tag, _name='orig_' + tag, allow_rename=True, reserved=('orig_' + tag) if sc['self_reserved'] else None, tag=tag)
        o.qual = QUALS[sc['kind']]
        return o
    bm, bf = binding('m'), binding('f')
    obs = {id(bm): dict(where='module', renamed_to=[], pinned=0, asked=[], tested=[]), id(bf): dict(where='function', renamed_to=[], pinned=0, asked=[], tested=[])}
    current = [None]

    def h_sorted(I, e, args, kw, env):
        return [(module, bm), (func, bf)]

    def h_scope(I, e, args, kw, env):
        b = args[1]
        current[0] = b
        return [scope_m] if b is bm else [scope_f]

    def h_should(I, e, args, kw, env):
        b = I.last_recv
        if id(b) in obs:
            obs[id(b)]['asked'].append(args[0] if args else None)
            return sc['profitable']
        return TOP

    def h_rename(I, e, args, kw, env):
        b = I.last_recv
        if id(b) in obs:
            obs[id(b)]['renamed_to'].append(args[0] if args else None)
            return None
        return TOP

    def h_pin(I, e, args, kw, env):
        b = I.last_recv
        if id(b) in obs:
            obs[id(b)]['pinned'] += 1
            return None
        return TOP

    def h_avail(I, e, args, kw, env):
        name = args[0]
        b = current[0]
        if isinstance(name, str) and name.startswith('orig_'):
            return sc['orig_free']
        if b is not None:
            obs[id(b)]['tested'].append(name)
        # the first candidate is taken, the second is free: the loop has to advance
        return isinstance(name, str) and name.lstrip('_') != 'a'
    hooks = {'sorted_bindings': h_sorted, 'all_bindings': lambda I, e, args, kw, env: [], 'add_assigned': lambda I, e, args, kw, env: None,
             'reservation_scope': h_scope, 'reserve_name': lambda I, e, args, kw, env: None,
             '.should_rename': h_should, '.rename': h_rename, '.disallow_rename': h_pin,
             'self.is_available': h_avail, 'self.iter_names': lambda I, e, args, kw, env: ['a', 'b', 'c']}
    # a helper named should_rename on the assigner itself (method or nested function) must run for real: the attribute hook above would
    # shadow `self.should_rename(...)`, so it is answered only for the binding objects and otherwise falls through
    I = Interp(model, MOD, hooks)
    orig_attr_hook = hooks['.should_rename']

    def h_should_any(I_, e, args, kw, env):
        b = I_.last_recv
        if isinstance(b, Obj) and id(b) in obs:
            return orig_attr_hook(I_, e, args, kw, env)
        return NotImplemented
    hooks['.should_rename'] = h_should_any
    me = Obj('NameAssigner', names=[], name_generator=iter(()))
    me.qual = NA
    res = I.explore(lambda: I.call_method(NA, '__call__', me, [module, sc['prefix_globals']]))
    if len(res) != 1 or res[0][0][0] != 'return':
        raise AnalysisError('UNDECIDED: NameAssigner.__call__ under %s -> %s' % (sc, [(r[0], r[2][:2]) for r in res][:3]))
    return [obs[id(bm)], obs[id(bf)]]


def enumerate_loop(model):
    out = []
    for sc in scenarios():
        out.append((sc, run(model, sc)))
    return out


def expect_rename(sc):
    if sc['profitable']:
        return True
    if sc['kind'] == 'HoistedBinding':   # not a NameBinding: it has no original name to fall back to
        return False
    if sc['self_reserved']:
        return False
    return not sc['orig_free']
