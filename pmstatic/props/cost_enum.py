"""The renamer's cost model against the printed size (C17.COST).

For a probe function with one binding of interest - an import, an aliased import, a from-import, a parameter that callers may pass by keyword, a
positional-only parameter, a plain local, a nested function, an exception name, a loop target - with a chosen name length and number of uses:
mapper, binder and resolver are run (abstractly) on the probe; `should_rename(candidate)` of that binding is evaluated; the binding's own `rename`
is applied and both trees are printed by the repository's printer. If the model says "rename" the renamed program must not be longer than the
original one: the documentation promises that names are changed only where the result is smaller.
"""
import ast
import builtins

from ..absint import Interp, Obj, TOP
from ..model import AnalysisError

R = 'python_minifier.rename.'
MAPPER = R + 'mapper'

FORMS = {
    'import X': lambda X, uses: 'def f():\n    import %s\n    return [%s]\n' % (X, ', '.join('%s.a%d' % (X, i) for i in range(uses))),
    'import m as X': lambda X, uses: 'def f():\n    import mod as %s\n    return [%s]\n' % (X, ', '.join('%s.a%d' % (X, i) for i in range(uses))),
    'from m import X': lambda X, uses: 'def f():\n    from mod import %s\n    return [%s]\n' % (X, ', '.join('%s.a%d' % (X, i) for i in range(uses))),
    'from m import n as X': lambda X, uses: 'def f():\n    from mod import nn as %s\n    return [%s]\n' % (X, ', '.join('%s.a%d' % (X, i) for i in range(uses))),
    'keyword-callable parameter': lambda X, uses: 'def f(%s):\n    return [%s]\n' % (X, ', '.join('%s.a%d' % (X, i) for i in range(uses))),
    'positional-only parameter': lambda X, uses: 'def f(%s, /):\n    return [%s]\n' % (X, ', '.join('%s.a%d' % (X, i) for i in range(uses))),
    'local variable': lambda X, uses: 'def f():\n    %s = g()\n    return [%s]\n' % (X, ', '.join('%s.a%d' % (X, i) for i in range(uses))),
    'nested function': lambda X, uses: 'def f():\n    def %s(): pass\n    return [%s]\n' % (X, ', '.join('%s.a%d' % (X, i) for i in range(uses))),
    'exception name': lambda X, uses: 'def f():\n    try:\n        g()\n    except E as %s:\n        return [%s]\n' % (X, ', '.join('%s.a%d' % (X, i) for i in range(uses))),
    'loop target': lambda X, uses: 'def f():\n    for %s in g():\n        h([%s])\n' % (X, ', '.join('%s.a%d' % (X, i) for i in range(uses))),
}
NAMES = ['os', 'sys', 'json', 'shutil', 'functools']
USES = [0, 1, 2, 3, 4, 6]
CANDIDATES = ['A', 'AA']


from ..absnodes import public_value


def cells(tier):
    out = []
    for form in sorted(FORMS):
        for X in (NAMES if tier == 'thorough' else ['os', 'json']):
            for uses in (USES if tier == 'thorough' else [1, 2, 3, 4]):
                for cand in (CANDIDATES if tier == 'thorough' else CANDIDATES[:1]):
                    if len(cand) > len(X):
                        continue
                    out.append((form, X, uses, cand))
    return out


def evaluate(model, form, X, uses, cand):
    """-> (decision, len(original text), len(renamed text), renamed text)"""
    from .c03 import to_obj
    from ..absnodes import set_parents, std_hooks, walk
    from ..absprint import print_obj
    source = FORMS[form](X, uses)
    try:
        tree = ast.parse(source)
    except SyntaxError:
        return None

    def prepared():
        mod = to_obj(ast.parse(source), {})
        set_parents(mod)
        hooks = dict(std_hooks(), **{'dir': lambda I, e, args, kw, env: dir(builtins)})
        I = Interp(model, MAPPER, hooks, max_depth=600)
        I.MAX_PATHS = 8
        res = I.explore(lambda: (I.call_function(MAPPER + '.add_namespace', [mod]), I.call_function(R + 'bind_names.bind_names', [mod]), I.call_function(R + 'resolve_names.resolve_names', [mod])))
        if len(res) != 1 or res[0][0][0] != 'return':
            raise AnalysisError('UNDECIDED: bind/resolve on the cost probe %r -> %s' % (source, [r[0] for r in res][:2]))
        target = None
        for o in walk(mod):
            if o.cls == 'FunctionDef' and o.attrs.get('name') == 'f':
                for b in o.attrs.get('bindings') or []:
                    if isinstance(b, Obj) and public_value(model, b, 'name') == X:
                        target = b
        if target is None:
            raise AnalysisError('cost probe %r: no binding for %s in f' % (source, X))
        return mod, target, I
    mod, b, I = prepared()
    kind, before = print_obj(model, mod)
    if kind != 'ok':
        raise AnalysisError('UNDECIDED: printing the cost probe: %s %s' % (kind, before))
    cq = b.qual or R + 'binding.NameBinding'
    res = I.explore(lambda: I.call_method(cq, 'should_rename', b, [cand]))
    if len(res) != 1 or res[0][0][0] != 'return' or res[0][0][1] is TOP:
        raise AnalysisError('UNDECIDED: should_rename(%r) on the %s probe -> %s' % (cand, form, [r[0] for r in res][:2]))
    decision = bool(res[0][0][1])
    res = I.explore(lambda: I.call_method(cq, 'rename', b, [cand]))
    if len(res) != 1 or res[0][0][0] != 'return':
        raise AnalysisError('UNDECIDED: rename(%r) on the %s probe -> %s' % (cand, form, [r[0] for r in res][:2]))
    kind, after = print_obj(model, mod)
    if kind != 'ok':
        raise AnalysisError('UNDECIDED: printing the renamed cost probe: %s %s' % (kind, after))
    return decision, len(before), len(after), before, after


def run(model, rep, rule='C17.COST'):
    fi = model.func(R + 'binding.NameBinding.should_rename')
    groups = {}
    for (form, X, uses, cand) in cells(rep.tier):
        r = evaluate(model, form, X, uses, cand)
        if r is None:
            continue
        decision, n0, n1, before, after = r
        g = groups.setdefault(form, [0, []])
        g[0] += 1
        if decision and n1 > n0:
            g[1].append('%s `%s` with %d uses renamed to %s: the cost model answers "rename", the program grows from %d to %d characters (%r -> %r)' % (form, X, uses, cand, n0, n1, before, after))
    for form, (n, bad) in sorted(groups.items()):
        rep.check(not bad, rule, fi.loc(), 'cost model on %s (%d name lengths x use counts x candidates)' % (form, n), 'a rename the model approves never makes the printed program longer',
                  '; '.join(bad[:2]), key='%s|%s' % (rule, form), cells=n)
    rep.floor(rule, 8)


def run_hoist(model, rep, rule='C17.HOIST'):
    """Literal hoisting against the printed size: for string / bytes / True-False-None literals of several lengths, used 1..6 times in a function
    and at module level, the program printed after `rename_literals` + `rename` must not be longer than the program printed without hoisting."""
    from .hoist_e2e import run_pipeline
    fi = model.func(R + 'rename_literals.rename_literals')
    literals = ["'ab'", "'abcd'", "'abcdefgh'", "'a'", "b'xyz'", 'True', 'None', 'False', "'abcdefghijklmnop'"]
    uses_list = [1, 2, 3, 4, 6] if rep.tier != 'thorough' else [1, 2, 3, 4, 5, 6, 8, 12]
    for where in ('function', 'module'):
        bad = []
        n = 0
        for lit in (literals if rep.tier == 'thorough' else literals[:6]):
            for uses in uses_list:
                items = ', '.join([lit] * uses)
                source = ('def f():\n    return [%s]\n' % items) if where == 'function' else ('x = [%s]\n' % items)
                a = run_pipeline(model, source, hoist=False)
                b = run_pipeline(model, source, hoist=True)
                n += 1
                if len(b) > len(a):
                    bad.append('%s used %d times in a %s: hoisting turns %r (%d characters) into %r (%d characters)' % (lit, uses, where, a, len(a), b, len(b)))
        rep.check(not bad, rule, fi.loc(), 'hoisting of literals in a %s body (%d literal x use-count cells)' % (where, n), 'the hoisted program is never longer', '; '.join(bad[:2]), key='%s|%s' % (rule, where), cells=n)
    rep.floor(rule, 2)
