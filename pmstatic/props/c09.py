"""C09 - dynamic name access freezes every name in the module."""
import ast
import builtins

from ..absint import Interp, Obj, TOP
from ..astutil import calls, literal, local_defs
from ..facts import Facts, fact_texts
from ..model import AnalysisError, src, walk_own
from ..pipeline import Pipeline

REQUIRED_TRIGGERS = {'exec', 'eval', 'locals', 'globals', 'vars'}
NAME_NEUTRAL_STAGES = {'remove_posargs'}   # rewrites the tree but neither renames nor introduces a name (moves posonlyargs into args)


def taint_stores(model):
    out = []
    for q, fi in sorted(model.funcs.items()):
        for n in walk_own(fi.node):
            if isinstance(n, ast.Assign) and len(n.targets) == 1 and isinstance(n.targets[0], ast.Attribute) and n.targets[0].attr == 'tainted':
                out.append((fi, n))
    return out


from ..absnodes import public_value


def run(model, rep):
    rep.explanation = ('(TRIG) the trigger list consulted for unresolved builtin names contains exec, eval, locals, globals, vars; a star import and an Exec node also '
                       'write the taint flag, always on the module node. (GATE) the path-fact analysis of minify() is re-run under the hypothesis module.tainted == True: '
                       'both rename switches must carry the constant fact False where they are handed to the permission gates, the exception-bracket stage must be '
                       'unreachable, no stage that appends to .bindings may be reachable after the gates (a binding created there is born renamable), and no other '
                       'tree-rewriting stage may run after name resolution except the data-gated renamer and the name-neutral positional-only rewrite; the gates '
                       'themselves are abstractly evaluated: with the switch False every binding handed to them is pinned. (ORD/OWN) taint is read only after '
                       'resolve_names completed, written False only at initialisation and True elsewhere.')
    for r, t in [('C09.TRIG', 'trigger table and trigger sites'), ('C09.GATE', 'under the taint hypothesis no name-changing stage is reachable with permission'),
                 ('C09.ORD', 'reads of tainted are dominated by resolve_names'), ('C09.OWN', 'taint writes are monotone')]:
        rep.rule(r, t)

    # ---------------- E2E: the real minify() with renaming and hoisting on, on modules with a trigger in every position: nothing may be renamed
    rep.rule('C09.E2E', 'end to end: with renaming and hoisting requested, a module with a dynamic-name trigger in any position comes out with every name and literal as with those options off')
    frozen_end_to_end(model, rep)
    # ---------------- TRIG (white-box): the whole bind + resolve run on the same probe modules, the flag read from the module node
    rep.optional(['C09.TRIG'], ['C09.E2E'], lambda: (trigger_positions(model, rep), rep.floor('C09.TRIG', 17)))
    rep.note('an `exec` statement exists only in Python 2 trees; this interpreter cannot produce one, the clause is not decided here')

    # ---------------- GATE: minify() itself evaluated for a tainted module (pmstatic.apirun, every stage a recorder)
    from .. import apirun
    mi = model.func('python_minifier.minify')
    options = [p for p in mi.params if p not in ('source', 'filename', 'preserve_locals', 'preserve_globals')]
    for (label, kw) in (('default options', {}), ('every option on', {p: True for p in options}), ('renaming and hoisting on, the rest off', dict({p: False for p in options}, rename_locals=True, rename_globals=True, hoist_literals=True))):
        for tainted in (True, False):
            r = apirun.run(model, kwargs=dict(kw), tainted=tainted)
            if r.outcome[0] != 'return':
                raise AnalysisError('UNDECIDED: minify(%s) on a %s module -> %s' % (label, 'tainted' if tainted else 'clean', r.outcome))
            names = r.names()
            what = 'minify(%s) on a %s module' % (label, 'tainted' if tainted else 'clean')
            for gname in ('allow_rename_locals', 'allow_rename_globals'):
                ev = r.event(gname)
                if ev is None:
                    if 'rename' not in names:
                        # neither the gate nor the renamer runs: skipping work that would change nothing is not a violation
                        rep.ok('C09.GATE', mi.loc(), '%s: neither %s nor the renamer runs' % (what, gname), 'nothing can be renamed', key='C09.GATE|gate|%s|%s|%s' % (gname, label, tainted))
                    else:
                        rep.violation('C09.GATE', mi.loc(), '%s: %s' % (what, gname), 'the renamer runs but the permission gate does not: bindings keep their default permission', key='C09.GATE|gate|%s|%s|%s' % (gname, label, tainted))
                    continue
                t = model.funcs.get(apirun.imported_callables(model).get(gname, ('', ''))[1])
                flag = 'rename_locals' if gname.endswith('locals') else 'rename_globals'
                idx = t.positional.index(flag) if t is not None and flag in t.positional else 1
                (_k, _n, a, k_) = ev
                switch = k_.get(flag, a[idx] if idx < len(a) else '<not passed>')
                if tainted:
                    rep.check(switch is False, 'C09.GATE', mi.loc(), '%s: %s(switch=%r)' % (what, gname, switch), 'the switch is False: every binding is pinned',
                              'for a tainted module %s still receives the switch %r: names can be renamed' % (gname, switch), key='C09.GATE|gate|%s|%s|tainted' % (gname, label))
                else:
                    want = bool(kw.get(flag, mi.defaults()[flag].value))
                    rep.check(switch is want, 'C09.GATE', mi.loc(), '%s: %s(switch=%r)' % (what, gname, switch), 'the caller\'s switch',
                              'for a clean module %s receives %r instead of the caller\'s %s=%r' % (gname, switch, flag, want), key='C09.GATE|gate|%s|%s|clean' % (gname, label))
            if tainted:
                for stage in ('rename_literals', 'remove_no_arg_exception_call'):
                    rep.check(stage not in names, 'C09.GATE', mi.loc(), '%s: %s %s' % (what, stage, 'runs' if stage in names else 'does not run'), 'not run for a tainted module',
                              '%s runs although the module is tainted: %s' % (stage, 'a new name is introduced into a scope that exec/eval/locals() can see' if stage == 'rename_literals' else 'it relies on the resolution of builtin names'),
                              key='C09.GATE|stage|%s|%s' % (stage, label))
                order_ok = 'rename' not in names or all(g_ in names and names.index(g_) < names.index('rename') for g_ in ('allow_rename_locals', 'allow_rename_globals'))
                rep.check(order_ok, 'C09.GATE', mi.loc(), '%s: rename after both permission gates' % what, 'data-gated renamer runs only after the gates', 'the renamer can run before the permission gates', key='C09.GATE|stage|rename|' + label)
            # ORD: the taint flag is read only after it has been computed
            seq = [t_ for t_ in r.trace if t_[0] in ('call', 'stage', 'read')]
            first_read = next((i_ for i_, t_ in enumerate(seq) if t_[0] == 'read' and t_[1] == 'tainted'), None)
            resolved_at = next((i_ for i_, t_ in enumerate(seq) if t_[0] == 'call' and t_[1] == 'resolve_names'), None)
            bound_at = next((i_ for i_, t_ in enumerate(seq) if t_[0] == 'call' and t_[1] == 'bind_names'), None)
            if tainted:
                rep.check(first_read is not None and resolved_at is not None and bound_at is not None and first_read > resolved_at > bound_at, 'C09.ORD', mi.loc(), '%s: first read of module.tainted' % what,
                          'after bind_names and resolve_names', 'the taint flag is read before it has been computed (always False)' if first_read is not None else 'the taint flag is never read', key='C09.ORD|' + label)
    # the gates pin everything when their switch is False (abstract evaluation on descriptors and on a real tree)
    gate_enum(model, rep)
    gate_tree(model, rep, 'C09.GATE', False, False, [], lambda kind, name: True, 'permission gates with both rename switches off (what minify() passes for a tainted module)', 'C09.GATE|tree')
    from . import rename_e2e
    rename_e2e.run(model, rep, 'C09.GATE', only=('renaming off',))   # both switches False (what a tainted module gets): the whole renaming pipeline changes nothing
    rep.floor('C09.GATE', 20)
    rep.floor('C09.ORD', 3)

    # ---------------- OWN: once set, the flag stays set - evaluated: a module with a trigger followed by much unrelated code ends tainted (see TRIG probes
    # 'trigger first, then more code'); a syntactic scan reports any store of a non-constant to .tainted
    stores = taint_stores(model)
    for (fi, n_) in stores:
        v = n_.value
        if isinstance(v, ast.Constant) and isinstance(v.value, bool):
            rep.ok('C09.OWN', fi.loc(n_), src(n_), 'constant write', key='C09.OWN|%s|%r' % (fi.qual, v.value))
        else:
            rep.violation('C09.OWN', fi.loc(n_), src(n_), 'taint written with a computed value', key='C09.OWN|%s|computed' % fi.qual)
    rep.floor('C09.OWN', 2)


def gate_enum(model, rep):
    """allow_rename_locals / allow_rename_globals with the switch False must pin every binding they are shown."""
    util = 'python_minifier.rename.util'
    for fname, make in (('allow_rename_locals', 'FunctionDef'), ('allow_rename_globals', 'Module')):
        fi = model.func(util + '.' + fname)
        for switch in (False, True):
            b1 = Obj('NameBinding', name='keep')
            b2 = Obj('NameBinding', name='other')
            pinned = []
            hooks = {'.disallow_rename': lambda I, e, args, kw, env: pinned.append(I.last_recv),
                     'is_namespace': lambda I, e, args, kw, env: isinstance(args[0], Obj) and args[0].cls in ('FunctionDef', 'Module', 'ClassDef', 'Lambda'),
                     'ast.iter_child_nodes': lambda I, e, args, kw, env: [],
                     'find__all__': lambda I, e, args, kw, env: []}
            I = Interp(model, util, hooks)
            node = Obj(make, bindings=[b1, b2])
            res = I.explore(lambda: I.call_function(fi.qual, [node, switch, ['keep']]))
            if any(r[0][0] not in ('return',) for r in res):
                raise AnalysisError('UNDECIDED: %s(<%s>, %r, [..]) -> %s' % (fname, make, switch, [r[0] for r in res]))
            if any(not isinstance(x, Obj) for x in pinned):
                # the gate reaches the bindings through something this two-binding world does not have (an index, a helper): the rule is written
                # against `node.bindings`; the gates are still decided on a real tree (gate_tree) and end to end (C09.E2E)
                rep.note('C09.GATE enum for %s(switch=%r) not evaluated: the gate reads the bindings through an attribute other than node.bindings' % (fname, switch))
                continue
            got = {id(x) for x in pinned}
            want = {id(b1), id(b2)} if switch is False else {id(b1)}
            rep.check(got == want, 'C09.GATE', fi.loc(), '%s(switch=%r) pins %d of 2 bindings' % (fname, switch, len(got)),
                      'all bindings pinned' if switch is False else 'only the preserved name pinned',
                      'with the switch %r the gate pins %s' % (switch, [x.attrs.get('name') for x in pinned]), key='C09.GATE|enum|%s|%r' % (fname, switch))


TAINT_PROBES = [
    ('module level call', "x = eval('1')\n", True),
    ('nested function', "def f():\n    def g():\n        return locals()\n    return g\n", True),
    ('decorator', "@eval('d')\ndef f(): pass\n", True),
    ('default value', "def f(a=globals()): pass\n", True),
    ('keyword-only default', "def f(*, a=vars()): pass\n", True),
    ('comprehension element', "y = [vars() for _ in z]\n", True),
    ('comprehension condition', "y = [q for q in z if eval(q)]\n", True),
    ('attribute base', "n = exec.__name__\n", True),
    ('class body', "class C:\n    n = locals()\n", True),
    ('method', "class C:\n    def m(self):\n        return globals()\n", True),
    ('after a local import', "def f():\n    import os\n    return eval(os.x)\n", True),
    ('lambda', "f = lambda: globals()\n", True),
    ('argument of a call', "print(sorted(vars()))\n", True),
    ('star import', "from m import *\n", True),
    ('star import inside try / except', "try:\n    from fastjson import *\nexcept ImportError:\n    from json import *\n", True),
    ('star import under if', "if flag:\n    from m import *\n", True),
    ('star import inside with', "with ctx:\n    from m import *\n", True),
    ('trigger inside try / finally', "try:\n    pass\nfinally:\n    value = locals()\n", True),
    ('trigger in a while condition', "while eval(cond):\n    pass\n", True),
    ('trigger first, then more code', "x = eval('1')\ndef f(a):\n    return a\nclass K:\n    y = 2\nz = [i for i in f(3)]\nprint(len(z))\n", True),
    ('class attribute of the same name plus a genuine use', "class E:\n    def eval(self, s):\n        return s\n    __call__ = eval\ndef run(e):\n    return eval(e)\n", True),
    ('class attribute named vars plus a genuine use', "class K:\n    vars = (1, 2)\n    req = frozenset(vars)\ndef show(o):\n    return vars(o)\n", True),
    ('method of a class nested in a class that binds the name', "class Outer:\n    def eval(self, s):\n        return s\n    class Inner:\n        def run(self, e):\n            return eval(e)\n", True),
    ('method of a class nested two levels deep', "class A1:\n    vars = 1\n    class B1:\n        vars = 2\n        class C1:\n            def run(self, e):\n                return vars(e)\n", True),
    ('function in a class in a function that binds the name', "def outer():\n    class K:\n        globals = 1\n        def m(self):\n            return globals()\n    return K\n", True),
    ('control: no trigger', "x = len(y)\n", False),
    ('control: module defines its own eval', "def eval(s):\n    return s\nx = eval('1')\n", False),
    ('control: attribute named eval', "x = obj.eval('1')\n", False),
    ('control: local variable named vars', "def f():\n    vars = 1\n    return vars\n", False),
]


GATE_PROBE = '''
import os
def f(xs, scale):
    total = sum(e * scale for e in xs)
    text = ', '.join([str(r) for r in xs])
    g = lambda q: [w for w in q]
    @deco(lambda d: d)
    def inner(p=(lambda z: z), *rest, **kw):
        with open(p) as fh:
            for line in fh:
                yield line
    class K:
        m = [c for c in xs]
        def meth(self, v):
            return {k: v for k in v}
    try:
        pass
    except Exception as err:
        print(err)
    return max({c2 for c2 in xs}) + 2, (yy := total)
top = [t for t in f([], 1)]
__all__ = ['f', 'exported_elsewhere']
'''


def gate_tree(model, rep, rule, switch_locals, switch_globals, preserve, expect_pinned, what, key):
    """mapper + binder + resolver + the two permission gates run on a probe with scopes nested inside expressions, decorators, defaults, class
    bodies: afterwards expect_pinned(scope kind, binding name) says which bindings must be pinned."""
    from .c03 import to_obj, MAPPER, R
    from ..absnodes import set_parents, walk
    tree = ast.parse(GATE_PROBE)
    mod = to_obj(tree, {})
    set_parents(mod)
    hooks = dict(__import__('pmstatic.absnodes', fromlist=['std_hooks']).std_hooks(), **{'dir': lambda I, e, args, kw, env: dir(builtins)})
    I = Interp(model, MAPPER, hooks, max_depth=600)
    I.MAX_PATHS = 8
    UTIL = R + 'util.'

    def thunk():
        I.call_function(MAPPER + '.add_namespace', [mod])
        I.call_function(R + 'bind_names.bind_names', [mod])
        I.call_function(R + 'resolve_names.resolve_names', [mod])
        I.call_function(UTIL + 'allow_rename_locals', [mod, switch_locals, list(preserve)])
        I.call_function(UTIL + 'allow_rename_globals', [mod, switch_globals, list(preserve)])
    res = I.explore(thunk)
    if len(res) != 1 or res[0][0][0] != 'return':
        raise AnalysisError('UNDECIDED: gates on the nested-scope probe -> %s %s' % ([r[0] for r in res][:2], res[0][2][:3]))
    wrong = []
    n = 0
    for o in walk(mod):
        bs = o.attrs.get('bindings')
        if not isinstance(bs, list):
            continue
        for b in bs:
            if not isinstance(b, Obj):
                continue
            name = public_value(model, b, 'name')
            pinned = public_value(model, b, 'allow_rename') is False
            n += 1
            want = expect_pinned(o.cls, name)
            if want is not None and pinned != want:
                wrong.append('%s %r in a %s scope is %s' % ('binding', name, o.cls, 'pinned' if pinned else 'renamable'))
    if n < 25:
        raise AnalysisError('the nested-scope probe produced only %d bindings' % n)
    rep.check(not wrong, rule, 'src/python_minifier/rename/util.py', '%s on a module with %d bindings in scopes nested inside expressions, decorators, defaults and class bodies' % (what, n),
              'every binding is as required', '; '.join(wrong[:4]), key=key, cells=n)


FREEZE_TAIL = '''
def helper_function(first_value, second_value):
    intermediate_total = first_value + second_value
    return 'a repeated literal text' + repr(intermediate_total) + 'a repeated literal text' + 'a repeated literal text' + repr(intermediate_total)
module_level_total = helper_function(1, 2) + helper_function(3, 4)
'''


def frozen_end_to_end(model, rep):
    from ..absprint import print_obj
    from ..minrun import minify_tree
    mi = model.func('python_minifier.minify')

    def text(source, **opts):
        kind, tree, mod = minify_tree(model, source, opts)
        if kind != 'ok':
            return None, 'minify raises %s' % (tree,)
        kind, t = print_obj(model, mod)
        if kind != 'ok':
            return None, 'printing: %s %s' % (kind, t)
        return t, None
    changed_controls = 0
    from ..minrun import option_names
    names = option_names(model)
    NAMING = ('rename_locals', 'rename_globals', 'hoist_literals')
    defaults = {}
    for o in names:
        d = mi.defaults().get(o)
        defaults[o] = d.value if isinstance(d, ast.Constant) and isinstance(d.value, bool) else True
    every = {o: True for o in names}
    # (what is requested, the same request without the three options that rename or introduce names): "whatever options were requested"
    configs = [('renaming and hoisting requested, every other option off', dict.fromkeys(NAMING, True), {})]
    configs += [('only %s requested' % o, {o: True}, {}) for o in NAMING]
    configs += [('the default options', dict(defaults), dict(defaults, **dict.fromkeys(NAMING, False))), ('every option on', dict(every), dict(every, **dict.fromkeys(NAMING, False)))]
    for (label, source, want) in TAINT_PROBES:
        src_ = source + FREEZE_TAIL
        cache = {}

        def text_c(opts):
            k = tuple(sorted(opts.items()))
            if k not in cache:
                cache[k] = text(src_, **opts)
            return cache[k]
        for (cl, on_opts, off_opts) in configs:
            key = 'C09.E2E|' + label + ('' if cl.startswith('renaming and hoisting') else '|' + cl)
            off, err0 = text_c(off_opts)
            on, err1 = text_c(on_opts)
            if err0 or err1:
                rep.violation('C09.E2E', mi.loc(), 'trigger position: %s, %s' % (label, cl), err1 or err0, key=key)
                continue
            if want:
                rep.check(on == off, 'C09.E2E', mi.loc(), 'trigger position: %s, %s' % (label, cl), 'output identical to the one without renaming and hoisting',
                          'a module with a dynamic-name trigger in position `%s` is renamed / gets aliases (%s): %r' % (label, cl, on[:160]), key=key)
            elif cl.startswith('renaming and hoisting'):
                changed_controls += on != off
                rep.ok('C09.E2E', mi.loc(), 'control without a trigger: %s -> %s' % (label, 'renamed' if on != off else 'unchanged'), 'the probe is sensitive', key=key)
    rep.sensitive(changed_controls >= 3, 'none of the control modules without a trigger is renamed: the freeze rule cannot see anything')
    rep.floor('C09.E2E', 120)


def trigger_positions(model, rep):
    """Whole bind + resolve run on probe modules: the taint flag must be set for a trigger in any position."""
    from .c03 import to_obj, MAPPER, R
    from ..absnodes import set_parents
    rn = model.func(R + 'resolve_names.resolve_names')
    for (label, source, want) in TAINT_PROBES:
        tree = ast.parse(source)
        mod = to_obj(tree, {})
        set_parents(mod)
        hooks = dict(__import__('pmstatic.absnodes', fromlist=['std_hooks']).std_hooks(), **{'dir': lambda I, e, args, kw, env: dir(builtins)})
        I = Interp(model, MAPPER, hooks, max_depth=600)
        I.MAX_PATHS = 8

        def thunk():
            I.call_function(MAPPER + '.add_namespace', [mod])
            I.call_function(R + 'bind_names.bind_names', [mod])
            I.call_function(R + 'resolve_names.resolve_names', [mod])
        res = I.explore(thunk)
        if len(res) != 1 or res[0][0][0] != 'return':
            raise AnalysisError('UNDECIDED: bind/resolve on taint probe %r -> %s %s' % (label, [r[0] for r in res][:2], res[0][2][:3]))
        got = mod.attrs.get('tainted')
        rep.check(got is want, 'C09.TRIG', rn.loc(), 'trigger position: %s -> tainted=%r' % (label, got), 'as required',
                  ('a module with a dynamic-name trigger in position `%s` is not marked tainted after name resolution: its names can be renamed' % label) if want else
                  ('a module without a trigger (%s) is marked tainted' % label), key='C09.TRIG|position|' + label)
