"""C09 - dynamic name access freezes every name in the module."""
import ast
import builtins

from ..absint import Interp, Obj, TOP
from ..astutil import calls, literal, local_defs
from ..facts import Facts, fact_texts
from ..model import AnalysisError, src, walk_own
from ..pipeline import Pipeline

REQUIRED_TRIGGERS = {'exec', 'eval', 'locals', 'globals', 'vars'}
NAME_NEUTRAL_STAGES = {'remove_posargs'}   # rewrites the tree but neither renames nor introduces a name (moves posonlyargs into args)


def taint_stores(model):
    out = []
    for q, fi in sorted(model.funcs.items()):
        for n in walk_own(fi.node):
            if isinstance(n, ast.Assign) and len(n.targets) == 1 and isinstance(n.targets[0], ast.Attribute) and n.targets[0].attr == 'tainted':
                out.append((fi, n))
    return out


def run(model, rep):
    rep.explanation = ('(TRIG) the trigger list consulted for unresolved builtin names contains exec, eval, locals, globals, vars; a star import and an Exec node also '
                       'write the taint flag, always on the module node. (GATE) the path-fact analysis of minify() is re-run under the hypothesis module.tainted == True: '
                       'both rename switches must carry the constant fact False where they are handed to the permission gates, the exception-bracket stage must be '
                       'unreachable, no stage that appends to .bindings may be reachable after the gates (a binding created there is born renamable), and no other '
                       'tree-rewriting stage may run after name resolution except the data-gated renamer and the name-neutral positional-only rewrite; the gates '
                       'themselves are abstractly evaluated: with the switch False every binding handed to them is pinned. (ORD/OWN) taint is read only after '
                       'resolve_names completed, written False only at initialisation and True elsewhere.')
    for r, t in [('C09.TRIG', 'trigger table and trigger sites'), ('C09.GATE', 'under the taint hypothesis no name-changing stage is reachable with permission'),
                 ('C09.ORD', 'reads of tainted are dominated by resolve_names'), ('C09.OWN', 'taint writes are monotone')]:
        rep.rule(r, t)

    # ---------------- TRIG
    stores = taint_stores(model)
    trig_list_ok = False
    star = exec_node = False
    for (fi, n) in stores:
        if not (isinstance(n.value, ast.Constant) and n.value.value is True):
            continue
        F = Facts(fi.node)
        facts = F.facts_at(n)
        if facts is None:
            continue
        tgt = src(n.targets[0].value)
        defs = local_defs(fi.node)
        on_module = tgt.startswith('get_global_namespace(') or any(k == 'isinstance(%s, ast.Module)' % tgt and p for (k, p) in facts)
        where = fi.loc(n)
        for (k, p) in facts:
            if k.startswith('<') or not p:
                continue
            t = ast.parse(k, mode='eval').body
            if isinstance(t, ast.Compare) and isinstance(t.ops[0], ast.In) and isinstance(t.comparators[0], (ast.List, ast.Tuple, ast.Set)):
                try:
                    names = set(literal(t.comparators[0]))
                except ValueError:
                    continue
                if names & REQUIRED_TRIGGERS:
                    missing = REQUIRED_TRIGGERS - names
                    is_builtin_arm = any(pp and 'dir(builtins)' in kk for (kk, pp) in facts)
                    notbuiltin = [x for x in names if x not in dir(builtins)]
                    rep.note('trigger list %s at %s' % (sorted(names), where))
                    trig_list_ok = True
            if isinstance(t, ast.Compare) and isinstance(t.ops[0], ast.Eq) and isinstance(t.comparators[0], ast.Constant) and t.comparators[0].value == '*':
                star = True
                rep.check(on_module, 'C09.TRIG', where, 'import * taints', 'written on the module node', 'star-import taint is not written on the module node', key='C09.TRIG|star')
            if isinstance(t, ast.Call) and src(t.func) == 'isinstance' and src(t.args[1]).endswith('.Exec'):
                exec_node = True
                rep.check(on_module, 'C09.TRIG', where, 'exec statement taints', 'written on the module node', 'exec-statement taint is not written on the module node', key='C09.TRIG|exec')
    if not trig_list_ok:
        rep.note('no literal trigger list found next to a taint store (the trigger positions below decide the behaviour)')
    if not exec_node:
        rep.violation('C09.TRIG', 'src/python_minifier/rename/resolve_names.py', 'exec statement', 'an exec statement (Python 2 tree) no longer sets the taint flag', key='C09.TRIG|exec')
    trigger_positions(model, rep)
    rep.floor('C09.TRIG', 21)

    # ---------------- GATE under hypothesis
    P = Pipeline(model, hypothesis={'module.tainted': True})
    P0 = Pipeline(model)
    mi = P.fi
    gates = {'allow_rename_locals': 'rename_locals', 'allow_rename_globals': 'rename_globals'}
    gate_calls = {}
    for gname, flag in gates.items():
        st = P.stage(gname)
        gate_calls[gname] = st
        if st.facts is None:
            rep.violation('C09.GATE', mi.loc(st.call), src(st.call), 'permission gate is unreachable when the module is tainted: bindings keep their default permission', key='C09.GATE|gate|' + gname)
            continue
        # the argument in the flag position
        t = st.targets[0][0]
        idx = t.positional.index(flag) if flag in t.positional else None
        arg = st.call.args[idx] if idx is not None and idx < len(st.call.args) else next((k.value for k in st.call.keywords if k.arg == flag), None)
        const_false = isinstance(arg, ast.Constant) and arg.value is False
        fact_false = isinstance(arg, ast.Name) and (arg.id, False) in st.facts and ('<const:%s>' % arg.id, True) in st.facts
        rep.check(const_false or fact_false, 'C09.GATE', mi.loc(st.call), src(st.call), '%s is the constant False here when module.tainted' % src(arg),
                  'when the module is tainted, %s still receives the caller\'s %s switch: names can be renamed' % (gname, flag), key='C09.GATE|gate|' + gname)
    # stages reachable under the hypothesis
    after_gates = lambda st: st.facts is not None and all(('<did:%s>' % g, True) in st.facts for g in gates)
    resolved = lambda st: st.facts is not None and ('<did:resolve_names>', True) in st.facts
    n = 0
    for st in P.stages:
        if st.facts is None:
            if st.name == 'remove_no_arg_exception_call':
                rep.ok('C09.GATE', mi.loc(st.call), src(st.call), 'unreachable when tainted', key='C09.GATE|stage|' + st.name)
            continue
        S = st.summary
        n += 1
        if st.name in gates or st.name in ('bind_names', 'resolve_names', 'add_parent', 'add_namespace', 'unparse', '_find_shebang'):
            continue
        if resolved(st) and 'bindings' in S.ann_add:
            rep.violation('C09.GATE', mi.loc(st.call), src(st.call), 'stage %s creates bindings after name resolution and is reachable when the module is tainted: the new bindings '
                          'are born renamable, so a new name is introduced into a scope that exec/eval/locals() can see' % st.name, key='C09.GATE|stage|' + st.name)
            continue
        if st.name == 'remove_no_arg_exception_call':
            rep.violation('C09.GATE', mi.loc(st.call), src(st.call), 'exception-bracket removal relies on builtin resolution and is reachable when the module is tainted', key='C09.GATE|stage|' + st.name)
            continue
        if resolved(st) and (S.asdl or S.builds) and st.name not in NAME_NEUTRAL_STAGES and st.name != 'rename':
            rep.violation('C09.GATE', mi.loc(st.call), src(st.call), 'tree-rewriting stage %s runs after name resolution when tainted (stores %s)' % (st.name, sorted(S.asdl)[:5]), key='C09.GATE|stage|' + st.name)
            continue
        if st.name == 'rename':
            ok = after_gates(st)
            rep.check(ok, 'C09.GATE', mi.loc(st.call), src(st.call), 'data-gated renamer runs only after both permission gates', 'renamer can run before the permission gates', key='C09.GATE|stage|rename')
        elif resolved(st):
            rep.ok('C09.GATE', mi.loc(st.call), src(st.call), 'changes no name', key='C09.GATE|stage|' + st.name)
    # the gates pin everything when their switch is False (abstract evaluation)
    gate_enum(model, rep)
    # the renamer only renames bindings that are allowed
    na = model.func('python_minifier.rename.renamer.NameAssigner.__call__')
    NF = Facts(na.node)
    for c in calls(na.node):
        if isinstance(c.func, ast.Attribute) and c.func.attr == 'rename':
            facts = NF.facts_at(c)
            ok = facts is not None and ('%s.allow_rename' % src(c.func.value), True) in facts
            rep.check(ok, 'C09.GATE', na.loc(c), src(c), 'only under binding.allow_rename', 'a binding is renamed without consulting its permission', key='C09.GATE|allow')
    rep.floor('C09.GATE', 8)

    # ---------------- ORD / OWN
    for n_ in walk_own(mi.node):
        if isinstance(n_, ast.Attribute) and n_.attr == 'tainted' and isinstance(n_.ctx, ast.Load):
            facts = P0.F.facts_at(n_)
            ok = facts is not None and ('<did:resolve_names>', True) in facts and ('<did:bind_names>', True) in facts
            rep.check(ok, 'C09.ORD', mi.loc(n_), 'read of %s' % src(n_), 'after bind_names and resolve_names', 'taint is read before it has been computed (always False)', key='C09.ORD|%d' % len(rep.obligations))
    rep.floor('C09.ORD', 2)
    for (fi, n_) in stores:
        v = n_.value
        if isinstance(v, ast.Constant) and v.value is True:
            rep.ok('C09.OWN', fi.loc(n_), src(n_), 'monotone write', key='C09.OWN|%s|True' % fi.qual)
        elif isinstance(v, ast.Constant) and v.value is False:
            init = fi.qual.endswith('NameBinder.__call__')
            rep.check(init, 'C09.OWN', fi.loc(n_), src(n_), 'initialisation before binding', 'taint is reset outside the binder\'s initialisation', key='C09.OWN|%s|False' % fi.qual)
        else:
            rep.violation('C09.OWN', fi.loc(n_), src(n_), 'taint written with a computed value', key='C09.OWN|%s|computed' % fi.qual)
    rep.floor('C09.OWN', 2)  # one initialisation, at least one trigger write; helpers may merge the trigger writes


def gate_enum(model, rep):
    """allow_rename_locals / allow_rename_globals with the switch False must pin every binding they are shown."""
    util = 'python_minifier.rename.util'
    for fname, make in (('allow_rename_locals', 'FunctionDef'), ('allow_rename_globals', 'Module')):
        fi = model.func(util + '.' + fname)
        for switch in (False, True):
            b1 = Obj('NameBinding', name='keep')
            b2 = Obj('NameBinding', name='other')
            pinned = []
            hooks = {'.disallow_rename': lambda I, e, args, kw, env: pinned.append(I.last_recv),
                     'is_namespace': lambda I, e, args, kw, env: isinstance(args[0], Obj) and args[0].cls in ('FunctionDef', 'Module', 'ClassDef', 'Lambda'),
                     'ast.iter_child_nodes': lambda I, e, args, kw, env: [],
                     'find__all__': lambda I, e, args, kw, env: []}
            I = Interp(model, util, hooks)
            node = Obj(make, bindings=[b1, b2])
            res = I.explore(lambda: I.call_function(fi.qual, [node, switch, ['keep']]))
            if any(r[0][0] not in ('return',) for r in res):
                raise AnalysisError('UNDECIDED: %s(<%s>, %r, [..]) -> %s' % (fname, make, switch, [r[0] for r in res]))
            got = {id(x) for x in pinned}
            want = {id(b1), id(b2)} if switch is False else {id(b1)}
            rep.check(got == want, 'C09.GATE', fi.loc(), '%s(switch=%r) pins %d of 2 bindings' % (fname, switch, len(got)),
                      'all bindings pinned' if switch is False else 'only the preserved name pinned',
                      'with the switch %r the gate pins %s' % (switch, [x.attrs.get('name') for x in pinned]), key='C09.GATE|enum|%s|%r' % (fname, switch))


TAINT_PROBES = [
    ('module level call', "x = eval('1')\n", True),
    ('nested function', "def f():\n    def g():\n        return locals()\n    return g\n", True),
    ('decorator', "@eval('d')\ndef f(): pass\n", True),
    ('default value', "def f(a=globals()): pass\n", True),
    ('keyword-only default', "def f(*, a=vars()): pass\n", True),
    ('comprehension element', "y = [vars() for _ in z]\n", True),
    ('comprehension condition', "y = [q for q in z if eval(q)]\n", True),
    ('attribute base', "n = exec.__name__\n", True),
    ('class body', "class C:\n    n = locals()\n", True),
    ('method', "class C:\n    def m(self):\n        return globals()\n", True),
    ('after a local import', "def f():\n    import os\n    return eval(os.x)\n", True),
    ('lambda', "f = lambda: globals()\n", True),
    ('argument of a call', "print(sorted(vars()))\n", True),
    ('star import', "from m import *\n", True),
    ('class attribute of the same name plus a genuine use', "class E:\n    def eval(self, s):\n        return s\n    __call__ = eval\ndef run(e):\n    return eval(e)\n", True),
    ('class attribute named vars plus a genuine use', "class K:\n    vars = (1, 2)\n    req = frozenset(vars)\ndef show(o):\n    return vars(o)\n", True),
    ('control: no trigger', "x = len(y)\n", False),
    ('control: module defines its own eval', "def eval(s):\n    return s\nx = eval('1')\n", False),
    ('control: attribute named eval', "x = obj.eval('1')\n", False),
    ('control: local variable named vars', "def f():\n    vars = 1\n    return vars\n", False),
]


def trigger_positions(model, rep):
    """Whole bind + resolve run on probe modules: the taint flag must be set for a trigger in any position."""
    from .c03 import to_obj, MAPPER, R
    from ..absnodes import set_parents
    rn = model.func(R + 'resolve_names.resolve_names')
    for (label, source, want) in TAINT_PROBES:
        tree = ast.parse(source)
        mod = to_obj(tree, {})
        set_parents(mod)
        hooks = dict(__import__('pmstatic.absnodes', fromlist=['std_hooks']).std_hooks(), **{'dir': lambda I, e, args, kw, env: dir(builtins)})
        I = Interp(model, MAPPER, hooks, max_depth=600)
        I.MAX_PATHS = 8

        def thunk():
            I.call_function(MAPPER + '.add_namespace', [mod])
            I.call_function(R + 'bind_names.bind_names', [mod])
            I.call_function(R + 'resolve_names.resolve_names', [mod])
        res = I.explore(thunk)
        if len(res) != 1 or res[0][0][0] != 'return':
            raise AnalysisError('UNDECIDED: bind/resolve on taint probe %r -> %s %s' % (label, [r[0] for r in res][:2], res[0][2][:3]))
        got = mod.attrs.get('tainted')
        rep.check(got is want, 'C09.TRIG', rn.loc(), 'trigger position: %s -> tainted=%r' % (label, got), 'as required',
                  ('a module with a dynamic-name trigger in position `%s` is not marked tainted after name resolution: its names can be renamed' % label) if want else
                  ('a module without a trigger (%s) is marked tainted' % label), key='C09.TRIG|position|' + label)
