"""C14 - the command line tool never emits more bytes than it was given (decided by evaluating the entry point on enumerated scenarios)."""
import ast

from . import cli_e2e as E
from ..model import AnalysisError, src

MAIN = 'python_minifier.__main__'
OVERRIDE = E.OVERRIDE


def env_reads(model):
    """Every read of the process environment in the package: (FuncInfo|None, node, key or None)."""
    out = []
    for rel, tree in model.trees.items():
        for n in ast.walk(tree):
            hit = None
            if isinstance(n, ast.Attribute) and n.attr in ('environ', 'environb', 'getenv', 'getenvb') and src(n.value) == 'os':
                hit = n
            elif isinstance(n, ast.ImportFrom) and n.module == 'os' and any(a.name in ('environ', 'getenv', 'environb') for a in n.names):
                hit = n
            if hit is None:
                continue
            key = None
            par = model.parent(n)
            # os.environ.get('K') / os.environ['K'] / os.getenv('K') / 'K' in os.environ
            if isinstance(par, ast.Attribute) and par.attr in ('get', 'pop', 'setdefault'):
                call = model.parent(par)
                if isinstance(call, ast.Call) and call.args and isinstance(call.args[0], ast.Constant):
                    key = call.args[0].value
            elif isinstance(par, ast.Subscript) and isinstance(par.slice, ast.Constant):
                key = par.slice.value
            elif isinstance(par, ast.Call) and par.func is n and par.args and isinstance(par.args[0], ast.Constant):
                key = par.args[0].value
            elif isinstance(par, ast.Compare) and isinstance(par.left, ast.Constant):
                key = par.left.value
            out.append((rel, n, key))
    return out


def run(model, rep):
    rep.explanation = ('main() of the command line module is evaluated by the abstract interpreter inside a modelled environment (pmstatic.clirun; see C13). '
                       '(SIZE) over the output modes (stdin, file, several files, directory tree; stdout, --output, --in-place) every source is answered by '
                       'minify() with a text that is shorter, longer, longer only when counted in bytes (non-ASCII), or equally long, alone and mixed along the '
                       'file list, with and without the override variable; plus 42 boundary cases of (answer length, source length, override) through stdin. '
                       'What reaches each destination must be the UTF-8 encoding of the answer when that is not larger in bytes than the source (or the '
                       'override is set), and the untouched source otherwise - per file, also when an earlier or later file goes the other way. '
                       '(ENV) a syntactic scan of the whole package: the only read of the process environment is the documented override, and the evaluated '
                       'runs consult no other variable. No shape of main / do_minify is assumed (the fallback may be an exception, a return value, a helper). '
                       'Not decided: behaviour of the operating system write itself; sources beyond the enumerated length relations.')
    rep.rule('C14.SIZE', 'every destination receives at most len(source) bytes: the encoded answer when not larger in bytes, else the untouched source; only the override turns this off (enumerated end to end)')
    rep.rule('C14.ENV', 'the only environment read in the package is the documented override')
    main = model.func(MAIN + '.main')
    modes = E.run_modes(model, rep.tier)
    E.report(rep, 'C14.SIZE', main.loc(), modes, ('size', 'payload'), 'written bytes', 'never more than the source; the original is passed through when the answer is larger', None)
    rep.floor('C14.SIZE', 10)

    reads = env_reads(model)
    for (rel, n, k) in reads:
        fi = model.enclosing_function(rel, n)
        ok = k == OVERRIDE and fi is not None and fi.module == MAIN
        rep.check(ok, 'C14.ENV', '%s:%d' % (rel, n.lineno), src(model.parent(n)) if model.parent(n) is not None else src(n),
                  'documented override read in the command line module', 'environment read other than the documented override (key=%r in %s)' % (k, fi.qual if fi else 'module level'),
                  key='C14.ENV|%s|%s' % (fi.qual if fi else rel, k))
    rep.floor('C14.ENV', 1)
