"""C14 - the command line tool never emits more bytes than it was given (structural clauses)."""
import ast

from ..astutil import calls, expanded_facts, local_defs
from ..facts import implies_le, fact_texts
from ..model import AnalysisError, src, walk_own
from .cli_common import MAIN, NOT_BENEFICIAL, MainAnalysis

OVERRIDE = 'PYMINIFY_FORCE_BEST_EFFORT'


def env_reads(model):
    """Every read of the process environment in the package: (FuncInfo|None, node, key or None)."""
    out = []
    for rel, tree in model.trees.items():
        for n in ast.walk(tree):
            hit = None
            if isinstance(n, ast.Attribute) and n.attr in ('environ', 'environb', 'getenv', 'getenvb') and src(n.value) == 'os':
                hit = n
            elif isinstance(n, ast.ImportFrom) and n.module == 'os' and any(a.name in ('environ', 'getenv', 'environb') for a in n.names):
                hit = n
            if hit is None:
                continue
            key = None
            par = model.parent(n)
            # os.environ.get('K') / os.environ['K'] / os.getenv('K') / 'K' in os.environ
            if isinstance(par, ast.Attribute) and par.attr in ('get', 'pop', 'setdefault'):
                call = model.parent(par)
                if isinstance(call, ast.Call) and call.args and isinstance(call.args[0], ast.Constant):
                    key = call.args[0].value
            elif isinstance(par, ast.Subscript) and isinstance(par.slice, ast.Constant):
                key = par.slice.value
            elif isinstance(par, ast.Call) and par.func is n and par.args and isinstance(par.args[0], ast.Constant):
                key = par.args[0].value
            elif isinstance(par, ast.Compare) and isinstance(par.left, ast.Constant):
                key = par.left.value
            out.append((rel, n, key))
    return out


def run(model, rep):
    rep.explanation = ('Decides the structural clauses of C14 on __main__.py: (CMP) every value do_minify returns is the UTF-8 encoding of the '
                       'minify() result and is returned only under the fact len(that value) <= len(source) - or under the documented environment '
                       'override; (CATCH) every do_minify call in main() is inside a try that catches MinificationNotBeneficialError; (SINKS) in that '
                       'handler only the bytes read are written, elsewhere only the do_minify result; (ENV) the override is the only environment read. '
                       'Not decided: behaviour of the operating system write itself.')
    rep.rule('C14.CMP', 'each return of do_minify carries len(returned bytes) <= len(source) or the override fact; operands are bytes')
    rep.rule('C14.CATCH', 'each do_minify call in main is in a try catching MinificationNotBeneficialError')
    rep.rule('C14.SINKS', 'payload written in the not-beneficial handler is the source read; outside it is the do_minify result')
    rep.rule('C14.ENV', 'only environment read in the package is the documented override, inside do_minify')
    A = MainAnalysis(model)
    dm = A.do_minify
    F = A.facts[dm.qual]
    defs = A.defs[dm.qual]
    mcall = A.minify_call()
    src_param = dm.positional[0] if dm.positional else None
    # the source handed to minify must be do_minify's own first parameter, unmodified
    first = mcall.args[0] if mcall.args else None
    ok_src = isinstance(first, ast.Name) and first.id == src_param and defs.get(src_param) == ['<param>']
    rep.check(ok_src, 'C14.CMP', dm.loc(mcall), 'minify(%s, ...)' % src(first), 'source parameter reaches minify unmodified',
              'the bytes that are measured (%s) are not the bytes handed to minify' % src_param, key='C14.CMP|source-wiring')

    if not F.returns:
        rep.violation('C14.CMP', dm.loc(), 'do_minify', 'no return statement found')
    for (ret, facts) in F.returns:
        where = dm.loc(ret)
        v = ret.value
        text = src(v)
        key = 'C14.CMP|return ' + text
        if v is None:
            rep.violation('C14.CMP', where, 'return', 'returns nothing', key=key)
            continue
        # provenance: name assigned once from <minify result>.encode('utf-8'), or that expression itself
        e = v
        if isinstance(v, ast.Name):
            ds = defs.get(v.id, [])
            if len(ds) != 1 or not isinstance(ds[0], ast.AST):
                rep.violation('C14.CMP', where, 'return ' + text, 'returned variable has %d definitions' % len(ds), key=key)
                continue
            e = ds[0]
        is_enc = isinstance(e, ast.Call) and isinstance(e.func, ast.Attribute) and e.func.attr == 'encode'
        recv_ok = False
        if is_enc:
            r = e.func.value
            if isinstance(r, ast.Name):
                rd = defs.get(r.id, [])
                recv_ok = len(rd) == 1 and rd[0] is mcall
            else:
                recv_ok = r is mcall
        if not (is_enc and recv_ok):
            rep.note('C14.CMP: return value at %s is not syntactically <result of minify()>.encode(...) (decided by the abstract evaluation of do_minify instead)' % where)
            continue
        xf = expanded_facts(facts, {})
        override = any(p and OVERRIDE in k and 'environ' in k for (k, p) in facts if not k.startswith('<'))
        le = implies_le(facts, 'len(%s)' % text, 'len(%s)' % src_param)
        if override:
            rep.ok('C14.CMP', where, 'return ' + text, 'reached only under the documented override ' + OVERRIDE, key=key)
        elif le:
            rep.ok('C14.CMP', where, 'return ' + text, 'dominated by len(%s) %s len(%s)' % (text, '<' if le == 'lt' else '<=', src_param), key=key)
        else:
            rep.note('C14.CMP: no single fact bounds len(%s) by len(%s) at %s (decided by the abstract evaluation of do_minify instead)' % (text, src_param, where))
    eval_rule(model, rep, A)
    rep.floor('C14.CMP', 2)

    # CATCH
    mf = A.facts[A.main.qual]
    dcalls = A.do_minify_calls(A.main)
    for c in dcalls:
        facts = mf.facts_at(c)
        ok = facts is not None and ('<try-catches:%s>' % NOT_BENEFICIAL, True) in facts
        rep.check(ok, 'C14.CATCH', A.main.loc(c), src(c), 'inside try/except ' + NOT_BENEFICIAL,
                  'do_minify call is not protected by an except %s handler: the size fallback cannot be taken' % NOT_BENEFICIAL,
                  key='C14.CATCH|' + src(c))
    # any other function calling do_minify
    for q, fi in model.funcs.items():
        if fi.module == MAIN and fi is not A.main and fi is not dm:
            for c in calls(fi.node):
                if isinstance(c.func, ast.Name) and model.resolve_name(MAIN, c.func.id) == dm.qual:
                    rep.violation('C14.CATCH', fi.loc(c), src(c), 'do_minify called outside main(): not covered by the size fallback', key='C14.CATCH|extra|' + q)
    rep.floor('C14.CATCH', 2)

    # SINKS
    for snk in A.lifted_sinks():
        fi = snk.func
        ok, kind, why = A.judge_sink(snk)
        if ok is None:
            continue  # the path listing is checked under C13.OUT / C15
        where = fi.loc(snk.call)
        tgt = src(snk.target) if snk.target is not None else snk.kind
        in_handler = ('<caught:%s>' % NOT_BENEFICIAL, True) in snk.facts
        key = 'C14.SINKS|%s|%s|%s|%s' % (fi.name, src(snk.payload), tgt, 'handler' if in_handler else 'normal')
        rep.check(ok, 'C14.SINKS', where, '%s%s -> %s' % (src(snk.call)[:60], ' (via %s)' % '/'.join(getattr(snk, 'via', [])) if getattr(snk, 'via', None) else '', tgt), why, why, key=key)
    rep.floor('C14.SINKS', 3)

    # ENV
    reads = env_reads(model)
    for (rel, n, k) in reads:
        fi = model.enclosing_function(rel, n)
        ok = k == OVERRIDE and fi is not None and fi.qual == dm.qual
        rep.check(ok, 'C14.ENV', '%s:%d' % (rel, n.lineno), src(model.parent(n)) if model.parent(n) is not None else src(n),
                  'documented override read in do_minify', 'environment read other than the documented override (key=%r in %s)' % (k, fi.qual if fi else 'module level'),
                  key='C14.ENV|%s|%s' % (fi.qual if fi else rel, k))
    rep.floor('C14.ENV', 1)
    rep.count('functions', len([f for f in model.funcs.values() if f.module == MAIN]))


def eval_rule(model, rep, A):
    """do_minify abstractly evaluated for results / sources of chosen lengths: without the override it returns the UTF-8 encoding of the
    result exactly when that is not longer *in bytes* than the source, and raises the not-beneficial error otherwise."""
    from ..absint import Interp, Obj, TOP
    dm = A.do_minify
    cases = [('ab', b'abc'), ('abc', b'abc'), ('abcd', b'abc'), ('', b''), ('a', b''), ('\xe9\xe9', b'abc'), ('\xe9', b'ab'), ('\xe9', b'a'), ('a€', b'abcd'), ('a€', b'abc'),
             ('\U0001f600', b'abcd'), ('\U0001f600', b'abc'), ('x' * 40, b'y' * 39), ('x' * 39, b'y' * 40)]
    specs = {}
    import argparse
    n = 0
    for override in (None, '', '1'):
        for (result, source) in cases:
            hooks = {'minify': lambda I, e, args, kw, env, _r=result: _r,
                     'os.environ.get': lambda I, e, args, kw, env, _o=override: (_o if args and args[0] == OVERRIDE else None),
                     'os.getenv': lambda I, e, args, kw, env, _o=override: (_o if args and args[0] == OVERRIDE else None)}
            I = Interp(model, MAIN, hooks)
            I.MAX_PATHS = 64
            ns = Obj('Namespace', preserve_globals=None, preserve_locals=None)   # every other option attribute is unknown (TOP): the size rule must not depend on them
            res = I.explore(lambda: I.call_function(dm.qual, [source, 'f.py', ns]))
            n += 1
            want_bytes = result.encode('utf-8')
            forced = bool(override)
            for (o, ev, unk) in res:
                label = 'result %r (%d bytes), source %d bytes, override %r' % (result[:6], len(want_bytes), len(source), override)
                if o[0] == 'abort' or (o[0] == 'return' and o[1] is TOP):
                    raise AnalysisError('UNDECIDED: do_minify(%s) -> %s %s' % (label, o, unk[:3]))
                if not forced and len(want_bytes) == len(source):
                    # "would not shrink": returning the (equally long) result or falling back to the original are both within the property
                    ok = (o[0] == 'return' and o[1] == want_bytes) or (o[0] == 'raise' and NOT_BENEFICIAL in str(o[1]))
                    why = 'must return the UTF-8 bytes of the result or fall back'
                elif forced or len(want_bytes) < len(source):
                    ok = o[0] == 'return' and o[1] == want_bytes
                    why = 'must return the UTF-8 bytes of the result'
                else:
                    ok = o[0] == 'raise' and NOT_BENEFICIAL in str(o[1])
                    why = 'must raise %s (the result is larger in bytes than the source)' % NOT_BENEFICIAL
                if not ok:
                    rep.violation('C14.CMP', dm.loc(), 'do_minify: ' + label, '%s, but it %s' % (why, 'returns %r' % (o[1],) if o[0] == 'return' else 'raises %s' % o[1]), key='C14.CMP|eval|' + label)
                    return
    rep.ok('C14.CMP', dm.loc(), 'do_minify evaluated on %d (result, source, override) cases incl. non-ASCII results' % n, 'returns the encoded result iff not larger in bytes (or forced)', cells=n, key='C14.CMP|eval')
