"""C07 - constant folding never changes a value, its type, or an error (guards of the single replacement site)."""
import ast

from ..absint import Interp, TOP
from ..astutil import calls, expanded_facts, kwarg, local_defs, single_def
from ..facts import Facts, fact_texts, implies_le
from ..model import AnalysisError, src, walk_own

FOLD = 'python_minifier.transforms.constant_folding.FoldConstants.visit_BinOp'
MOD = 'python_minifier.transforms.constant_folding'
BROAD = ('Exception', 'BaseException')
SAFE_KINDS = {'Num', 'NameConstant'}


def run(model, rep):
    rep.explanation = ('The folding transform is run by the abstract interpreter on modules of literal arithmetic: every pair of operand kinds (int, bool, float, complex, '
                       'large and boundary values) under every binary operator, in both statement orders within one module, plus nested forms. eval() inside the '
                       'transform is answered by the checker for literal-only text (anything else reaching it is an error of its own). The folded module is then '
                       'printed by the repository\'s printer (abstractly run as well), the text is parsed by this interpreter\'s parser and each statement is '
                       'evaluated: the result must be identical in type, value (sign of zero, infinities) and exception to the original; an expression that '
                       'raises, yields NaN, is an integer true division (its value depends on the interpreter major version) or would not get strictly shorter '
                       'must be left alone. No shape of visit_BinOp is assumed (helpers, early returns and tables are all fine). equal_value_and_type is also '
                       'evaluated on exemplar pairs of every numeric type and must refuse every cross-type pair. Decided for the enumerated operand kinds and '
                       'nesting forms, not for all expressions.')
    rep.rule('C07.ENUM', 'the folding transform, abstractly run on every operand-type pair x operator and on nested forms and printed back, never changes type, value or error, '
                         'leaves raising / NaN / integer-division / not-shorter expressions alone')
    rep.rule('C07.TYPE', 'equal_value_and_type refuses cross-type pairs (enumerated)')
    enum(model, rep)

    # ---------------- TYPE (abstract enumeration of the comparison helper, when there is one)
    eq = model.funcs.get(MOD + '.equal_value_and_type')
    if eq is None:
        rep.note('no equal_value_and_type helper in %s: the comparison is decided through C07.ENUM only' % MOD)
        return
    ex = [0, 1, 2, True, False, 0.0, 1.0, 2.0, 1.5, 0j, 1j, (1 + 0j), 10 ** 20, float('inf')]
    cells = 0
    bad = []
    for a in ex:
        for b in ex:
            I = Interp(model, MOD, hooks={'math.isnan': lambda I_, e, args, kw, env: (args[0] != args[0]) if isinstance(args[0], float) else TOP})
            res = I.explore(lambda: I.call_function(eq.qual, [a, b]))
            cells += 1
            outs = {r[0] for r in res}
            if any(o[0] != 'return' or o[1] is TOP for o in outs):
                raise AnalysisError('UNDECIDED: equal_value_and_type(%r, %r) -> %s' % (a, b, outs))
            val = {bool(o[1]) for o in outs}
            want = (type(a) is type(b)) and a == b
            if val != {want}:
                bad.append((a, b, val))
    for (a, b, val) in bad[:5]:
        rep.violation('C07.TYPE', eq.loc(), 'equal_value_and_type(%r, %r)' % (a, b), 'returns %s; values of different type or value must not be accepted as equal' % sorted(val),
                      key='C07.TYPE|%r|%r' % (a, b))
    if not bad:
        rep.ok('C07.TYPE', eq.loc(), 'equal_value_and_type over %d exemplar pairs' % cells, 'true exactly for pairs of identical type and value', cells=cells, key='C07.TYPE|enum')


# ---------------------------------------------------------------------- ENUM: the folding transform abstractly run on literal arithmetic
OPERANDS = ['0', '1', '2', '3', '7', '10', 'True', 'False', '0.0', '1.0', '2.0', '0.5', '1e308', '1j', '3j', '0.5j', '100000']
OPS = ['+', '-', '*', '%', '//', '<<', '>>', '|', '&', '^', '/', '**', '@']
NESTED = ['(1+2)*(1.0+2)', '(2*3)-(2.0*3)', '1+2+3.0', '2**3+1', '-1+2', '(1<<2)+(1.0<<2)', '[1<<2, 1.0<<2]', '1+2 if 1.0+2 else True+2', '(0*1.0)+(0*1)', '1e308*10+1', '(1-2)*3', '(1-2)-(1.0-2)',
          '10*10*10*10', '1000*1000+0.5', '(True+True)*(1+1)', '1j*1j+1', '(5%3)+(5.0%3)', '7//2+7.0//2', '(1|2)&3', '3-3.0', '0.5+0.5', '(1-4)**2', '(2-5)**2.0', '1<<14', '1<<13', '5*20', '(1-3).real', '(0-1)*0.0', '(1e308*10)-(1e308*10)', '(1e308*10)*0', '2-(3-5)',
          # results beyond the interpreter's int-to-str digit limit (4300 digits by default since 3.11): not shorter, left as they are - and no error
          '1<<16384', '3*(1<<16384)', '(1<<16384)-1', '10**5000', '-(10**4400)', '[1<<15000, 2]', '(1<<20000)*0.5 if a else 1<<20000',
          '1--(1-2)', '[1<<17]', '(1<<17,)', '{0:3<<16}', '[7, 8][1<<17:]', '(1<<17).real', '{1<<17}', '[1<<13, 1<<17, 1<<18]', '-(1<<17)', 'not 1<<17', '5 if 1<<17 else 0', '[a, 1<<17]', '(a, 1<<18)',
          '2.0*1' + '0' * 400, '1' + '0' * 400 + '-0.5', '1e308*1' + '0' * 400, '(1<<2000)*1.5', '7.0//(1' + '0' * 400 + ')',
          '1j-3j', '10000j-30000j', '(1j-3j)*2', '1j*(0-1)', '[1j-3.5j][0]', '(0-1)*0j', '(1+1)/(2+2)', '(1+1.0)/(2+2)', '7%(2-2)', '1<<(1-2)', "'a'*3", "'a'+'b'", "b'a'*2", "'%d'%1", "'a'*(1+2)", '(1+2)*"ab"',
          # chains: folding the trailing constants of a float chain would re-associate it
          '.1+.2+.3', '2**53+1.+1.', '1/49*7.*7.', '.1*3*3', '1e16+1+1', '(.1+.2)+.3', '.3+(.1+.2)', '1e308*10*0', '5-.1-.2',
          # chains with a free operand `a` (evaluated for several values of a)
          'a+.1+.2', 'a*7.*7.', 'a+1+2', '1+a+2', 'a-1-1', 'a*2*.5', '.1+a+.2', 'a+(1+2)', '(a+1)+2', 'a|1|2', 'a&6&3', '-a+1+2']


def obj_to_ast(o):
    from ..absint import Obj
    if isinstance(o, list):
        return [obj_to_ast(x) for x in o]
    if not isinstance(o, Obj):
        return o
    cls = getattr(ast, o.cls)
    kw = {}
    for f in cls._fields:
        if f in o.attrs:
            kw[f] = obj_to_ast(o.attrs[f])
    node = cls(**kw)
    if isinstance(node, ast.expr) and not hasattr(node, 'ctx') and 'ctx' in cls._fields:
        node.ctx = ast.Load()
    return node


FREE_VALUES = (0.3, 1 / 49.0, 2.0 ** 53, 1e16, 7, True, 0.1)


def outcome(expr_node, env=None):
    """(type name, repr) of evaluating a literal-only expression tree (plus, at most, the free operand `a`) with empty namespaces, or
    ('raises', exception type)."""
    try:
        code = compile(ast.fix_missing_locations(ast.Expression(body=expr_node)), 'literal', 'eval')
        v = eval(code, {'__builtins__': {}}, dict(env or {}))  # the tree consists of literals, operators and the operand `a`, generated by this checker only
    except Exception as e:
        return ('raises', type(e).__name__)
    try:
        return (type(v).__name__, repr(v))
    except ValueError:
        return (type(v).__name__, hex(v))


def literal_only(node):
    """The text handed to eval() consists of literals (numbers, strings, bytes, True/False/None/...) and operators only: no names, calls, attribute
    access, subscripts, displays, comprehensions, lambdas or f-strings."""
    return all(isinstance(n, (ast.Expression, ast.BinOp, ast.UnaryOp, ast.Constant, ast.operator, ast.unaryop, ast.expr_context)) for n in ast.walk(node))


def fold_hooks(evaluated=None):
    """Hooks under which the folding transform can be evaluated: the printer's helpers, and eval() answered here for literal-only text. Text that
    is not literal-only is never evaluated: it is recorded in `evaluated` (when given, as (text, False)) and answered with NameError, or -
    without a recorder - is an analysis error."""
    from ..absint import _Raise
    from ..absprint import printer_hooks

    def safe_eval_hook(I, e, args, kw, env):
        text = args[0]
        if not isinstance(text, str):
            return TOP
        try:
            t = ast.parse(text, mode='eval')
        except SyntaxError:
            raise _Raise('SyntaxError')
        lit = literal_only(t)
        if evaluated is not None:
            evaluated.append((text, lit))
        if not lit:
            if evaluated is None:
                raise AnalysisError('the folding transform evaluates %r, which is not literal-only arithmetic' % text[:60])
            raise _Raise('NameError')
        try:
            return eval(compile(t, 'literal', 'eval'), {'__builtins__': {}}, {})   # literal numbers and operators only (checked above)
        except Exception as ex:
            raise _Raise(type(ex).__name__)
    hooks = printer_hooks()
    hooks.pop('compare_ast', None)
    hooks['safe_eval'] = safe_eval_hook
    hooks['eval'] = lambda I, e, args, kw, env: safe_eval_hook(I, e, args, kw, env)
    hooks['math.isnan'] = lambda I, e, args, kw, env: (args[0] != args[0]) if isinstance(args[0], float) else (TOP if args[0] is TOP else False)
    return hooks


def fold_run(model, source, evaluated=None):
    """minify() itself, evaluated with only constant_folding on, on `source`. -> (original CPython tree, resulting module descriptor | ('raise', what))."""
    import copy
    from ..minrun import minify_tree
    tree = ast.parse(source)
    kind, out, mod = minify_tree(model, source, {'constant_folding': True}, tree=copy.deepcopy(tree), extra_hooks=fold_hooks(evaluated), max_paths=16)
    if kind == 'raise':
        return tree, ('raise', out)
    return tree, mod


def printed_values(model, tree, n):
    """Print a module of n `v = <expr>` statements with the repository's printer (abstractly run), parse the text, and return per statement
    (value node, printed text of the value)."""
    from ..absprint import print_module
    kind, text = print_module(model, tree)
    if kind != 'ok':
        return kind, text
    try:
        t = ast.parse(text)
    except SyntaxError as e:
        return 'unparsable', '%s: %r' % (e, text[:80])
    if len(t.body) != n or not all(isinstance(st, ast.Assign) for st in t.body):
        return 'unparsable', 'printed module has %d statements, expected %d' % (len(t.body), n)
    return 'ok', [(st.value, ast.get_source_segment(text, st.value) or '') for st in t.body]


def int_division(node):
    """A true division whose operands are both integer (or bool) literals: 1/2 is 0 on Python 2 and 0.5 on Python 3."""
    return isinstance(node, ast.BinOp) and isinstance(node.op, ast.Div) and all(isinstance(x, ast.Constant) and isinstance(x.value, int) for x in (node.left, node.right))


def enum(model, rep, rule='C07.ENUM', only_length=False, only_raises=False):
    """only_length: the C17 reading of the same enumeration (a fold is kept only where the printed text gets strictly shorter)."""
    import copy
    fi = model.func(FOLD)
    cells = 0
    bad = []
    sources = []
    quick = rep.tier != 'thorough'
    operands = [o for o in OPERANDS if o not in ('7', '10', '100000', '2.0', '3', '1e308')] if quick else OPERANDS
    for op in (['%', '//', '<<', '>>'] if only_raises else OPS if not only_length else ['<<', '*', '+']):
        lines = ['v%d = %s %s %s' % (i, a, op, b) for i, (a, b) in enumerate((a, b) for a in operands for b in operands)]
        sources.append(('all operand pairs for %s' % op, '\n'.join(lines) + '\n'))
        if not quick or op in ('+', '<<', '*'):
            sources.append(('all operand pairs for %s, reversed order' % op, '\n'.join(reversed(lines)) + '\n'))
    sources.append(('nested expressions', '\n'.join('w%d = %s' % (i, e) for i, e in enumerate(NESTED)) + '\n'))
    sources.append(('nested expressions, reversed order', '\n'.join('w%d = %s' % (i, e) for i, e in reversed(list(enumerate(NESTED)))) + '\n'))
    n_changed = 0
    for (label, source) in sources:
        tree, out = fold_run(model, source, evaluated=[])   # text that is not a closed literal is answered with NameError, as eval would (C12 judges it)
        if isinstance(out, tuple):
            rep.violation(rule, fi.loc(), label, 'the folding transform raises %s on literal arithmetic whose evaluation fails; such expressions must be left alone' % out[1], key=rule + '|raises|' + label.split(',')[0])
            bad.append(None)
            continue
        if only_raises:
            rep.ok(rule, fi.loc(), '%s: %d expressions' % (label, len(tree.body)), 'the folding transform raises on none of them (failing evaluations are left alone)', cells=len(tree.body), key=rule + '|fold|' + label)
            continue
        body = out.attrs['body']
        if len(body) != len(tree.body):
            raise AnalysisError('FoldConstants changed the number of statements')
        new_tree = ast.Module(body=[obj_to_ast(st) for st in body], type_ignores=[])
        for st in new_tree.body:
            for t_ in st.targets:
                t_.ctx = ast.Store()
        ast.fix_missing_locations(new_tree)
        k_new, new_vals = printed_values(model, new_tree, len(body))
        k_old, old_vals = printed_values(model, copy.deepcopy(tree), len(body))
        if k_old != 'ok':
            raise AnalysisError('the unfolded probe module cannot be printed: %s %s' % (k_old, old_vals))
        if k_new != 'ok':
            rep.violation(rule, fi.loc(), label, 'the folded module cannot be printed and parsed back: %s %s' % (k_new, str(new_vals)[:120]), key=rule + '|print|' + label.split(',')[0])
            bad.append(None)
            continue
        n_bad0, n_changed0 = len(bad), n_changed
        for orig_stmt, new_stmt, (pv, ptext), (_ov, otext) in zip(tree.body, new_tree.body, new_vals, old_vals):
            cells += 1
            text = ast.unparse(orig_stmt.value)
            if ast.dump(new_stmt.value) == ast.dump(orig_stmt.value):
                continue  # left alone
            n_changed += 1
            free = {n_.id for n_ in ast.walk(orig_stmt.value) if isinstance(n_, ast.Name)}
            if free:
                if free != {'a'} or {n_.id for n_ in ast.walk(pv) if isinstance(n_, ast.Name)} - {'a'}:
                    raise AnalysisError('probe %r has free names %s' % (text, sorted(free)))
                want = got = None
                for val in FREE_VALUES:
                    w_, g_ = outcome(copy.deepcopy(orig_stmt.value), {'a': val}), outcome(copy.deepcopy(pv), {'a': val})
                    if w_ != g_:
                        want, got = ('for a=%r ' % (val,),) + w_, ('for a=%r ' % (val,),) + g_
                        break
                if want is None:
                    want = got = ('same', 'for every sampled a')
            else:
                want = outcome(copy.deepcopy(orig_stmt.value))
                got = outcome(pv)
            if only_length:
                if len(ptext) >= len(otext):
                    bad.append((label, text, ptext, 'prints as %r (%d characters)' % (otext, len(otext)), 'the folded form %r is not shorter' % ptext))
            elif got != want:
                bad.append((label, text, ptext, 'evaluates to %s' % (want,), 'the folded form, as printed, evaluates to %s' % (got,)))
            elif any(int_division(x) for x in ast.walk(orig_stmt.value)) and not any(int_division(x) for x in ast.walk(pv)):
                bad.append((label, text, ptext, 'contains an integer true division', 'it was folded, but its value differs between Python 2 and Python 3'))
            elif len(ptext) >= len(otext):
                bad.append((label, text, ptext, 'prints as %r (%d characters)' % (otext, len(otext)), 'the folded form %r is not shorter' % ptext))
        if len(bad) == n_bad0:
            rep.ok(rule, fi.loc(), '%s: %d expressions, %d folded' % (label, len(body), n_changed - n_changed0),
                   'every folded form, printed and parsed back, evaluates to the identical type and value and is strictly shorter', cells=len(body), key=rule + '|' + label)
    if cells and not n_changed and not bad and not only_raises:
        raise AnalysisError('FoldConstants folded none of the %d probe expressions: the enumeration does not reach the transform' % cells)
    seen = set()
    for (label, text, new, want, got) in [b for b in bad if b is not None]:
        k = (text, new)
        if k in seen:
            continue
        seen.add(k)
        if len(seen) > 6:
            break
        rep.violation(rule, fi.loc(), '%s  ->  %s   (%s)' % (text, new, label), 'the original %s; %s' % (want, got), key=rule + '|%s|%s' % (text, new))
    if not only_raises:
        rep.floor(rule, 10 if not only_length else 4)
