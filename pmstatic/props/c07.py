"""C07 - constant folding never changes a value, its type, or an error (guards of the single replacement site)."""
import ast

from ..absint import Interp, TOP
from ..astutil import calls, expanded_facts, kwarg, local_defs, single_def
from ..facts import Facts, fact_texts, implies_le
from ..model import AnalysisError, src, walk_own

FOLD = 'python_minifier.transforms.constant_folding.FoldConstants.visit_BinOp'
MOD = 'python_minifier.transforms.constant_folding'
BROAD = ('Exception', 'BaseException')
SAFE_KINDS = {'Num', 'NameConstant'}


def replacement_returns(fi, F):
    """Returns of visit_BinOp whose value is not the (unchanged) node parameter."""
    node_p = fi.positional[0]
    out = []
    for (ret, facts) in F.returns:
        if isinstance(ret.value, ast.Name) and ret.value.id == node_p:
            continue
        out.append((ret, facts))
    return out


def run(model, rep):
    rep.explanation = ('The folding transform has one site that replaces an expression. The check finds it (any return of visit_BinOp that does not return the node '
                       'unchanged) and requires on every path to it: both operands literal Num/NameConstant nodes; operator neither Div nor Pow; the original and the '
                       'candidate evaluated inside broad handlers that return the node unchanged; the NaN arm taken out; strictly shorter; candidate re-parsed and '
                       'compared; equal_value_and_type true. equal_value_and_type is abstractly evaluated on exemplar pairs of every numeric type and must refuse every '
                       'cross-type pair. Not decided: eval(fold(E)) == eval(E) for all E - that is delegated to the run-time comparison whose presence and strictness '
                       'are what is decided here.')
    for r, t in [('C07.GUARD', 'replacement site carries the eight guard facts'), ('C07.TYPE', 'equal_value_and_type refuses cross-type pairs (enumerated)'),
                 ('C07.ERR', 'both evaluations inside try/except Exception returning the node unchanged'), ('C07.NEG', 'negative results rebuilt as UnaryOp(USub, positive constant)')]:
        rep.rule(r, t)
    rep.rule('C07.ENUM', 'the folding transform, abstractly run on every operand-type pair x operator and on nested forms, never changes type, value or error')
    enum(model, rep)
    fi = model.func(FOLD)
    F = Facts(fi.node)
    defs = local_defs(fi.node)
    node_p = fi.positional[0]
    reps = replacement_returns(fi, F)
    if not reps:
        raise AnalysisError('no replacement site found in FoldConstants.visit_BinOp')
    se = 'safe_eval'
    # identify evaluation calls and their variables
    evals = [c for c in calls(fi.node) if isinstance(c.func, ast.Name) and model.resolve_name(MOD, c.func.id) == MOD + '.safe_eval']
    eval_vars = {}
    for c in evals:
        par = model.parent(c)
        if isinstance(par, ast.Assign) and isinstance(par.targets[0], ast.Name):
            eval_vars[par.targets[0].id] = c

    shape_ok = True
    for (ret, facts) in reps:
        where = fi.loc(ret)
        key0 = 'C07.GUARD|' + src(ret.value)[:60]
        if facts is None:
            continue
        # what is returned: add_child(new_node, ...) -> the replacement node variable
        v = ret.value
        newvar = None
        if isinstance(v, ast.Call) and v.args and isinstance(v.args[0], ast.Name):
            newvar = v.args[0].id
        elif isinstance(v, ast.Name):
            newvar = v.id
        if newvar is None:
            # the replacement is produced by a helper: the guard facts are not visible at this site; behaviour is decided by C07.ENUM
            rep.note('C07.GUARD not applicable at %s: `return %s` builds the replacement through a helper (C07.ENUM decides the behaviour)' % (where, src(v)[:60]))
            shape_ok = False
            continue
        # 1. operands
        for side in ('left', 'right'):
            ok = False
            for (k, p) in facts:
                if p and k.startswith('is_constant_node(%s.%s,' % (node_p, side)):
                    t = ast.parse(k, mode='eval').body
                    kinds = {x.attr for x in ast.walk(t.args[1]) if isinstance(x, ast.Attribute)}
                    ok = bool(kinds) and kinds <= SAFE_KINDS
            rep.check(ok, 'C07.GUARD', where, 'operand %s is a literal number/constant' % side, 'fact is_constant_node(node.%s, (Num, NameConstant))' % side,
                      'replacement reachable with a %s operand that is not restricted to numeric / True/False/None literals (strings, names, calls could be evaluated); facts: %s' % (side, fact_texts(facts)[:8]),
                      key=key0 + '|operand-' + side)
        # 2. operators
        for opn in ('Div', 'Pow'):
            ok = ('isinstance(%s.op, ast.%s)' % (node_p, opn), False) in facts
            rep.check(ok, 'C07.GUARD', where, 'operator is not %s' % opn, 'fact not isinstance(node.op, ast.%s)' % opn,
                      '%s can be folded: %s' % (opn, 'true division differs between interpreter major versions' if opn == 'Div' else 'unbounded evaluation cost / huge results'),
                      key=key0 + '|op-' + opn)
        # 3/5. evaluations dominate and are the sources of the compared values
        ev_ok = sum(1 for c in evals if ('<did:%s>' % src(c.func), True) in facts)
        rep.check(len(evals) >= 2 and ev_ok >= 1, 'C07.GUARD', where, 'original and candidate are both evaluated', '%d safe_eval calls dominate the site' % len(evals),
                  'the original and the candidate are not both evaluated before the replacement', key=key0 + '|evals')
        # 4. NaN
        ok = any((not p) and 'isnan' in k for (k, p) in facts if not k.startswith('<'))
        rep.check(ok, 'C07.GUARD', where, 'NaN results are not folded', 'fact not isnan(original value)', 'a NaN result can be folded (there is no NaN literal)', key=key0 + '|nan')
        # 6. strictly shorter
        texts = [t.id for t in ast.walk(fi.node) if isinstance(t, ast.Name)]
        shorter = None
        for (k, p) in facts:
            if k.startswith('<'):
                continue
            t = ast.parse(k, mode='eval').body
            if isinstance(t, ast.Compare) and len(t.ops) == 1 and all(isinstance(x, ast.Call) and src(x.func) == 'len' for x in (t.left, t.comparators[0])):
                a, b = src(t.left.args[0]), src(t.comparators[0].args[0])
                r = implies_le(facts, 'len(%s)' % a, 'len(%s)' % b) or None
                r2 = implies_le(facts, 'len(%s)' % b, 'len(%s)' % a) or None
                # which one is the candidate text? the one printed from the replacement node
                for small, big, rel in ((a, b, r), (b, a, r2)):
                    if rel is None:
                        continue
                    d = single_def(defs, small)
                    if isinstance(d, ast.Call) and d.args and src(d.args[0]) == newvar:
                        shorter = rel
        rep.check(shorter == 'lt', 'C07.GUARD', where, 'candidate text strictly shorter than the original', 'fact len(candidate) < len(original)',
                  'replacement is not restricted to strictly shorter text (%s)' % ('only <=' if shorter == 'le' else 'no length fact'), key=key0 + '|shorter')
        # 7. re-parse + compare
        cmp_ok = any(k.startswith('<did:') and 'compare_ast' in k for (k, p) in facts) and any(k.startswith('<did:') and k.endswith('parse>') for (k, p) in facts)
        rep.check(cmp_ok, 'C07.GUARD', where, 'candidate re-parsed and compared with the replacement node', 'ast.parse and compare_ast dominate the site',
                  'the candidate text is not re-parsed and compared before it is used', key=key0 + '|reparse')
        # 8. strict equality of value and type between the two evaluation results
        ok = False
        for (k, p) in facts:
            if p and k.startswith('equal_value_and_type('):
                t = ast.parse(k, mode='eval').body
                names = {src(a) for a in t.args}
                ok = len(names) == 2 and names <= set(eval_vars)
        rep.check(ok, 'C07.GUARD', where, 'equal_value_and_type(candidate value, original value)', 'fact present, arguments are the two evaluation results',
                  'the strict value-and-type comparison of the two evaluation results does not guard the replacement', key=key0 + '|equal')
    if shape_ok:
        rep.floor('C07.GUARD', 9)

    # ---------------- ERR
    n = 0
    for c in evals:
        n += 1
        facts = F.facts_at(c)
        broad = facts is not None and any(('<try-catches:%s>' % b, True) in facts for b in BROAD)
        # the handler of the enclosing try returns the node unchanged
        t = c
        while t is not None and not isinstance(t, ast.Try):
            t = model.parent(t)
        unchanged = False
        if isinstance(t, ast.Try):
            unchanged = all(len(h.body) >= 1 and isinstance(h.body[-1], ast.Return) and isinstance(h.body[-1].value, ast.Name) and h.body[-1].value.id == node_p for h in t.handlers)
        rep.check(broad and unchanged, 'C07.ERR', fi.loc(c), src(model.parent(c))[:80], 'inside try/except Exception -> return node',
                  'evaluation of literal arithmetic can raise (ZeroDivisionError, OverflowError, TypeError, ValueError, MemoryError) and is not caught by a handler that leaves the expression alone',
                  key='C07.ERR|' + src(c))
    if shape_ok:
        rep.floor('C07.ERR', 2)

    # ---------------- TYPE (abstract enumeration)
    eq = model.func(MOD + '.equal_value_and_type')
    ex = [0, 1, 2, True, False, 0.0, 1.0, 2.0, 1.5, 0j, 1j, (1 + 0j), 10 ** 20, float('inf')]
    cells = 0
    bad = []
    for a in ex:
        for b in ex:
            I = Interp(model, MOD, hooks={'math.isnan': lambda I_, e, args, kw, env: (args[0] != args[0]) if isinstance(args[0], float) else TOP})
            res = I.explore(lambda: I.call_function(eq.qual, [a, b]))
            cells += 1
            outs = {r[0] for r in res}
            if any(o[0] != 'return' or o[1] is TOP for o in outs):
                raise AnalysisError('UNDECIDED: equal_value_and_type(%r, %r) -> %s' % (a, b, outs))
            val = {bool(o[1]) for o in outs}
            want = (type(a) is type(b)) and a == b
            if val != {want}:
                bad.append((a, b, val))
    for (a, b, val) in bad[:5]:
        rep.violation('C07.TYPE', eq.loc(), 'equal_value_and_type(%r, %r)' % (a, b), 'returns %s; values of different type or value must not be accepted as equal' % sorted(val),
                      key='C07.TYPE|%r|%r' % (a, b))
    if not bad:
        rep.ok('C07.TYPE', eq.loc(), 'equal_value_and_type over %d exemplar pairs' % cells, 'true exactly for pairs of identical type and value', cells=cells, key='C07.TYPE|enum')

    # ---------------- NEG: construction of the replacement node
    for (ret, facts) in reps:
        v = ret.value
        newvar = v.args[0].id if isinstance(v, ast.Call) and v.args and isinstance(v.args[0], ast.Name) else (v.id if isinstance(v, ast.Name) else None)
        origvars = [k for k, c in eval_vars.items()]
        for n_ in walk_own(fi.node):
            if isinstance(n_, ast.Assign) and isinstance(n_.targets[0], ast.Name) and n_.targets[0].id == newvar:
                d = n_.value
                f2 = F.facts_at(n_)
                t = src(d)
                if f2 is None:
                    continue
                key = 'C07.NEG|' + t[:70]
                if isinstance(d, ast.Call) and src(d.func).endswith('.UnaryOp'):
                    operand = kwarg(d, 'operand', 1)
                    op = kwarg(d, 'op', 0)
                    inner = operand.args[0] if isinstance(operand, ast.Call) and operand.args else (kwarg(operand, 'n') or kwarg(operand, 'value')) if isinstance(operand, ast.Call) else None
                    ok = src(op).endswith('USub()') and isinstance(inner, ast.UnaryOp) and isinstance(inner.op, ast.USub) and src(inner.operand) in origvars
                    rep.check(ok, 'C07.NEG', fi.loc(n_), t[:80], 'negative value rebuilt as -(positive constant)', 'negative result is not rebuilt as USub of the negated value', key=key)
                elif isinstance(d, ast.Call) and src(d.func).split('.')[-1] in ('Num', 'Constant', 'NameConstant'):
                    val = d.args[0] if d.args else (kwarg(d, 'n') or kwarg(d, 'value'))
                    is_bool_arm = any(p and k.startswith('isinstance(') and 'bool' in k for (k, p) in f2)
                    neg_excluded = any((not p) and "startswith('-')" in k for (k, p) in f2) or is_bool_arm
                    ok = src(val) in origvars and neg_excluded
                    rep.check(ok, 'C07.NEG', fi.loc(n_), t[:80], 'constant built from the evaluated value, only on the non-negative / bool arm',
                              'a constant node can be built from a negative value (it would print as a unary minus and not round-trip) or from something other than the evaluated value', key=key)
                else:
                    rep.violation('C07.NEG', fi.loc(n_), t[:80], 'replacement node built by an unexpected constructor', key=key)
    if shape_ok:
        rep.floor('C07.NEG', 3)


# ---------------------------------------------------------------------- ENUM: the folding transform abstractly run on literal arithmetic
OPERANDS = ['0', '1', '2', '3', '7', '10', 'True', 'False', '0.0', '1.0', '2.0', '0.5', '1e308', '1j', '100000']
OPS = ['+', '-', '*', '%', '//', '<<', '>>', '|', '&', '^', '/', '**', '@']
NESTED = ['(1+2)*(1.0+2)', '(2*3)-(2.0*3)', '1+2+3.0', '2**3+1', '-1+2', '(1<<2)+(1.0<<2)', '[1<<2, 1.0<<2]', '1+2 if 1.0+2 else True+2', '(0*1.0)+(0*1)', '1e308*10+1', '(1-2)*3', '(1-2)-(1.0-2)',
          '10*10*10*10', '1000*1000+0.5', '(True+True)*(1+1)', '1j*1j+1', '(5%3)+(5.0%3)', '7//2+7.0//2', '(1|2)&3', '3-3.0', '0.5+0.5']


def obj_to_ast(o):
    from ..absint import Obj
    if isinstance(o, list):
        return [obj_to_ast(x) for x in o]
    if not isinstance(o, Obj):
        return o
    cls = getattr(ast, o.cls)
    kw = {}
    for f in cls._fields:
        if f in o.attrs:
            kw[f] = obj_to_ast(o.attrs[f])
    node = cls(**kw)
    if isinstance(node, ast.expr) and not hasattr(node, 'ctx') and 'ctx' in cls._fields:
        node.ctx = ast.Load()
    return node


def outcome(expr_node):
    """(type name, repr) of evaluating a literal-only expression tree with empty namespaces, or ('raises', exception type)."""
    try:
        code = compile(ast.fix_missing_locations(ast.Expression(body=expr_node)), 'literal', 'eval')
        v = eval(code, {'__builtins__': {}}, {})  # the tree consists of literals and operators generated by this checker only
    except Exception as e:
        return ('raises', type(e).__name__)
    try:
        return (type(v).__name__, repr(v))
    except ValueError:
        return (type(v).__name__, hex(v))


def literal_only(node):
    return all(isinstance(n, (ast.Expression, ast.BinOp, ast.UnaryOp, ast.Constant, ast.operator, ast.unaryop, ast.List, ast.IfExp, ast.Tuple, ast.expr_context)) for n in ast.walk(node))


def enum(model, rep):
    import copy
    from ..absint import ClassRef
    from ..absnodes import set_parents
    from ..absprint import printer_hooks, to_obj
    FC = MOD + '.FoldConstants'
    fi = model.func(FOLD)

    def safe_eval_hook(I, e, args, kw, env):
        text = args[0]
        if not isinstance(text, str):
            return TOP
        try:
            t = ast.parse(text, mode='eval')
        except SyntaxError:
            from ..absint import _Raise
            raise _Raise('SyntaxError')
        if not literal_only(t):
            raise AnalysisError('the folding transform evaluates %r, which is not literal-only arithmetic' % text[:60])
        try:
            return eval(compile(t, 'literal', 'eval'), {'__builtins__': {}}, {})
        except Exception as ex:
            from ..absint import _Raise
            raise _Raise(type(ex).__name__)

    def run_module(source):
        tree = ast.parse(source)
        mod = to_obj(copy.deepcopy(tree))
        set_parents(mod)
        hooks = printer_hooks()
        hooks.pop('compare_ast', None)
        hooks['safe_eval'] = safe_eval_hook
        hooks['math.isnan'] = lambda I, e, args, kw, env: (args[0] != args[0]) if isinstance(args[0], float) else (TOP if args[0] is TOP else False)
        I = Interp(model, MOD, hooks, max_depth=600)
        I.MAX_PATHS = 16

        def thunk():
            I.call_function('python_minifier.rename.mapper.add_namespace', [mod])
            t = I.construct(ClassRef('FoldConstants', FC), [], {})
            return I.call_method(FC, '__call__', t, [mod])
        res = I.explore(thunk)
        if len(res) == 1 and res[0][0][0] == 'raise':
            return tree, ('raise', res[0][0][1])
        if len(res) != 1 or res[0][0][0] != 'return':
            raise AnalysisError('UNDECIDED: FoldConstants on %r... -> %s %s' % (source[:40], [r[0] for r in res][:2], res[0][2][:3]))
        out = res[0][0][1]
        return tree, (out if out is not None else mod)

    cells = 0
    bad = []
    sources = []
    quick = rep.tier != 'thorough'
    operands = [o for o in OPERANDS if o not in ('7', '10', '100000', '2.0', '3', '1e308')] if quick else OPERANDS
    for op in OPS:
        lines = ['v%d = %s %s %s' % (i, a, op, b) for i, (a, b) in enumerate((a, b) for a in operands for b in operands)]
        sources.append(('all operand pairs for %s' % op, '\n'.join(lines) + '\n'))
        if not quick or op in ('+', '<<', '*'):
            sources.append(('all operand pairs for %s, reversed order' % op, '\n'.join(reversed(lines)) + '\n'))
    sources.append(('nested expressions', '\n'.join('w%d = %s' % (i, e) for i, e in enumerate(NESTED)) + '\n'))
    sources.append(('nested expressions, reversed order', '\n'.join('w%d = %s' % (i, e) for i, e in reversed(list(enumerate(NESTED)))) + '\n'))
    for (label, source) in sources:
        tree, out = run_module(source)
        if isinstance(out, tuple):
            rep.violation('C07.ENUM', fi.loc(), label, 'the folding transform raises %s on literal arithmetic whose evaluation fails; such expressions must be left alone' % out[1], key='C07.ENUM|raises|' + label.split(',')[0])
            bad.append(None)
            continue
        body = out.attrs['body']
        if len(body) != len(tree.body):
            raise AnalysisError('FoldConstants changed the number of statements')
        for orig_stmt, new_stmt in zip(tree.body, body):
            cells += 1
            new_expr = obj_to_ast(new_stmt.attrs['value'])
            if ast.dump(new_expr) == ast.dump(orig_stmt.value):
                continue  # left alone
            want = outcome(copy.deepcopy(orig_stmt.value))
            got = outcome(new_expr)
            text = ast.unparse(orig_stmt.value)
            if got != want:
                bad.append((label, text, ast.unparse(new_expr), want, got))
            elif ast.dump(new_expr) != ast.dump(orig_stmt.value) and len(ast.unparse(new_expr).replace(' ', '')) > len(text.replace(' ', '')):
                bad.append((label, text, ast.unparse(new_expr), 'not longer', 'longer'))
    seen = set()
    for (label, text, new, want, got) in [b for b in bad if b is not None]:
        k = (text, new)
        if k in seen:
            continue
        seen.add(k)
        if len(seen) > 6:
            break
        rep.violation('C07.ENUM', fi.loc(), '%s  ->  %s   (%s)' % (text, new, label), 'original evaluates to %s, the folded form to %s' % (want, got), key='C07.ENUM|%s|%s' % (text, new))
    if not bad:
        rep.ok('C07.ENUM', fi.loc(), 'FoldConstants on %d literal expressions (%d operand pairs x %d operators in one module, both orders; %d nested)' % (cells, len(operands) ** 2, len(OPS), len(NESTED)),
               'every folded form evaluates to the identical type and value (or is left alone), none is longer', cells=cells, key='C07.ENUM|all')
    rep.floor('C07.ENUM', 1)
