"""C01 - minified module behaves like the original under the safe options (identity of the safe set, pipeline shape, annotation typestate)."""
import ast
import os
import re

from ..absint import Interp, Obj, TOP
from ..astutil import calls, kwarg, local_defs
from ..facts import Facts
from ..model import AnalysisError, src, walk_own
from ..pipeline import ANNOTATIONS, Pipeline

OPTIONS_CLS = 'python_minifier.transforms.remove_annotations_options.RemoveAnnotationsOptions'
NON_TRANSFORM_OPTIONS = {'preserve_locals', 'preserve_globals'}


def docs_index(model):
    rel = os.path.join('docs', 'source', 'transforms', 'index.rst')
    text = model.overlay.get(rel)
    if text is None:
        path = os.path.join(model.root, rel)
        if not os.path.exists(path):
            raise AnalysisError('documentation index %s not found' % rel)
        with open(path, encoding='utf-8') as f:
            text = f.read()
    sections = {}
    cur = None
    for line in text.splitlines():
        m = re.match(r'\s*:caption:\s*(.+)$', line)
        if m:
            cur = m.group(1).strip().lower()
            sections[cur] = []
            continue
        m = re.match(r'^\s{3}([a-z_]+)\s*$', line)
        if m and cur is not None:
            sections[cur].append(m.group(1))
    return sections


def run(model, rep):
    rep.explanation = ('The equivalence of two running programs is not decidable from the minifier\'s source; its per-stage necessary conditions are decided under C02-C07 and C09. '
                       'Decided here: (DEF) the set of options documented as safe is exactly the set that is on by default - docs index, minify() signature, the .pyi stub, the '
                       'RemoveAnnotationsOptions defaults and awslambda agree; (PIPE) the fixed order of the pipeline - parse, parent/namespace annotation, transforms, bind, resolve, '
                       'permission gates, hoist, rename, print - holds on every path and the returned text is the printer\'s result; (ANNOT) pipeline typestate: every annotation '
                       'attribute hung on the tree is read only by stages that run after the stage that populates it; (SELF) unparse() re-parses what it printed and compares it with '
                       'the tree before returning it.')
    for r, t in [('C01.DEF', 'safe options = defaults (docs / signature / stub / options class)'), ('C01.PIPE', 'pipeline order'), ('C01.ANNOT', 'producer-before-reader typestate of tree annotations'),
                 ('C01.SELF', 'post-print self check present on every return of unparse')]:
        rep.rule(r, t)
    P = Pipeline(model)
    mi = P.fi
    # ---------------- DEF
    sections = docs_index(model)
    on = sections.get('enabled by default')
    off = sections.get('disabled by default')
    if on is None or off is None:
        raise AnalysisError('docs index lacks the "Enabled by default" / "Disabled by default" sections')
    defaults = mi.defaults()
    params = [p for p in mi.params if p not in ('source', 'filename')]
    for name in on + off:
        want = name in on
        where = 'docs/source/transforms/index.rst'
        if name not in params:
            rep.violation('C01.DEF', where, name, 'documented option is not a parameter of minify()', key='C01.DEF|' + name)
            continue
        d = defaults.get(name)
        if name == 'remove_annotations':
            # default object: argument / return / variable annotations removed, class attribute annotations kept
            init = model.func(OPTIONS_CLS + '.__init__')
            od = {k: (v.value if isinstance(v, ast.Constant) else None) for k, v in init.defaults().items()}
            is_default_obj = isinstance(d, ast.Call) and not d.args and not d.keywords and model.resolve_expr(mi.module, d.func) == OPTIONS_CLS
            good = is_default_obj and od == {'remove_variable_annotations': True, 'remove_return_annotations': True, 'remove_argument_annotations': True, 'remove_class_attribute_annotations': False}
            rep.check(good, 'C01.DEF', mi.loc(), 'remove_annotations=%s with %s' % (src(d), od), 'documented safe default: everything but class attribute annotations',
                      'default annotation removal differs from the documented safe set: %s %s' % (src(d), od), key='C01.DEF|remove_annotations')
            continue
        val = d.value if isinstance(d, ast.Constant) else ('<expr %s>' % src(d))
        rep.check(val is want, 'C01.DEF', mi.loc(), '%s=%r' % (name, val), 'documented as %s by default' % ('enabled' if want else 'disabled'),
                  'option %s is documented as %s by default but the signature default is %r: a default call applies a transform outside the documented-safe set' % (name, 'enabled' if want else 'disabled (not always safe)', val),
                  key='C01.DEF|' + name)
    for p in params:
        if p not in on + off and p not in NON_TRANSFORM_OPTIONS:
            rep.violation('C01.DEF', mi.loc(), p, 'option of minify() is not classified as safe or unsafe in the documentation index', key='C01.DEF|undocumented|' + p)
    # the stub agrees
    stub_rel = 'src/python_minifier/__init__.pyi'
    stub_text = model.overlay.get(stub_rel)
    if stub_text is None:
        sp = os.path.join(model.root, stub_rel)
        stub_text = open(sp, encoding='utf-8').read() if os.path.exists(sp) else None
    if stub_text is not None:
        st = ast.parse(stub_text)
        sf = [n for n in st.body if isinstance(n, ast.FunctionDef) and n.name == 'minify']
        if sf:
            a = sf[0].args
            pos = a.args
            sd = {p.arg: d for p, d in zip(pos[len(pos) - len(a.defaults):], a.defaults)}
            for p in params:
                if p in sd and p in defaults:
                    same = src(sd[p]) == src(defaults[p]) or (isinstance(sd[p], ast.Constant) and sd[p].value is Ellipsis)
                    rep.check(same, 'C01.DEF', stub_rel, 'stub default %s=%s' % (p, src(sd[p])), 'agrees with the implementation', 'type stub documents default %s for %s, implementation has %s' % (src(sd[p]), p, src(defaults[p])),
                              key='C01.DEF|stub|' + p)
    # awslambda: all defaults plus literal removal; global renaming only with an entrypoint (C10 checks the wiring)
    aw = model.func('python_minifier.awslambda')
    seen = {}
    I = Interp(model, 'python_minifier', {'minify': lambda I_, e, args, kw, env: seen.update(kw) or 'code'})
    I.explore(lambda: I.call_function(aw.qual, ['src', None, None]))
    extra = {k: v for k, v in seen.items() if k not in ('rename_globals', 'preserve_globals', 'remove_literal_statements', 'filename')}
    rep.check(seen.get('rename_globals') is False and not extra, 'C01.DEF', aw.loc(), 'awslambda(entrypoint=None) -> minify(%s)' % ', '.join('%s=%r' % kv for kv in sorted(seen.items())),
              'no unsafe option besides the documented literal removal', 'awslambda without entrypoint enables %s' % (extra or 'global renaming'), key='C01.DEF|awslambda')
    rep.floor('C01.DEF', 16)

    # ---------------- PIPE
    F = P.F

    def did(st_facts, name):
        return st_facts is not None and (('<did:%s>' % name, True) in st_facts)
    order = [('add_parent', ['ast.parse']), ('add_namespace', ['ast.parse', 'add_parent']), ('bind_names', ['add_parent', 'add_namespace']), ('resolve_names', ['bind_names']),
             ('allow_rename_locals', ['resolve_names']), ('allow_rename_globals', ['resolve_names']), ('rename', ['allow_rename_locals', 'allow_rename_globals', 'resolve_names']),
             ('unparse', ['rename'])]
    transformers = [s for s in P.stages if s.kind == 'transformer']
    for st in transformers:
        ok = st.facts is None or (did(st.facts, 'add_parent') and did(st.facts, 'add_namespace'))
        rep.check(ok, 'C01.PIPE', mi.loc(st.call), '%s after add_parent, add_namespace' % st.name, 'transforms read parent / namespace links', 'transform %s runs before the tree is annotated with parents and namespaces' % st.name, key='C01.PIPE|pre|' + st.name)
    for name, preds in order:
        st = P.stage(name)
        for p in preds:
            rep.check(did(st.facts, p), 'C01.PIPE', mi.loc(st.call), '%s after %s' % (name, p), 'dominated on every path', '%s can run before %s has completed' % (name, p), key='C01.PIPE|%s<%s' % (p, name))
    for opt_stage, preds in (('rename_literals', ['resolve_names', 'allow_rename_locals', 'allow_rename_globals']), ('remove_no_arg_exception_call', ['resolve_names']), ('remove_posargs', ['rename'])):
        hits = [s for s in P.stages if s.name == opt_stage]
        for st in hits:
            if st.facts is None:
                continue
            for p in preds:
                rep.check(did(st.facts, p), 'C01.PIPE', mi.loc(st.call), '%s after %s' % (opt_stage, p), 'dominated on every path', '%s can run before %s' % (opt_stage, p), key='C01.PIPE|%s<%s' % (p, opt_stage))
            if opt_stage == 'rename_literals':
                rn = P.stage('rename')
                rep.check(rn.facts is not None and not did(st.facts, 'rename'), 'C01.PIPE', mi.loc(st.call), 'rename_literals before rename', 'hoisted bindings are named by the renamer',
                          'literals are hoisted after names have been assigned', key='C01.PIPE|rename_literals<rename')
    # no tree-rewriting transform after names were bound (they would invalidate the binding tables), except the enumerated late stages
    for st in P.stages:
        if st.kind == 'transformer' and st.facts is not None and did(st.facts, 'bind_names'):
            rep.violation('C01.PIPE', mi.loc(st.call), src(st.call)[:60], 'a tree transform runs after names were bound: nodes it creates or removes are unknown to the binding tables', key='C01.PIPE|late|' + st.name)
    # the returned text is the printer's result
    up = P.stage('unparse')
    for (ret, facts) in F.returns:
        names = {n.id for n in ast.walk(ret.value) if isinstance(n, ast.Name)} if ret.value is not None else set()
        var = [t.id for t in getattr(P.m.parent(up.call), 'targets', []) if isinstance(t, ast.Name)]
        rep.check(bool(var) and var[0] in names and did(facts, 'unparse'), 'C01.PIPE', mi.loc(ret), 'return ' + src(ret.value), 'returns the text unparse() produced', 'minify returns something other than the printed module', key='C01.PIPE|return|' + src(ret.value))
    # the module object threaded through: every transformer call re-assigns `module` from its own result and receives `module`
    for st in P.stages:
        if st.kind == 'transformer':
            par = P.m.parent(st.call)
            ok = isinstance(par, ast.Assign) and src(par.targets[0]) == 'module' and len(st.call.args) == 1 and src(st.call.args[0]) == 'module'
            rep.check(ok, 'C01.PIPE', mi.loc(st.call), src(par)[:60] if par is not None else src(st.call), 'module = T()(module)', 'transform result is dropped or applied to a different tree', key='C01.PIPE|thread|' + st.name)
    rep.floor('C01.PIPE', 30)

    # ---------------- ANNOT typestate
    producers = {}
    for st in P.stages:
        for a in ANNOTATIONS:
            if a in st.summary.ann_add and a not in producers and st.facts is not None:
                producers[a] = st
    rep.count('annotation_producers', {a: s.name for a, s in producers.items()})
    n = 0
    for st in P.stages:
        if st.facts is None:
            continue
        for a in sorted(ANNOTATIONS):
            if a in st.summary.ann_r and a in producers and producers[a] is not st:
                prod = producers[a]
                n += 1
                # the attribute must not be read by a stage that can run before its producer
                before = not did(st.facts, prod.name if prod.kind == 'function' else prod.name + '()')
                if a in st.summary.ann_add:
                    continue  # the stage itself (re)builds the attribute for the nodes it creates
                rep.check(not before, 'C01.ANNOT', mi.loc(st.call), '%s reads .%s (populated by %s)' % (st.name, a, prod.name), 'producer dominates reader',
                          'stage %s reads the tree annotation .%s before %s has populated it: whatever it tests there is always empty (dead guard)' % (st.name, a, prod.name), key='C01.ANNOT|%s|%s' % (st.name, a))
    rep.floor('C01.ANNOT', 10)

    # ---------------- SELF
    up_fi = model.func('python_minifier.unparse')
    UF = Facts(up_fi.node)
    for (ret, facts) in UF.returns:
        ok = facts is not None and any(k.startswith('<did:') and k.endswith('parse>') for (k, p) in facts) and ('<did:compare_ast>', True) in facts
        rep.check(ok, 'C01.SELF', up_fi.loc(ret), 'return ' + src(ret.value), 're-parse and compare_ast dominate the return', 'unparse can return text that was not re-parsed and compared with the tree', key='C01.SELF|return')
    cmpc = [c for c in calls(up_fi.node) if src(c.func) == 'compare_ast']
    for c in cmpc:
        ok = len(c.args) == 2 and src(c.args[0]) == up_fi.positional[0]
        rep.check(ok, 'C01.SELF', up_fi.loc(c), src(c), 'compares the tree that was printed with the re-parsed text', 'self check compares the wrong trees', key='C01.SELF|args')
    for t in [n_ for n_ in walk_own(up_fi.node) if isinstance(n_, ast.Try)]:
        for h in t.handlers:
            HF = Facts(body=h.body)
            rep.check(HF.fallthrough is None and bool(HF.raises), 'C01.SELF', up_fi.loc(h), 'except ' + src(h.type), 'handler re-raises as UnstableMinification', 'a failed self check is swallowed', key='C01.SELF|handler|' + src(h.type))
    rep.floor('C01.SELF', 4)
