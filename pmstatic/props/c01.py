"""C01 - minified module behaves like the original under the safe options (identity of the safe set, pipeline shape, annotation typestate)."""
import ast
import os
import re

from ..absint import Interp, Obj, TOP
from ..astutil import calls, kwarg, local_defs
from ..facts import Facts
from ..model import AnalysisError, LostAnchor, src, walk_own
from ..pipeline import ANNOTATIONS, Pipeline

OPTIONS_CLS = 'python_minifier.transforms.remove_annotations_options.RemoveAnnotationsOptions'
NON_TRANSFORM_OPTIONS = {'preserve_locals', 'preserve_globals'}


def docs_index(model):
    rel = os.path.join('docs', 'source', 'transforms', 'index.rst')
    text = model.overlay.get(rel)
    if text is None:
        path = os.path.join(model.root, rel)
        if not os.path.exists(path):
            raise AnalysisError('documentation index %s not found' % rel)
        with open(path, encoding='utf-8') as f:
            text = f.read()
    sections = {}
    cur = None
    for line in text.splitlines():
        m = re.match(r'\s*:caption:\s*(.+)$', line)
        if m:
            cur = m.group(1).strip().lower()
            sections[cur] = []
            continue
        m = re.match(r'^\s{3}([a-z_]+)\s*$', line)
        if m and cur is not None:
            sections[cur].append(m.group(1))
    return sections


def run(model, rep):
    rep.explanation = ('The equivalence of two running programs is not decidable from the minifier\'s source; its per-stage necessary conditions are decided under C02-C07 and C09. '
                       'Decided here: (ALL) the real minify() evaluated with the default options on probe modules in four configurations, judged against the composition of the '
                       'documented rewrites (reference implementations in the checker), the rename oracle and the de-hoisting oracle; (DEF) the set of options documented as safe is exactly the set that is on by default - docs index, minify() signature, the .pyi stub, the '
                       'RemoveAnnotationsOptions defaults and awslambda agree; (PIPE) the fixed order of the pipeline - parse, parent/namespace annotation, transforms, bind, resolve, '
                       'permission gates, hoist, rename, print - holds on every path and the returned text is the printer\'s result; (ANNOT) pipeline typestate: every annotation '
                       'attribute hung on the tree is read only by stages that run after the stage that populates it; (SELF) unparse() re-parses what it printed and compares it with '
                       'the tree before returning it.')
    for r, t in [('C01.DEF', 'safe options = defaults (docs / signature / stub / options class)'), ('C01.PIPE', 'pipeline order'), ('C01.ANNOT', 'producer-before-reader typestate of tree annotations'),
                 ('C01.SELF', 'post-print self check present on every return of unparse')]:
        rep.rule(r, t)
    rep.rule('C01.ALL', 'the safe options together, end to end on probe modules: transforms = the documented rewrites composed; + renaming: alpha-equivalent; + hoisting: de-hoists to the same module; everything: compiles')
    from . import compose_e2e
    compose_e2e.run(model, rep, 'C01.ALL')
    P = Pipeline(model)
    mi = P.fi
    # ---------------- DEF
    sections = docs_index(model)
    on = sections.get('enabled by default')
    off = sections.get('disabled by default')
    if on is None or off is None:
        raise AnalysisError('docs index lacks the "Enabled by default" / "Disabled by default" sections')
    defaults = mi.defaults()
    params = [p for p in mi.params if p not in ('source', 'filename')]
    for name in on + off:
        want = name in on
        where = 'docs/source/transforms/index.rst'
        if name not in params:
            rep.violation('C01.DEF', where, name, 'documented option is not a parameter of minify()', key='C01.DEF|' + name)
            continue
        d = defaults.get(name)
        if name == 'remove_annotations':
            # default object: argument / return / variable annotations removed, class attribute annotations kept
            init = model.func(OPTIONS_CLS + '.__init__')
            od = {k: (v.value if isinstance(v, ast.Constant) else None) for k, v in init.defaults().items()}
            is_default_obj = isinstance(d, ast.Call) and not d.args and not d.keywords and model.resolve_expr(mi.module, d.func) == OPTIONS_CLS
            good = is_default_obj and od == {'remove_variable_annotations': True, 'remove_return_annotations': True, 'remove_argument_annotations': True, 'remove_class_attribute_annotations': False}
            rep.check(good, 'C01.DEF', mi.loc(), 'remove_annotations=%s with %s' % (src(d), od), 'documented safe default: everything but class attribute annotations',
                      'default annotation removal differs from the documented safe set: %s %s' % (src(d), od), key='C01.DEF|remove_annotations')
            continue
        val = d.value if isinstance(d, ast.Constant) else ('<expr %s>' % src(d))
        rep.check(val is want, 'C01.DEF', mi.loc(), '%s=%r' % (name, val), 'documented as %s by default' % ('enabled' if want else 'disabled'),
                  'option %s is documented as %s by default but the signature default is %r: a default call applies a transform outside the documented-safe set' % (name, 'enabled' if want else 'disabled (not always safe)', val),
                  key='C01.DEF|' + name)
    for p in params:
        if p not in on + off and p not in NON_TRANSFORM_OPTIONS:
            rep.violation('C01.DEF', mi.loc(), p, 'option of minify() is not classified as safe or unsafe in the documentation index', key='C01.DEF|undocumented|' + p)
    # the stub agrees
    stub_rel = 'src/python_minifier/__init__.pyi'
    stub_text = model.overlay.get(stub_rel)
    if stub_text is None:
        sp = os.path.join(model.root, stub_rel)
        stub_text = open(sp, encoding='utf-8').read() if os.path.exists(sp) else None
    if stub_text is not None:
        st = ast.parse(stub_text)
        sf = [n for n in st.body if isinstance(n, ast.FunctionDef) and n.name == 'minify']
        if sf:
            a = sf[0].args
            pos = a.args
            sd = {p.arg: d for p, d in zip(pos[len(pos) - len(a.defaults):], a.defaults)}
            for p in params:
                if p in sd and p in defaults:
                    same = src(sd[p]) == src(defaults[p]) or (isinstance(sd[p], ast.Constant) and sd[p].value is Ellipsis)
                    rep.check(same, 'C01.DEF', stub_rel, 'stub default %s=%s' % (p, src(sd[p])), 'agrees with the implementation', 'type stub documents default %s for %s, implementation has %s' % (src(sd[p]), p, src(defaults[p])),
                              key='C01.DEF|stub|' + p)
    # awslambda: all defaults plus literal removal; global renaming only with an entrypoint (C10 checks the wiring)
    aw = model.func('python_minifier.awslambda')
    seen = {}
    I = Interp(model, 'python_minifier', {'minify': lambda I_, e, args, kw, env: seen.update(kw) or 'code'})
    I.explore(lambda: I.call_function(aw.qual, ['src', None, None]))
    extra = {k: v for k, v in seen.items() if k not in ('rename_globals', 'preserve_globals', 'remove_literal_statements', 'filename')}
    rep.check(seen.get('rename_globals') is False and not extra, 'C01.DEF', aw.loc(), 'awslambda(entrypoint=None) -> minify(%s)' % ', '.join('%s=%r' % kv for kv in sorted(seen.items())),
              'no unsafe option besides the documented literal removal', 'awslambda without entrypoint enables %s' % (extra or 'global renaming'), key='C01.DEF|awslambda')
    rep.floor('C01.DEF', 16)

    # ---------------- PIPE: minify() itself is evaluated with every stage replaced by a recorder (pmstatic.apirun); no shape of minify() is assumed
    def pipe():
        from .. import apirun
        from ..callgraph import CallGraph, Effects
        options = [p for p in mi.params if p not in ('source', 'filename', 'preserve_locals', 'preserve_globals')]
        all_on = {p: True for p in options}
        runs = {'every option on': apirun.run(model, kwargs=all_on, fresh_modules=True), 'default options': apirun.run(model, kwargs={}, fresh_modules=True),
                'every option off': apirun.run(model, kwargs={p: False for p in options}, fresh_modules=True)}
        callables = apirun.imported_callables(model)
        transformers = [n for n, (k, _q) in callables.items() if k == 'stage']
        order = [('add_parent', ['<parse>']), ('add_namespace', ['<parse>', 'add_parent']), ('bind_names', ['add_parent', 'add_namespace']), ('resolve_names', ['bind_names']),
                 ('allow_rename_locals', ['resolve_names']), ('allow_rename_globals', ['resolve_names']), ('rename', ['allow_rename_locals', 'allow_rename_globals', 'resolve_names']),
                 ('unparse', ['rename']), ('rename_literals', ['resolve_names', 'allow_rename_locals', 'allow_rename_globals']), ('remove_no_arg_exception_call', ['resolve_names']),
                 ('remove_posargs', ['rename'])]
        for label, r in sorted(runs.items()):
            if r.outcome[0] != 'return':
                raise AnalysisError('UNDECIDED: minify() with %s -> %s' % (label, r.outcome))
            seq = [('<parse>' if t[0] == 'parse' else t[1]) for t in r.trace if t[0] in ('parse', 'stage', 'call')]
            pos = {}
            for i_, n_ in enumerate(seq):
                pos.setdefault(n_, i_)
            for name, preds in order:
                if name not in pos:
                    # a stage that is not observed is no violation by itself (skipping work nobody asked for is the maintainer's right, and what the
                    # options then do is decided end to end by C01.ALL): with every option on it means the stage names this rule is written against
                    # are gone; otherwise there is simply nothing to order in this configuration
                    if label == 'every option on' and name in ('add_parent', 'add_namespace', 'bind_names', 'resolve_names', 'allow_rename_locals', 'allow_rename_globals', 'rename', 'unparse'):
                        raise LostAnchor('no call of a stage named %s is observed when minify() runs with every option on' % name)
                    rep.ok('C01.PIPE', mi.loc(), '%s: %s is not run' % (label, name), 'nothing to order', key='C01.PIPE|%s|absent|%s' % (label, name))
                    continue
                for p_ in preds:
                    if p_ not in pos:
                        # the earlier stage does not run in this configuration: nothing to order (what the options then do is decided by C01.ALL)
                        rep.ok('C01.PIPE', mi.loc(), '%s: %s is not run (would precede %s)' % (label, p_, name), 'nothing to order', key='C01.PIPE|%s|%s<%s' % (label, p_, name))
                        continue
                    ok = pos[p_] < pos[name]
                    rep.check(ok, 'C01.PIPE', mi.loc(), '%s: %s after %s' % (label, name, p_), 'in this order', '%s runs before %s has completed' % (name, p_), key='C01.PIPE|%s|%s<%s' % (label, p_, name))
            for t_ in transformers:
                if t_ in pos:
                    ok = pos.get('add_parent', 10 ** 6) < pos[t_] and pos.get('add_namespace', 10 ** 6) < pos[t_]
                    rep.check(ok, 'C01.PIPE', mi.loc(), '%s: %s after add_parent, add_namespace' % (label, t_), 'transforms read parent / namespace links', 'transform %s runs before the tree is annotated with parents and namespaces' % t_,
                              key='C01.PIPE|%s|pre|%s' % (label, t_))
                    late = 'bind_names' in pos and pos[t_] > pos['bind_names']
                    rep.check(not late, 'C01.PIPE', mi.loc(), '%s: %s before bind_names' % (label, t_), 'no tree transform after names were bound',
                              'the tree transform %s runs after names were bound: nodes it creates or removes are unknown to the binding tables' % t_, key='C01.PIPE|%s|late|%s' % (label, t_))
            if 'rename_literals' in pos:
                rep.check(pos['rename_literals'] < pos.get('rename', -1), 'C01.PIPE', mi.loc(), '%s: rename_literals before rename' % label, 'hoisted bindings are named by the renamer',
                          'literals are hoisted after names have been assigned', key='C01.PIPE|%s|rename_literals<rename' % label)
            stale = [t[1] for t in r.trace if t[0] == 'stale']
            rep.check(not stale, 'C01.PIPE', mi.loc(), '%s: every stage receives the tree the previous stage returned' % label, 'module threaded through',
                      'stage(s) %s are applied to a tree an earlier transform has already replaced: the result of that transform is dropped' % stale, key='C01.PIPE|%s|thread' % label)
            rep.check(r.outcome[1] == 'MINIFIED', 'C01.PIPE', mi.loc(), '%s: minify returns %r' % (label, r.outcome[1]), 'the text unparse() produced (no shebang in the source)',
                      'minify returns something other than the printed module: %r' % (r.outcome[1],), key='C01.PIPE|%s|return' % label)
        rep.floor('C01.PIPE', 40)
    rep.optional(['C01.PIPE'], ['C01.ALL'], pipe)

    # ---------------- ANNOT typestate, observed: the real minify() with every option on, every stage wrapped (it records its start and then runs the
    # repository's own code); every read / hasattr probe / write of an attribute hung on a tree node that is not a field of the grammar is recorded
    # with the stage it happens in. No stage may consult an annotation before the stage that first populates it has started.
    from ..minrun import option_names, staged_trace
    from .transform_e2e import work_for_everyone
    probe = work_for_everyone() + 'def uses_names(first_argument, second_argument=1):\n    local_value = first_argument + second_argument\n    return [local_value for _ in (1, 2)], "a repeated literal", "a repeated literal", "a repeated literal"\n'
    order, events = staged_trace(model, probe, {o: True for o in option_names(model)})
    rep.count('stages_in_order', list(dict.fromkeys(order)))
    # an annotation is populated by its first write - or, for a container that is created empty, by the first element put into it
    is_container = {attr for (_st, kind, _c, attr) in events if kind == 'populate'}
    first_write = {}
    for i_, (st, kind, cls, attr) in enumerate(events):
        if (kind == 'populate') if attr in is_container else (kind == 'write'):
            first_write.setdefault(attr, (i_, st))
    creators = {}
    for (st, kind, cls, attr) in events:
        if kind == 'write':
            creators.setdefault(attr, st)
    rep.count('annotation_producers', {a: st for a, (_i, st) in sorted(first_write.items())})
    early = {}
    for i_, (st, kind, cls, attr) in enumerate(events):
        if kind in ('read', 'probe') and attr in first_write and i_ < first_write[attr][0] and st != first_write[attr][1] and st != creators.get(attr):
            early.setdefault((st, attr), (kind, cls))
    for attr, (_i, producer) in sorted(first_write.items()):
        readers = sorted({st for (st, kind, cls, a) in events if a == attr and kind in ('read', 'probe') and st != producer})
        bad = sorted(st for (st, a) in early if a == attr)
        rep.check(not bad, 'C01.ANNOT', mi.loc(), 'annotation .%s: populated by %s, consulted by %s' % (attr, producer, ', '.join(readers) or 'nobody else'), 'no stage consults it before the producer has run',
                  'stage %s consults the tree annotation .%s (%s on a %s node) before %s has populated it: whatever it tests there is always missing (dead guard)' %
                  (bad[0] if bad else '', attr, early.get((bad[0], attr), ('', ''))[0] if bad else '', early.get((bad[0], attr), ('', ''))[1] if bad else '', producer), key='C01.ANNOT|' + attr)
    rep.floor('C01.ANNOT', 6)

    # ---------------- SELF: unparse() evaluated with the printer, the parser and the comparison answered by the checker
    from ..absint import Obj as _Obj, _Raise
    up_fi = model.func('python_minifier.unparse')
    for (label, parse_answer, compare_answer, want) in (('text re-parses and compares equal', 'ok', 'ok', 'return'), ('printed text does not parse', 'SyntaxError', 'ok', 'raise'),
                                                       ('re-parsed tree differs', 'ok', 'CompareError', 'raise')):
        seen = {}
        module = _Obj('Module', body=[], type_ignores=[])
        reparsed = _Obj('Module', body=[], type_ignores=[], tag='reparsed')

        def h_printer(I, e, a, kw, env):
            return _Obj('ModulePrinter', code='TEXT', _code='TEXT')

        def h_parse(I, e, a, kw, env, _pa=parse_answer):
            seen['parsed'] = a[0] if a else None
            if _pa != 'ok':
                raise _Raise(_pa)
            return reparsed

        def h_compare(I, e, a, kw, env, _ca=compare_answer):
            seen['compared'] = tuple(a)
            if _ca != 'ok':
                raise _Raise(_ca)
            return None
        I = Interp(model, 'python_minifier', {'ModulePrinter': h_printer, 'ast.parse': h_parse, 'compare_ast': h_compare, 'python_minifier.ast_compare.compare_ast': h_compare,
                                               'ast_compare.compare_ast': h_compare})
        res = I.explore(lambda: I.call_function(up_fi.qual, [module]))
        outs = {r_[0][0] for r_ in res}
        if 'abort' in outs:
            raise AnalysisError('UNDECIDED: unparse() when %s -> %s %s' % (label, [r_[0] for r_ in res][:2], res[0][2][:3]))
        ok = outs == {want}
        if want == 'return':
            ok = ok and all(r_[0][1] == 'TEXT' for r_ in res) and seen.get('parsed') == 'TEXT' and len(seen.get('compared', ())) == 2 and \
                module in seen['compared'] and reparsed in seen['compared']
        rep.check(ok, 'C01.SELF', up_fi.loc(), 'unparse() when %s -> %s' % (label, sorted(outs)), 'returns the printed text only after it was re-parsed and compared with the printed tree' if want == 'return' else 'raises',
                  'unparse() %s when %s (parsed %r, compared %s)' % ('returns normally' if 'return' in outs else 'does not return the text', label, seen.get('parsed'), 'the tree and its re-parse' if len(seen.get('compared', ())) == 2 else seen.get('compared')),
                  key='C01.SELF|' + label)
    rep.floor('C01.SELF', 3)
