"""C04 - externally visible names are never changed."""
import ast
import builtins

from ..absint import Interp, Obj, TOP, ClassRef
from ..absnodes import Name, std_hooks
from ..astutil import calls, kwarg, local_defs
from ..facts import Facts, fact_texts
from ..model import AnalysisError, Model, src, walk_own
from ..oracles import asdl, identifier_fields

# classification of the ASDL identifier fields (hand-written; an unclassified field is an ANALYSIS-ERROR)
BINDING = {('Name', 'id'), ('FunctionDef', 'name'), ('AsyncFunctionDef', 'name'), ('ClassDef', 'name'), ('alias', 'asname'), ('arg', 'arg'), ('ExceptHandler', 'name'),
           ('Global', 'names'), ('Nonlocal', 'names'), ('MatchAs', 'name'), ('MatchStar', 'name'), ('MatchMapping', 'rest'), ('TypeVar', 'name'), ('ParamSpec', 'name'),
           ('TypeVarTuple', 'name'), ('arguments', 'vararg'), ('arguments', 'kwarg')}
EXTERNAL = {('Attribute', 'attr'), ('keyword', 'arg'), ('alias', 'name'), ('ImportFrom', 'module'), ('MatchClass', 'kwd_attrs')}
RENAME_IMPLS = {'python_minifier.rename.binding.NameBinding.rename', 'python_minifier.rename.binding.BuiltinBinding.rename', 'python_minifier.rename.rename_literals.HoistedBinding.rename'}
B = 'python_minifier.rename.binding'
UTIL = 'python_minifier.rename.util'

CONTROL = '''
import python_minifier.ast_compat as ast
def control_entry(node, new):
    if isinstance(node, ast.Attribute):
        node.attr = new
    if isinstance(node, ast.keyword):
        node.arg = new
    if isinstance(node, ast.alias):
        node.name = new
'''


def class_names(model, module, e, depth=0):
    """AST class names denoted by the second argument of isinstance: ast.X, tuples, `+` of tuples, and module-level names bound to those."""
    if isinstance(e, ast.Attribute):
        return {e.attr}
    if isinstance(e, ast.Tuple):
        out = set()
        for x in e.elts:
            out |= class_names(model, module, x, depth)
        return out
    if isinstance(e, ast.BinOp) and isinstance(e.op, ast.Add):
        return class_names(model, module, e.left, depth) | class_names(model, module, e.right, depth)
    if isinstance(e, ast.Name) and model is not None and depth < 5:
        v = model.module_assigns.get(module, {}).get(e.id)
        if v is not None:
            return class_names(model, module, v, depth + 1)
    return set()


def classes_from_facts(facts, base_text, model=None, module=None):
    """AST classes the expression `base_text` is known to be an instance of at this point."""
    out = set()
    neg = set()
    for (k, p) in facts or ():
        if k.startswith('<'):
            continue
        t = ast.parse(k, mode='eval').body
        if isinstance(t, ast.Call) and src(t.func) == 'isinstance' and len(t.args) == 2 and src(t.args[0]) == base_text:
            if p:
                out |= class_names(model, module, t.args[1])
            else:
                neg |= class_names(model, module, t.args[1])
    return out - neg


def id_field_stores(model):
    """Every store to an attribute whose name is an ASDL identifier field: (FuncInfo, store node, base text, field, classes)."""
    idf = {f for (_c, f, _q) in identifier_fields()} | {'vararg', 'kwarg'}
    out = []
    for q, fi in sorted(model.funcs.items()):
        F = None
        for n in walk_own(fi.node):
            tgts = []
            if isinstance(n, ast.Assign):
                tgts = n.targets
            elif isinstance(n, (ast.AugAssign, ast.AnnAssign)):
                tgts = [n.target]
            for t in tgts:
                for x in ast.walk(t):
                    if isinstance(x, ast.Attribute) and isinstance(x.ctx, ast.Store) and x.attr in idf and not (isinstance(x.value, ast.Name) and x.value.id in ('self', 'cls')):
                        val = getattr(n, 'value', None)
                        if isinstance(val, ast.Call) and isinstance(val.func, ast.Attribute) and isinstance(val.func.value, ast.Name) and val.func.value.id == 'self' and \
                                (val.func.attr == 'visit' or val.func.attr.startswith('visit_')):
                            continue  # the field holds a child node here (py2 Name / py3 arg node), the value is the visited node, not an identifier
                        if F is None:
                            F = Facts(fi.node)
                        facts = F.facts_at(n)
                        classes = classes_from_facts(facts, src(x.value), model, fi.module)
                        # enclosing visit_<K>(self, node) handler gives the class of its node parameter
                        if not classes and fi.name.startswith('visit_') and isinstance(x.value, ast.Name) and fi.positional and x.value.id == fi.positional[0]:
                            classes = {fi.name[len('visit_'):]}
                        out.append((fi, n, src(x.value), x.attr, classes, facts))
    return out


def run(model, rep):
    rep.explanation = ('(OWN) every store in the package to an attribute that is an ASDL identifier field is classified by the node class known from isinstance facts: stores to '
                       'externally visible fields (Attribute.attr, keyword.arg, alias.name, ImportFrom.module, MatchClass.kwd_attrs) must not exist, stores to binding fields '
                       'only inside the three Binding.rename implementations; node constructions copy external fields from the original node. (PIN) the functions that hand '
                       'out bindings are abstractly evaluated per namespace kind / name shape and must pin class-body names, dunder names, builtin-shadowing names, '
                       'unresolved globals, dotted import roots, lambda parameters, super/object. (ARG) arg_rename_in_place is evaluated over every (function kind x '
                       'parameter position) and may answer True only for self/cls-like first parameters, *args/**kwargs and positional-only parameters; the in-signature '
                       'rename stores carry its fact. (GLOB) module bindings are pinned unless rename_globals, minify passes prefix_globals = not rename_globals and a '
                       'prefixed candidate name is what is tested and returned. Not decided: leakage through data rather than through a missing gate.')
    for r, t in [('C04.OWN1', 'no store to an external identifier field'), ('C04.OWN2', 'binding identifier fields written only by Binding.rename implementations'),
                 ('C04.PIN', 'pins on all paths (enumerated)'), ('C04.ARG', 'in-signature rename only where callers cannot pass by keyword (enumerated)'),
                 ('C04.GLOB', 'global gate and underscore prefix'), ('C04.SCOPE', 'names the interpreter binds at module level are filed under the module (and so governed by the global gate)')]:
        rep.rule(r, t)
    # classification must cover the ASDL of this interpreter
    for (c, f, q) in identifier_fields():
        if (c, f) not in BINDING and (c, f) not in EXTERNAL:
            raise AnalysisError('ASDL identifier field %s.%s is not classified as binding or external' % (c, f))
    own(model, rep, control=False)
    # positive control
    overlay = dict(model.overlay)
    overlay['src/python_minifier/_pmstatic_control.py'] = CONTROL
    cm = Model(root=model.root, overlay=overlay)
    from ..report import Report
    crep = Report('C04', rep.tier)
    own(cm, crep, control=True)
    hits = [o for o in crep.violations() if o.rule == 'C04.OWN1' and '_pmstatic_control' in o.where]
    if len(hits) != 3:
        raise AnalysisError('positive control: %d of 3 planted stores to external identifier fields reported' % len(hits))
    rep.ok('C04.OWN1', 'synthetic control', 'control module with stores to Attribute.attr, keyword.arg, alias.name', 'all 3 planted stores reported', key='C04|control', trivial=True)
    pins(model, rep)
    arg(model, rep)
    scope(model, rep)
    glob(model, rep)


def own(model, rep, control):
    stores = id_field_stores(model)
    n_bind = 0
    for (fi, n, base, field, classes, facts) in stores:
        where = fi.loc(n)
        key = '%s|%s.%s|%s' % (fi.qual, base, field, ','.join(sorted(classes)))
        if facts is None:
            continue
        if not classes:
            # class unknown: a store to a field name that is external for some class and binding for none is a violation outright
            ext = {c for (c, f) in EXTERNAL if f == field}
            bnd = {c for (c, f) in BINDING if f == field}
            if ext and not bnd:
                rep.violation('C04.OWN1', where, src(n)[:80], 'store to %s, which is only ever an externally visible name (%s)' % (field, sorted(ext)), key='C04.OWN1|' + key)
            elif fi.qual in RENAME_IMPLS:
                rep.note('store to .%s on a node whose class is not evident at %s: decided by the evaluation of rename over every reference kind (rename-enum)' % (field, where))
            elif bnd or ext:
                # attribute of the same name on a non-AST object (e.g. binding.name is a property; options objects): only AST nodes matter.
                rep.note('store to .%s on a value of unknown class in %s (not an AST node by construction: %s)' % (field, fi.qual, src(n)[:60]))
            continue
        for c in sorted(classes):
            if c in ('FunctionDef', 'AsyncFunctionDef', 'ClassDef') and field == 'name':
                pass
            if (c, field) in EXTERNAL:
                rep.violation('C04.OWN1', where, src(n)[:80], '%s.%s is visible to other code (attribute / keyword / imported name) and must keep its spelling' % (c, field), key='C04.OWN1|' + key)
            elif (c, field) in BINDING:
                n_bind += 1
                rep.check(fi.qual in RENAME_IMPLS, 'C04.OWN2', where, '%s: %s.%s = ...' % (fi.qual.split('.')[-2] + '.' + fi.name, c, field), 'inside a Binding.rename implementation',
                          'binding name field %s.%s is rewritten outside the renamer (%s): it bypasses the permission and reservation logic' % (c, field, fi.qual), key='C04.OWN2|' + key)
    if not control:
        pass   # (no floor: a renamer that writes through setattr has no attribute stores at all; what rename does is decided by rename_enum)
    # constructions that carry an external identifier field
    n_c = 0
    for q, fi in sorted(model.funcs.items()):
        for c in calls(fi.node):
            f = c.func
            if isinstance(f, ast.Attribute) and isinstance(f.value, ast.Name) and model.is_ast_alias(fi.module, f.value.id) and f.attr in asdl():
                cls = asdl()[f.attr]
                names = [x[0] for x in cls.fields]
                given = {}
                for i, a in enumerate(c.args):
                    if i < len(names):
                        given[names[i]] = a
                for kw in c.keywords:
                    if kw.arg:
                        given[kw.arg] = kw.value
                for fld, val in given.items():
                    if (f.attr, fld) in EXTERNAL:
                        n_c += 1
                        copied = isinstance(val, ast.Attribute) and val.attr == fld
                        rep.check(copied, 'C04.OWN1', fi.loc(c), 'ast.%s(%s=%s)' % (f.attr, fld, src(val)), 'copied from the original node',
                                  'a new %s node gets its externally visible %s from %s instead of the original node' % (f.attr, fld, src(val)), key='C04.OWN1|build|%s|%s.%s' % (fi.qual, f.attr, fld))
    rep.ok('C04.OWN1', 'src/python_minifier', 'scan of %d stores to identifier-named attributes' % len(stores), 'none targets an external field', cells=len(stores), key='C04.OWN1|scan')


def pins(model, rep):
    BN = 'python_minifier.rename.bind_names'
    RN = 'python_minifier.rename.resolve_names'
    binder = BN + '.NameBinder'

    def is_pinned(b):
        return isinstance(b, Obj) and b.attrs.get('_allow_rename') is False

    base_hooks = lambda: dict(std_hooks(), **{'dir': lambda I, e, args, kw, env: dir(builtins),
                                               'get_global_namespace': lambda I, e, args, kw, env: args[0].attrs.get('_module', TOP) if isinstance(args[0], Obj) else TOP,
                                               'get_nonlocal_namespace': lambda I, e, args, kw, env: args[0].attrs.get('_nonlocal', TOP) if isinstance(args[0], Obj) else TOP})

    def ns(kind, **kw):
        o = Obj(kind, bindings=[], global_names=set(), nonlocal_names=set(), **kw)
        return o
    # a. NameBinder.get_binding per namespace kind / name
    gb = model.method(binder, 'get_binding')
    for kind, name, want in (('ClassDef', 'attr', True), ('FunctionDef', 'local', False), ('Module', 'glob', False), ('FunctionDef', 'len', True), ('Module', 'print', True),
                             ('FunctionDef', '__dunder__', True), ('Lambda', 'x', False), ('ListComp', 'x', False), ('ClassDef', '_private', True)):
        I = Interp(model, BN, base_hooks())
        res = I.explore(lambda: I.call_method(binder, 'get_binding', Obj('NameBinder'), [name, ns(kind)]))
        for (o, ev, unk) in res:
            if o[0] != 'return' or not isinstance(o[1], Obj):
                raise AnalysisError('UNDECIDED: NameBinder.get_binding(%r, <%s>) -> %s %s' % (name, kind, o, unk[:3]))
            rep.check(is_pinned(o[1]) == want, 'C04.PIN', gb.loc(), 'binder: name %r in a %s namespace -> %s' % (name, kind, 'pinned' if is_pinned(o[1]) else 'renamable'), 'as required',
                      'a binding for %r in a %s namespace is %s' % (name, kind, 'renamable: %s' % ('class attributes are reachable by name from outside' if kind == 'ClassDef' else 'it shadows a builtin / is a system name') if want else 'pinned'),
                      key='C04.PIN|binder|%s|%s' % (kind, name))
    # b. existing binding re-fetched in a class namespace stays pinned (pin applied on all paths, not only on creation)
    I = Interp(model, BN, base_hooks())
    cns = ns('ClassDef')
    existing = Obj('NameBinding', _name='attr', _allow_rename=True, _reserved=None, _references=[])
    existing.attrs['name'] = 'attr'
    cns.attrs['bindings'].append(existing)
    res = I.explore(lambda: I.call_method(binder, 'get_binding', Obj('NameBinder'), ['attr', cns]))
    rep.check(all(o[0] == 'return' and o[1] is existing and is_pinned(existing) for (o, _e, _u) in res), 'C04.PIN', gb.loc(), 'binder: existing binding fetched again in a class namespace', 'pinned on this path too',
              'the class-namespace pin is only applied when the binding is created', key='C04.PIN|binder|existing')
    # c. resolver
    rgb = model.func(RN + '.get_binding')
    for label, name, want_cls, want_pin in (('unresolved non-builtin global', 'undefined_name', 'NameBinding', True), ('builtin', 'len', 'BuiltinBinding', False), ('super', 'super', 'BuiltinBinding', True),
                                           ('object', 'object', 'BuiltinBinding', True)):
        I = Interp(model, RN, base_hooks())
        res = I.explore(lambda: I.call_function(rgb.qual, [name, ns('Module', tainted=False)]))
        for (o, ev, unk) in res:
            if o[0] != 'return' or not isinstance(o[1], Obj):
                raise AnalysisError('UNDECIDED: resolve_names.get_binding(%r) -> %s %s' % (name, o, unk[:3]))
            b = o[1]
            rep.check(b.cls == want_cls and is_pinned(b) == want_pin, 'C04.PIN', rgb.loc(), 'resolver: %s %r -> %s, %s' % (label, name, b.cls, 'pinned' if is_pinned(b) else 'renamable'), 'as required',
                      '%s %r resolves to a %s that is %s' % (label, name, b.cls, 'renamable' if want_pin else 'pinned'), key='C04.PIN|resolver|' + label)
    dcr = model.func(RN + '.get_binding_disallow_class_namespace_rename')
    for kind, want in (('ClassDef', True), ('FunctionDef', False)):
        I = Interp(model, RN, base_hooks())
        n_ = ns(kind)
        b0 = Obj('NameBinding', _name='v', _allow_rename=True, _reserved=None, _references=[])
        b0.attrs['name'] = 'v'
        n_.attrs['bindings'].append(b0)
        res = I.explore(lambda: I.call_function(dcr.qual, ['v', n_]))
        rep.check(all(o[0] == 'return' and is_pinned(o[1]) == want for (o, _e, _u) in res), 'C04.PIN', dcr.loc(), 'resolver: nonlocal-style rebinding in a %s namespace -> %s' % (kind, 'pinned' if is_pinned(b0) else 'renamable'),
                  'as required', 'a name rebound in a %s body is %s' % (kind, 'renamable' if want else 'pinned'), key='C04.PIN|resolver|rebind-' + kind)
    # d. dunder rule in NameBinding.__init__
    for name, want in (('__all__', True), ('__x__', True), ('_x', False), ('x__', False), ('__x', False), ('x', False)):
        I = Interp(model, B, {})
        res = I.explore(lambda: I.construct(ClassRef('NameBinding'), [name], {}))
        for (o, ev, unk) in res:
            if o[0] != 'return':
                raise AnalysisError('UNDECIDED: NameBinding(%r) -> %s' % (name, o))
            rep.check(is_pinned(o[1]) == want, 'C04.PIN', model.func(B + '.NameBinding.__init__').loc(), 'NameBinding(%r) -> %s' % (name, 'pinned' if is_pinned(o[1]) else 'renamable'), 'system names pinned',
                      'NameBinding(%r) is %s' % (name, 'renamable' if want else 'pinned'), key='C04.PIN|dunder|' + name)
    # e. imports
    va = model.method(binder, 'visit_alias')
    for label, nm, asname, want_names in (('import a.b', 'a.b', None, {'a': True}), ('import a', 'a', None, {'a': False}), ('import a.b as c', 'a.b', 'c', {'c': False})):
        I = Interp(model, BN, base_hooks())
        fns = ns('FunctionDef')
        mod = ns('Module', tainted=False)
        node = Obj('alias', name=nm, asname=asname, namespace=fns, _module=mod)
        res = I.explore(lambda: I.call_method(binder, 'visit_alias', Obj('NameBinder'), [node]))
        for (o, ev, unk) in res:
            if o[0] != 'return':
                raise AnalysisError('UNDECIDED: visit_alias(%s) -> %s %s' % (label, o, unk[:3]))
        got = {b.attrs.get('_name'): is_pinned(b) for b in fns.attrs['bindings']}
        rep.check(got == want_names, 'C04.PIN', va.loc(), '%s -> bindings %s' % (label, got), 'root of a dotted import pinned', '%s creates bindings %s (name: pinned?), expected %s' % (label, got, want_names), key='C04.PIN|import|' + label)
    # f. lambda parameters
    varg = model.method(binder, 'visit_arg')
    for kind, inplace, want in (('Lambda', False, True), ('FunctionDef', False, False), ('Lambda', True, False)):
        hooks = base_hooks()
        hooks['arg_rename_in_place'] = lambda I, e, args, kw, env, _v=inplace: _v
        hooks['self.generic_visit'] = lambda I, e, args, kw, env: None
        I = Interp(model, BN, hooks)
        fns = ns(kind)
        node = Obj('arg', arg='p', annotation=None, namespace=fns)
        res = I.explore(lambda: I.call_method(binder, 'visit_arg', Obj('NameBinder'), [node]))
        if any(o[0] != 'return' for (o, _e, _u) in res):
            raise AnalysisError('UNDECIDED: visit_arg(%s) -> %s' % (kind, [r[0] for r in res]))
        b = fns.attrs['bindings'][0] if fns.attrs['bindings'] else None
        reserved = b.attrs.get('_reserved') if b is not None else None
        ok = b is not None and is_pinned(b) == want and (inplace or reserved == 'p')
        rep.check(ok, 'C04.PIN', varg.loc(), 'parameter of a %s, in-place=%s -> %s, reserved=%r' % (kind, inplace, 'pinned' if b is not None and is_pinned(b) else 'renamable', reserved), 'keyword-callable names stay reserved; lambda parameters pinned',
                  'a parameter of a %s (renamable in the signature: %s) is %s with reserved name %r' % (kind, inplace, 'pinned' if b is not None and is_pinned(b) else 'renamable', reserved), key='C04.PIN|arg|%s|%s' % (kind, inplace))
    rep.floor('C04.PIN', 28)


def arg(model, rep):
    fi = model.func(UTIL + '.arg_rename_in_place')
    cells = 0
    bad = []

    def arguments(n_pos, n_args, vararg, n_kwonly, kwarg):
        mk = lambda i: Obj('arg', arg='p%d' % i, annotation=None)
        a = Obj('arguments', posonlyargs=[mk(i) for i in range(n_pos)], args=[mk(10 + i) for i in range(n_args)], vararg=mk(20) if vararg else None,
                kwonlyargs=[mk(30 + i) for i in range(n_kwonly)], kw_defaults=[None] * n_kwonly, kwarg=mk(40) if kwarg else None, defaults=[])
        return a
    kinds = {
        'function': lambda args: Obj('FunctionDef', args=args, decorator_list=[], namespace=Obj('Module'), name='f'),
        'nested function': lambda args: Obj('FunctionDef', args=args, decorator_list=[], namespace=Obj('FunctionDef'), name='f'),
        'method': lambda args: Obj('FunctionDef', args=args, decorator_list=[], namespace=Obj('ClassDef'), name='f'),
        'async method': lambda args: Obj('AsyncFunctionDef', args=args, decorator_list=[], namespace=Obj('ClassDef'), name='f'),
        'classmethod': lambda args: Obj('FunctionDef', args=args, decorator_list=[Name('classmethod')], namespace=Obj('ClassDef'), name='f'),
        'staticmethod': lambda args: Obj('FunctionDef', args=args, decorator_list=[Name('staticmethod')], namespace=Obj('ClassDef'), name='f'),
        'decorated method': lambda args: Obj('FunctionDef', args=args, decorator_list=[Name('deco')], namespace=Obj('ClassDef'), name='f'),
        'classmethod+other': lambda args: Obj('FunctionDef', args=args, decorator_list=[Name('classmethod'), Name('deco')], namespace=Obj('ClassDef'), name='f'),
        'lambda': lambda args: Obj('Lambda', args=args, namespace=Obj('FunctionDef')),
        'lambda in class': lambda args: Obj('Lambda', args=args, namespace=Obj('ClassDef')),
    }
    for kname, mkf in sorted(kinds.items()):
        for (n_pos, n_args) in ((0, 2), (1, 1), (2, 0), (0, 1), (1, 0)):
            for vararg in (False, True):
                for n_kwonly in (0, 1):
                    for kwarg_ in (False, True):
                        args = arguments(n_pos, n_args, vararg, n_kwonly, kwarg_)
                        func = mkf(args)
                        every = [('posonly', x) for x in args.attrs['posonlyargs']] + [('arg', x) for x in args.attrs['args']] + ([('vararg', args.attrs['vararg'])] if vararg else []) + \
                            [('kwonly', x) for x in args.attrs['kwonlyargs']] + ([('kwarg', args.attrs['kwarg'])] if kwarg_ else [])
                        first = (args.attrs['posonlyargs'] + args.attrs['args'])[0] if (n_pos + n_args) else None
                        for (pos, node) in every:
                            node.attrs['namespace'] = func
                            I = Interp(model, UTIL, {})
                            res = I.explore(lambda: I.call_function(fi.qual, [node]))
                            cells += 1
                            is_method = kname in ('method', 'async method', 'classmethod')
                            want = pos in ('posonly', 'vararg', 'kwarg') or (is_method and node is first)
                            for (o, ev, unk) in res:
                                if o[0] != 'return' or o[1] is TOP:
                                    raise AnalysisError('UNDECIDED: arg_rename_in_place(%s of %s) -> %s %s' % (pos, kname, o, unk[:3]))
                                if bool(o[1]) != want:
                                    bad.append((kname, pos, 'first' if node is first else 'later', bool(o[1])))
    seen = set()
    for b in bad:
        if b in seen:
            continue
        seen.add(b)
        kname, pos, where_, got = b
        rep.violation('C04.ARG', fi.loc(), '%s parameter (%s) of a %s -> in-place=%s' % (pos, where_, kname, got),
                      'a parameter that callers can pass by keyword would be renamed in the signature' if got else 'a parameter that no caller can name is no longer renamed in the signature',
                      key='C04.ARG|%s|%s|%s' % (kname, pos, where_))
    if not bad:
        rep.ok('C04.ARG', fi.loc(), 'arg_rename_in_place over %d (function kind x parameter) cells' % cells, 'True only for self/cls-like first parameters, *args/**kwargs, positional-only', cells=cells, key='C04.ARG|enum')
    # comprehension arm (python 2 list comprehension variables): isinstance(func, ast.comprehension) -> True is harmless (no callers)
    # what Binding.rename does to every kind of reference node is decided by evaluation (rename_enum)
    rename_enum(model, rep)
    rep.floor('C04.ARG', 3)


def rename_enum(model, rep):
    """NameBinding.rename / BuiltinBinding.rename abstractly evaluated on one reference node of every ASDL class that has an identifier field.
    Afterwards: no externally visible identifier field has changed; a parameter that callers may pass by keyword (arg_rename_in_place False)
    keeps its spelling in the signature; the binding fields carry the new name."""
    from ..oracles import asdl
    OLD, NEW = 'orig', 'NEW'
    id_by_class = {}
    for (c, f, q) in identifier_fields():
        id_by_class.setdefault(c, []).append((f, q))

    def mk(c, variant):
        attrs = {}
        for (f, t, q) in asdl()[c].fields:
            if t == 'identifier':
                attrs[f] = [OLD, 'other'] if q == '*' else OLD
            elif q == '*':
                attrs[f] = []
            else:
                attrs[f] = None
        if c == 'Name':
            attrs['ctx'] = Obj(variant)
        if c == 'alias' and variant == 'plain':
            attrs['asname'] = None
        if c == 'MatchAs':
            attrs['pattern'] = None
        o = Obj(c)
        o.attrs.update(attrs)
        o.attrs['namespace'] = Obj('FunctionDef', body=[], name='host')
        return o
    n_cells = 0
    bad_ext, bad_kw, bad_new = [], [], []
    for bq in (B + '.NameBinding', B + '.BuiltinBinding'):
        for c in sorted(id_by_class):
            variants = {'Name': ['Load', 'Store', 'Del', 'Param'], 'alias': ['plain', 'as']}.get(c, [''])
            for variant in variants:
                for inplace in ((True, False) if c == 'arg' or (c, variant) == ('Name', 'Param') else (None,)):
                    node = mk(c, variant)
                    before = {f: (list(v) if isinstance(v, list) else v) for f, v in node.attrs.items() if any(f == x for (x, _q) in id_by_class[c])}
                    binding = Obj(bq.split('.')[-1], _name=OLD, _references=[node], _allow_rename=True, _reserved=None)
                    binding.qual = bq
                    hooks = dict(std_hooks(), **{'arg_rename_in_place': lambda I, e, args, kw, env: inplace, 'insert': lambda I, e, args, kw, env: (list(args[0]) if isinstance(args[0], list) else []) + [args[1]]})
                    I = Interp(model, B, hooks)
                    res = I.explore(lambda: I.call_method(bq, 'rename', binding, [NEW]))
                    n_cells += 1
                    label = '%s.rename on a %s%s reference%s' % (bq.split('.')[-1], c, ' (%s)' % variant if variant else '', '' if inplace is None else ', in-place=%s' % inplace)
                    if len(res) != 1 or res[0][0][0] not in ('return', 'raise'):
                        raise AnalysisError('UNDECIDED: %s -> %s' % (label, [(r[0], r[2][:2]) for r in res][:3]))
                    if res[0][0][0] == 'raise':
                        continue   # a reference kind the renamer refuses: nothing is renamed
                    for (f, q) in id_by_class[c]:
                        now = node.attrs.get(f)
                        was = before[f]
                        if (c, f) in EXTERNAL:
                            if now != was:
                                bad_ext.append('%s: %s.%s changed from %r to %r' % (label, c, f, was, now))
                        elif inplace is False:
                            if now != was:
                                bad_kw.append('%s: the parameter is renamed in the signature (%r -> %r) although callers may pass it by keyword' % (label, was, now))
                        elif (c, f) in BINDING and c in ('Name', 'FunctionDef', 'AsyncFunctionDef', 'ClassDef', 'arg', 'ExceptHandler', 'MatchAs', 'MatchStar', 'MatchMapping', 'TypeVar',
                                                        'TypeVarTuple', 'ParamSpec', 'Global', 'Nonlocal') or (c, f) == ('alias', 'asname'):
                            want = [NEW, 'other'] if q == '*' else NEW
                            if now != want:
                                bad_new.append('%s: %s.%s is %r afterwards, expected %r' % (label, c, f, now, want))
    fi = model.func(B + '.NameBinding.rename')
    rep.check(not bad_ext, 'C04.OWN1', fi.loc(), 'rename evaluated on %d reference kinds: externally visible fields' % n_cells, 'unchanged', '; '.join(bad_ext[:3]), key='C04.OWN1|rename-enum', cells=n_cells)
    rep.check(not bad_kw, 'C04.ARG', fi.loc(), 'rename evaluated on parameters that are not renamable in place', 'the signature keeps the spelling (the new name is bound in the body)',
              '; '.join(bad_kw[:3]), key='C04.ARG|rename-enum|signature', cells=4)
    rep.check(not bad_new, 'C04.ARG', fi.loc(), 'rename evaluated on %d reference kinds: binding fields' % n_cells, 'carry the new name', '; '.join(bad_new[:3]), key='C04.ARG|rename-enum|new', cells=n_cells)


SCOPE_PROBE = '''
[(m_gw1 := m_gv1) for t in m_gi1]
[[(m_gw2 := m_gv2) for a in m_gi2] for b in m_gi3]
{k: [(m_gw3 := k) for a in m_gi4] for k in m_gi5}
m_gx = [(m_gw4 := t) for t in m_gi6 if (m_gw5 := t)]
'''


def scope(model, rep):
    """An assignment expression inside comprehensions at module level binds a *module-level* name (visible to importers). The mapper and binder,
    run on a probe, must file that binding under the module - otherwise it is renamed as if it were a local, whatever rename_globals says."""
    from .c03 import _ToGen, binder_places, run_mapper
    from .. import oracles
    ref_src = ast.unparse(ast.fix_missing_locations(_ToGen().visit(ast.parse(SCOPE_PROBE))))
    mod, markers = run_mapper(model, SCOPE_PROBE)
    n = 0
    for m in sorted(markers):
        node = markers[m]
        par = node.attrs.get('_parent')
        if not (isinstance(par, Obj) and par.cls == 'NamedExpr' and par.attrs.get('target') is node):
            continue
        want = oracles.binding_scope(ref_src, m)
        placed = binder_places(model, mod, node)
        n += 1
        rep.check(placed == want == (), 'C04.SCOPE', 'src/python_minifier/rename/bind_names.py', 'module-level comprehension: binding of %s' % m,
                  'filed under the module', 'the interpreter binds %s at module level, the binder files it under %s: the name is renamed like a local although other modules can import it' %
                  (m, '/'.join(placed) if placed else repr(placed)), key='C04.SCOPE|' + m)
    rep.floor('C04.SCOPE', 5, n)


def glob(model, rep):
    mi = model.func('python_minifier.minify')
    # minify() evaluated with recorders (pmstatic.apirun): what does rename() receive as prefix_globals?
    from .. import apirun
    for rg in (False, True):
        for tainted in (False, True):
            r = apirun.run(model, kwargs={'rename_globals': rg}, tainted=tainted)
            ev = r.event('rename')
            if r.outcome[0] != 'return' or ev is None:
                raise AnalysisError('UNDECIDED: minify(rename_globals=%r) -> %s, rename() %s' % (rg, r.outcome, 'not called' if ev is None else 'called'))
            (_k, _n, a, kw) = ev
            t = model.func('python_minifier.rename.renamer.rename')
            idx = t.positional.index('prefix_globals') if 'prefix_globals' in t.positional else 1
            got = kw.get('prefix_globals', a[idx] if idx < len(a) else '<not passed>')
            effective = rg and not tainted
            rep.check(got is (not effective), 'C04.GLOB', mi.loc(), 'minify(rename_globals=%r) on a %s module -> rename(prefix_globals=%r)' % (rg, 'tainted' if tainted else 'clean', got),
                      'new module-level names get the underscore exactly when global renaming is not in effect',
                      'names added at module level are not forced to start with an underscore although global renaming is not in effect (prefix_globals=%r)' % (got,) if not effective else
                      'the underscore prefix is forced although global renaming is requested (prefix_globals=%r)' % (got,), key='C04.GLOB|prefix-arg|%s|%s' % (rg, tainted))
    # the assignment loop, abstractly evaluated on a module-level and a function-level binding (no shape of the loop is assumed)
    from . import assign_enum
    na = model.func('python_minifier.rename.renamer.NameAssigner.__call__')
    bad = []
    n_sc = 0
    for sc, obs in assign_enum.enumerate_loop(model):
        n_sc += 1
        for o in obs:
            for nm in o['renamed_to']:
                if not isinstance(nm, str):
                    bad.append('%s: %s binding renamed to an undetermined name' % (sc, o['where']))
                elif o['where'] == 'module' and sc['prefix_globals'] and not nm.startswith('_'):
                    bad.append('prefix_globals=True: module-level binding renamed to %r, which does not start with an underscore (%s)' % (nm, sc))
                elif nm not in o['tested'] or nm.lstrip('_') in ('a', 'aa'):
                    bad.append('%s binding renamed to %r, which was not found available in its reservation scope (tested %s; %s)' % (o['where'], nm, o['tested'], sc))
            if o['where'] == 'function' and any(isinstance(nm, str) and nm.startswith('_') for nm in o['renamed_to']):
                bad.append('function-level binding given the prefixed name %s (%s)' % (o['renamed_to'], sc))
            if o['where'] == 'module' and not sc['prefix_globals'] and any(isinstance(nm, str) and nm.startswith('_') for nm in o['renamed_to']):
                bad.append('prefix_globals=False: module-level binding still given the prefixed name %s' % (o['renamed_to'],))
    rep.check(not bad, 'C04.GLOB', na.loc(), 'assignment loop evaluated on %d scenarios (prefix switch x profitability x availability x binding kind)' % n_sc,
              'module-level names carry the underscore exactly under prefix_globals; every assigned name was tested available',
              'the name-assignment loop %s' % '; '.join(bad[:3]), key='C04.GLOB|assign-loop', cells=2 * n_sc)
    rep.ok('C04.GLOB', na.loc(), 'unprefixed names', 'function-level bindings and module-level bindings without prefix_globals receive unprefixed candidates', key='C04.GLOB|plain') if not bad else None
    # available_name returns the prefixed candidate it tested
    an = 'python_minifier.rename.renamer.NameAssigner'
    tested = []
    hooks = {'self.iter_names': lambda I, e, args, kw, env: ['a', 'b', 'c'],
             'self.is_available': lambda I, e, args, kw, env: (tested.append(args[0]), args[0] == '_b')[1]}
    I = Interp(model, 'python_minifier.rename.renamer', hooks)
    res = I.explore(lambda: I.call_method(an, 'available_name', Obj('NameAssigner'), [['scope'], '_']))
    for (o, ev, unk) in res:
        ok = o[0] == 'return' and o[1] == '_b' and tested == ['_a', '_b']
        rep.check(ok, 'C04.GLOB', model.method(an, 'available_name').loc(), "available_name(scope, prefix='_') tests %s returns %r" % (tested, o[1]), 'prefixed candidate tested and returned',
                  'the name returned (%r) is not the prefixed candidate that was tested (%s)' % (o[1], tested), key='C04.GLOB|available_name')
    rep.floor('C04.GLOB', 4)
