"""C04 - externally visible names are never changed."""
import ast
import builtins

from ..absint import Interp, Obj, TOP, ClassRef
from ..absnodes import Name, public_value, std_hooks
from ..astutil import calls, kwarg, local_defs
from ..facts import Facts, fact_texts
from ..model import AnalysisError, Model, src, walk_own
from ..oracles import asdl, identifier_fields

# classification of the ASDL identifier fields (hand-written; an unclassified field is an ANALYSIS-ERROR)
BINDING = {('Name', 'id'), ('FunctionDef', 'name'), ('AsyncFunctionDef', 'name'), ('ClassDef', 'name'), ('alias', 'asname'), ('arg', 'arg'), ('ExceptHandler', 'name'),
           ('Global', 'names'), ('Nonlocal', 'names'), ('MatchAs', 'name'), ('MatchStar', 'name'), ('MatchMapping', 'rest'), ('TypeVar', 'name'), ('ParamSpec', 'name'),
           ('TypeVarTuple', 'name'), ('arguments', 'vararg'), ('arguments', 'kwarg')}
EXTERNAL = {('Attribute', 'attr'), ('keyword', 'arg'), ('alias', 'name'), ('ImportFrom', 'module'), ('MatchClass', 'kwd_attrs')}
RENAME_IMPLS = {'python_minifier.rename.binding.NameBinding.rename', 'python_minifier.rename.binding.BuiltinBinding.rename', 'python_minifier.rename.rename_literals.HoistedBinding.rename'}
B = 'python_minifier.rename.binding'
UTIL = 'python_minifier.rename.util'

CONTROL = '''
import python_minifier.ast_compat as ast
def control_entry(node, new):
    if isinstance(node, ast.Attribute):
        node.attr = new
    if isinstance(node, ast.keyword):
        node.arg = new
    if isinstance(node, ast.alias):
        node.name = new
'''


def class_names(model, module, e, depth=0):
    """AST class names denoted by the second argument of isinstance: ast.X, tuples, `+` of tuples, and module-level names bound to those."""
    if isinstance(e, ast.Attribute):
        return {e.attr}
    if isinstance(e, ast.Tuple):
        out = set()
        for x in e.elts:
            out |= class_names(model, module, x, depth)
        return out
    if isinstance(e, ast.BinOp) and isinstance(e.op, ast.Add):
        return class_names(model, module, e.left, depth) | class_names(model, module, e.right, depth)
    if isinstance(e, ast.Name) and model is not None and depth < 5:
        v = model.module_assigns.get(module, {}).get(e.id)
        if v is not None:
            return class_names(model, module, v, depth + 1)
    return set()


def classes_from_facts(facts, base_text, model=None, module=None):
    """AST classes the expression `base_text` is known to be an instance of at this point."""
    out = set()
    neg = set()
    for (k, p) in facts or ():
        if k.startswith('<'):
            continue
        t = ast.parse(k, mode='eval').body
        if isinstance(t, ast.Call) and src(t.func) == 'isinstance' and len(t.args) == 2 and src(t.args[0]) == base_text:
            if p:
                out |= class_names(model, module, t.args[1])
            else:
                neg |= class_names(model, module, t.args[1])
    return out - neg


def id_field_stores(model):
    """Every store to an attribute whose name is an ASDL identifier field: (FuncInfo, store node, base text, field, classes)."""
    idf = {f for (_c, f, _q) in identifier_fields()} | {'vararg', 'kwarg'}
    out = []
    for q, fi in sorted(model.funcs.items()):
        F = None
        for n in walk_own(fi.node):
            tgts = []
            if isinstance(n, ast.Assign):
                tgts = n.targets
            elif isinstance(n, (ast.AugAssign, ast.AnnAssign)):
                tgts = [n.target]
            for t in tgts:
                for x in ast.walk(t):
                    if isinstance(x, ast.Attribute) and isinstance(x.ctx, ast.Store) and x.attr in idf and not (isinstance(x.value, ast.Name) and x.value.id in ('self', 'cls')):
                        val = getattr(n, 'value', None)
                        if isinstance(val, ast.Call) and isinstance(val.func, ast.Attribute) and isinstance(val.func.value, ast.Name) and val.func.value.id == 'self' and \
                                (val.func.attr == 'visit' or val.func.attr.startswith('visit_')):
                            continue  # the field holds a child node here (py2 Name / py3 arg node), the value is the visited node, not an identifier
                        if F is None:
                            F = Facts(fi.node)
                        facts = F.facts_at(n)
                        classes = classes_from_facts(facts, src(x.value), model, fi.module)
                        # enclosing visit_<K>(self, node) handler gives the class of its node parameter
                        if not classes and fi.name.startswith('visit_') and isinstance(x.value, ast.Name) and fi.positional and x.value.id == fi.positional[0]:
                            classes = {fi.name[len('visit_'):]}
                        out.append((fi, n, src(x.value), x.attr, classes, facts))
    return out


def run(model, rep):
    rep.explanation = ('(OWN) every store in the package to an attribute that is an ASDL identifier field is classified by the node class known from isinstance facts: stores to '
                       'externally visible fields (Attribute.attr, keyword.arg, alias.name, ImportFrom.module, MatchClass.kwd_attrs) must not exist, stores to binding fields '
                       'only inside the three Binding.rename implementations; node constructions copy external fields from the original node. (PIN) the functions that hand '
                       'out bindings are abstractly evaluated per namespace kind / name shape and must pin class-body names, dunder names, builtin-shadowing names, '
                       'unresolved globals, dotted import roots, lambda parameters, super/object. (ARG) arg_rename_in_place is evaluated over every (function kind x '
                       'parameter position) and may answer True only for self/cls-like first parameters, *args/**kwargs and positional-only parameters; the in-signature '
                       'rename stores carry its fact. (GLOB) module bindings are pinned unless rename_globals, minify passes prefix_globals = not rename_globals and a '
                       'prefixed candidate name is what is tested and returned. Not decided: leakage through data rather than through a missing gate.')
    for r, t in [('C04.OWN1', 'no store to an external identifier field'), ('C04.OWN2', 'binding identifier fields written only by Binding.rename implementations'),
                 ('C04.PIN', 'pins on all paths (enumerated)'), ('C04.ARG', 'in-signature rename only where callers cannot pass by keyword (enumerated)'),
                 ('C04.GLOB', 'global gate and underscore prefix'), ('C04.SCOPE', 'names the interpreter binds at module level are filed under the module (and so governed by the global gate)')]:
        rep.rule(r, t)
    # classification must cover the ASDL of this interpreter
    for (c, f, q) in identifier_fields():
        if (c, f) not in BINDING and (c, f) not in EXTERNAL:
            raise AnalysisError('ASDL identifier field %s.%s is not classified as binding or external' % (c, f))
    own(model, rep, control=False)
    # positive control
    overlay = dict(model.overlay)
    overlay['src/python_minifier/_pmstatic_control.py'] = CONTROL
    cm = Model(root=model.root, overlay=overlay)
    from ..report import Report
    crep = Report('C04', rep.tier)
    own(cm, crep, control=True)
    hits = [o for o in crep.violations() if o.rule == 'C04.OWN1' and '_pmstatic_control' in o.where]
    if len(hits) != 3:
        raise AnalysisError('positive control: %d of 3 planted stores to external identifier fields reported' % len(hits))
    rep.ok('C04.OWN1', 'synthetic control', 'control module with stores to Attribute.attr, keyword.arg, alias.name', 'all 3 planted stores reported', key='C04|control', trivial=True)
    # ---- end to end: the real minify() on probe modules, judged against the interpreter's own scoping (symtable)
    from . import rename_e2e, hoist_e2e
    rep.rule('C04.E2E', 'renaming end to end on probe modules: names no function scope binds, attributes, keyword names, imported names, preserved names keep their spelling; module-level additions carry the underscore')
    rename_e2e.run(model, rep, 'C04.E2E')
    rename_e2e.idioms(model, rep, 'C04.E2E')
    rename_e2e.reuse(model, rep, 'C04.E2E')
    rep.rule('C04.KEEP', 'end to end, both renaming options on: class attributes, system names, names used but never bound, roots of dotted imports, lambda parameters, super keep their spelling')
    keep = {n: why for (_sc, n), (pin, _res, why) in PIN_EXPECT.items() if pin and n not in ('print', 'object')}
    rename_e2e.keep_names(model, rep, 'C04.KEEP', 'pin probe', PIN_PROBE, set(keep), keep)
    rep.floor('C04.KEEP', 15)
    rep.rule('C04.SIG', 'end to end: every function kind x signature shape - parameters callers can pass by keyword keep their spelling in the signature')
    rename_e2e.signatures(model, rep, 'C04.SIG', ARG_KINDS, ARG_SIGS)
    rep.floor('C04.SIG', 40)
    rep.rule('C04.ADD', 'end to end: names the hoister adds at module level start with an underscore (de-hoisting oracle)')
    hoist_e2e.run(model, rep, 'C04.ADD')
    # ---- white-box rules: written against internal functions of the renamer (forced renames, synthetic scope worlds); not evaluated when those
    # internals do not exist under their names - the end-to-end rules above decide the behaviour
    rep.optional(['C04.PIN'], ['C04.KEEP', 'C04.E2E'], lambda: pins(model, rep))
    rep.optional(['C04.ARG'], ['C04.SIG'], lambda: arg(model, rep))
    rep.optional(['C04.SCOPE'], ['C04.E2E'], lambda: scope(model, rep))
    rep.optional(['C04.GLOB'], ['C04.E2E', 'C04.ADD'], lambda: glob(model, rep))


def own(model, rep, control):
    stores = id_field_stores(model)
    n_bind = 0
    for (fi, n, base, field, classes, facts) in stores:
        where = fi.loc(n)
        key = '%s|%s.%s|%s' % (fi.qual, base, field, ','.join(sorted(classes)))
        if facts is None:
            continue
        if not classes:
            # class unknown: a store to a field name that is external for some class and binding for none is a violation outright
            ext = {c for (c, f) in EXTERNAL if f == field}
            bnd = {c for (c, f) in BINDING if f == field}
            if ext and not bnd:
                rep.violation('C04.OWN1', where, src(n)[:80], 'store to %s, which is only ever an externally visible name (%s)' % (field, sorted(ext)), key='C04.OWN1|' + key)
            elif fi.qual in RENAME_IMPLS:
                rep.note('store to .%s on a node whose class is not evident at %s: decided by the evaluation of rename over every reference kind (rename-enum)' % (field, where))
            elif bnd or ext:
                # attribute of the same name on a non-AST object (e.g. binding.name is a property; options objects): only AST nodes matter.
                rep.note('store to .%s on a value of unknown class in %s (not an AST node by construction: %s)' % (field, fi.qual, src(n)[:60]))
            continue
        for c in sorted(classes):
            if c in ('FunctionDef', 'AsyncFunctionDef', 'ClassDef') and field == 'name':
                pass
            if (c, field) in EXTERNAL:
                rep.violation('C04.OWN1', where, src(n)[:80], '%s.%s is visible to other code (attribute / keyword / imported name) and must keep its spelling' % (c, field), key='C04.OWN1|' + key)
            elif (c, field) in BINDING:
                n_bind += 1
                rep.check(fi.qual in RENAME_IMPLS, 'C04.OWN2', where, '%s: %s.%s = ...' % (fi.qual.split('.')[-2] + '.' + fi.name, c, field), 'inside a Binding.rename implementation',
                          'binding name field %s.%s is rewritten outside the renamer (%s): it bypasses the permission and reservation logic' % (c, field, fi.qual), key='C04.OWN2|' + key)
    if not control:
        pass   # (no floor: a renamer that writes through setattr has no attribute stores at all; what rename does is decided by rename_enum)
    # constructions that carry an external identifier field
    n_c = 0
    for q, fi in sorted(model.funcs.items()):
        for c in calls(fi.node):
            f = c.func
            if isinstance(f, ast.Attribute) and isinstance(f.value, ast.Name) and model.is_ast_alias(fi.module, f.value.id) and f.attr in asdl():
                cls = asdl()[f.attr]
                names = [x[0] for x in cls.fields]
                given = {}
                for i, a in enumerate(c.args):
                    if i < len(names):
                        given[names[i]] = a
                for kw in c.keywords:
                    if kw.arg:
                        given[kw.arg] = kw.value
                for fld, val in given.items():
                    if (f.attr, fld) in EXTERNAL:
                        n_c += 1
                        copied = isinstance(val, ast.Attribute) and val.attr == fld
                        rep.check(copied, 'C04.OWN1', fi.loc(c), 'ast.%s(%s=%s)' % (f.attr, fld, src(val)), 'copied from the original node',
                                  'a new %s node gets its externally visible %s from %s instead of the original node' % (f.attr, fld, src(val)), key='C04.OWN1|build|%s|%s.%s' % (fi.qual, f.attr, fld))
    rep.ok('C04.OWN1', 'src/python_minifier', 'scan of %d stores to identifier-named attributes' % len(stores), 'none targets an external field', cells=len(stores), key='C04.OWN1|scan')


PIN_PROBE = '''
import pkg.sub
import plain
import pkg2.sub2 as aliased
from mod import member, other as renamed_member
class K(Base):
    attr = 1
    _private = 2
    def method(self, kwparam, *rest):
        inner_local = kwparam
        return inner_local, undefined_global, len(rest)
    class Nested:
        nested_attr = 3
def func(param, second=0):
    local = 1
    __dunder__ = 2
    print = 3
    lam = lambda lam_param: lam_param
    def innerdef(): pass
    import os.path
    return local, __dunder__, print, lam, super, object, innerdef, another_undefined, os
glob = 1
__version__ = 2
_single = 3
'''

# (scope, name) -> (pinned by the binder / resolver?, must the original spelling stay reserved in the scope?, why)
PIN_EXPECT = {
    ('module', 'pkg'): (True, None, 'root of a dotted import: `pkg.sub` is reached through the name pkg'),
    ('module', 'plain'): (False, None, ''), ('module', 'aliased'): (False, None, ''), ('module', 'member'): (False, None, ''), ('module', 'renamed_member'): (False, None, ''),
    ('module', 'K'): (False, None, ''), ('module', 'func'): (False, None, ''), ('module', 'glob'): (False, None, ''), ('module', '_single'): (False, None, ''),
    ('module', '__version__'): (True, None, 'system (double underscore) name'),
    ('module', 'undefined_global'): (True, None, 'used but never bound: it belongs to whoever defines it'), ('module', 'another_undefined'): (True, None, 'used but never bound'),
    ('module', 'Base'): (True, None, 'used but never bound'),
    ('module', 'len'): (False, None, ''), ('module', 'super'): (True, None, 'zero-argument super() needs the spelling'), ('module', 'object'): (True, None, 'new-style class base'),
    ('K', 'attr'): (True, None, 'class attribute, reachable as K.attr'), ('K', '_private'): (True, None, 'class attribute'), ('K', 'method'): (True, None, 'class attribute'),
    ('K', 'Nested'): (True, None, 'class attribute'), ('Nested', 'nested_attr'): (True, None, 'class attribute'),
    ('method', 'self'): (False, None, ''), ('method', 'kwparam'): (False, 'kwparam', 'callers may pass it by keyword: the signature keeps the spelling'), ('method', 'rest'): (False, None, ''),
    ('method', 'inner_local'): (False, None, ''),
    ('func', 'param'): (False, 'param', 'callers may pass it by keyword'), ('func', 'second'): (False, 'second', 'callers may pass it by keyword'), ('func', 'local'): (False, None, ''),
    ('func', '__dunder__'): (True, None, 'system name'), ('func', 'print'): (True, None, 'shadows a builtin'), ('func', 'lam'): (False, None, ''), ('func', 'innerdef'): (False, None, ''),
    ('func', 'os'): (True, None, 'root of a dotted import'),
    ('lambda', 'lam_param'): (True, None, 'lambda parameters can be passed by keyword and a lambda has no body to re-bind them in'),
}


def pins(model, rep):
    """mapper + binder + resolver run (abstractly) on a probe module; then every binding is inspected: which names are pinned by construction,
    which keep their spelling reserved. No private function of the renamer is named."""
    from .c03 import MAPPER, scope_label
    from ..absnodes import set_parents, std_hooks, walk
    from ..absprint import to_obj
    R_ = 'python_minifier.rename.'
    mod = to_obj(ast.parse(PIN_PROBE))
    set_parents(mod)
    hooks = dict(std_hooks(), **{'dir': lambda I, e, args, kw, env: dir(builtins)})
    I = Interp(model, MAPPER, hooks, max_depth=600)
    I.MAX_PATHS = 8

    def thunk():
        I.call_function(MAPPER + '.add_namespace', [mod])
        I.call_function(R_ + 'bind_names.bind_names', [mod])
        I.call_function(R_ + 'resolve_names.resolve_names', [mod])
    res = I.explore(thunk)
    if len(res) != 1 or res[0][0][0] != 'return':
        raise AnalysisError('UNDECIDED: bind / resolve on the pin probe -> %s %s' % ([r[0] for r in res][:2], res[0][2][:3]))
    seen = {}
    for o in walk(mod):
        bs = o.attrs.get('bindings')
        if not isinstance(bs, list):
            continue
        scope = 'module' if o.cls == 'Module' else (scope_label(o) or o.cls)
        for b in bs:
            if isinstance(b, Obj):
                seen[(scope, public_value(model, b, 'name'))] = b
    where = 'src/python_minifier/rename/bind_names.py'
    for (scope, name), (want_pin, want_reserved, why) in sorted(PIN_EXPECT.items()):
        b = seen.get((scope, name))
        key = 'C04.PIN|%s|%s' % (scope, name)
        if b is None:
            rep.violation('C04.PIN', where, '%s in %s' % (name, scope), 'no binding is created for %s in the %s scope (found %s)' % (name, scope, sorted(n for (s_, n) in seen if s_ == scope)), key=key)
            continue
        pinned = public_value(model, b, 'allow_rename') is False
        reserved = public_value(model, b, 'reserved')
        ok = pinned == want_pin and (want_reserved is None or pinned or reserved == want_reserved)
        rep.check(ok, 'C04.PIN', where, '%s in the %s scope -> %s%s' % (name, scope, 'pinned' if pinned else 'renamable', ', reserved %r' % reserved if reserved else ''),
                  'as required' + (' (%s)' % why if why else ''),
                  '%s in the %s scope is %s%s: %s' % (name, scope, 'pinned' if pinned else 'renamable', '' if want_reserved is None or reserved == want_reserved else ' and its spelling %r is not reserved' % want_reserved,
                                                     why or 'an ordinary name must stay renamable, or nothing is ever shortened'), key=key)
    rep.floor('C04.PIN', 28)


ARG_KINDS = {
    'function': 'def f({SIG}):\n    return [{USE}]\n',
    'nested function': 'def outer():\n    def f({SIG}):\n        return [{USE}]\n    return f\n',
    'method': 'class K:\n    def f({SIG}):\n        return [{USE}]\n',
    'async method': 'class K:\n    async def f({SIG}):\n        return [{USE}]\n',
    'classmethod': 'class K:\n    @classmethod\n    def f({SIG}):\n        return [{USE}]\n',
    'staticmethod': 'class K:\n    @staticmethod\n    def f({SIG}):\n        return [{USE}]\n',
    'decorated method': 'class K:\n    @deco\n    def f({SIG}):\n        return [{USE}]\n',
    'classmethod under another decorator': 'class K:\n    @classmethod\n    @deco\n    def f({SIG}):\n        return [{USE}]\n',
    'method of a nested class': 'def outer():\n    class K:\n        def f({SIG}):\n            return [{USE}]\n    return K\n',
}
ARG_SIGS = [('p0, p1, /, a0, a1, *va, k0, **kw', ['p0', 'p1', 'a0', 'a1', 'va', 'k0', 'kw'], {'p0': 'posonly', 'p1': 'posonly', 'a0': 'arg', 'a1': 'arg', 'va': 'vararg', 'k0': 'kwonly', 'kw': 'kwarg'}),
            ('a0, a1=None, *, k0=1', ['a0', 'a1', 'k0'], {'a0': 'arg', 'a1': 'arg', 'k0': 'kwonly'}),
            ('a0', ['a0'], {'a0': 'arg'}), ('*va, **kw', ['va', 'kw'], {'va': 'vararg', 'kw': 'kwarg'}), ('p0, /', ['p0'], {'p0': 'posonly'}),
            # no positional parameter at all: nothing is "the implicit first parameter"
            ('*, k0=80, k1=4', ['k0', 'k1'], {'k0': 'kwonly', 'k1': 'kwonly'}), ('*va, k0=1', ['va', 'k0'], {'va': 'vararg', 'k0': 'kwonly'}), ('**kw', ['kw'], {'kw': 'kwarg'}),
            # parameters spelled like the names the renamer hands out, next to one that is renamed in place
            ('a0, A, B=1, *, C=2', ['a0', 'A', 'B', 'C'], {'a0': 'arg', 'A': 'arg', 'B': 'arg', 'C': 'kwonly'}), ('p0, /, A, *va, B=0', ['p0', 'A', 'va', 'B'], {'p0': 'posonly', 'A': 'arg', 'va': 'vararg', 'B': 'kwonly'})]


def arg_probe(model, rep):
    """For every function kind x signature shape: mapper + binder + resolver run on a probe, then `rename` of every parameter binding is evaluated.
    A parameter callers can pass by keyword must keep its spelling in the signature (the new name is bound in the body instead); positional-only
    parameters, *args / **kwargs and the implicit first parameter of a method / classmethod are renamed in the signature."""
    from .c03 import MAPPER
    from ..absnodes import set_parents, std_hooks, walk
    from ..absprint import to_obj, print_obj
    R_ = 'python_minifier.rename.'
    bad = []
    cells = 0
    for kname, tpl in sorted(ARG_KINDS.items()):
        for (sig, names, kinds) in ARG_SIGS:
            source = tpl.replace('{SIG}', sig).replace('{USE}', ', '.join(names))
            mod = to_obj(ast.parse(source))
            set_parents(mod)
            hooks = dict(std_hooks(), **{'dir': lambda I, e, args, kw, env: dir(builtins)})
            I = Interp(model, MAPPER, hooks, max_depth=600)
            I.MAX_PATHS = 8
            new_names = {n: 'N%d' % i for i, n in enumerate(names)}

            def thunk():
                I.call_function(MAPPER + '.add_namespace', [mod])
                I.call_function(R_ + 'bind_names.bind_names', [mod])
                I.call_function(R_ + 'resolve_names.resolve_names', [mod])
                fn = [o for o in walk(mod) if o.cls in ('FunctionDef', 'AsyncFunctionDef') and o.attrs.get('name') == 'f'][0]
                for b in list(fn.attrs.get('bindings') or []):
                    nm = public_value(model, b, 'name') if isinstance(b, Obj) else None
                    if isinstance(b, Obj) and nm in new_names:
                        I.call_method(b.qual or R_ + 'binding.NameBinding', 'rename', b, [new_names[nm]])
                return fn
            res = I.explore(thunk)
            if len(res) != 1 or res[0][0][0] != 'return':
                raise AnalysisError('UNDECIDED: renaming the parameters of a %s (%s) -> %s %s' % (kname, sig, [r[0] for r in res][:2], res[0][2][:3]))
            fn = res[0][0][1]
            a = fn.attrs['args']
            sig_names = [x.attrs['arg'] for x in (a.attrs.get('posonlyargs') or []) + a.attrs['args']] + ([a.attrs['vararg'].attrs['arg']] if a.attrs.get('vararg') else []) + \
                [x.attrs['arg'] for x in a.attrs.get('kwonlyargs') or []] + ([a.attrs['kwarg'].attrs['arg']] if a.attrs.get('kwarg') else [])
            is_method = kname in ('method', 'async method', 'classmethod', 'method of a nested class')
            first = names[0] if kinds[names[0]] in ('posonly', 'arg') else None
            for n_ in names:
                cells += 1
                in_place = new_names[n_] in sig_names
                kept = n_ in sig_names
                want = kinds[n_] in ('posonly', 'vararg', 'kwarg') or (is_method and n_ == first)
                if in_place and not want:
                    bad.append((kname, kinds[n_], 'first' if n_ == first else 'later', 'a %s parameter (%s) of a %s is renamed in the signature (%s -> %s): callers that pass it by keyword break' % (kinds[n_], 'first' if n_ == first else 'not first', kname, sig, ', '.join(sig_names))))
                elif want and not in_place and not kept:
                    bad.append((kname, kinds[n_], 'lost', 'parameter %s of a %s disappears from the signature' % (n_, kname)))
                elif not in_place and not kept:
                    bad.append((kname, kinds[n_], 'lost', 'parameter %s of a %s is neither kept nor renamed' % (n_, kname)))
            kind_, text = print_obj(model, mod)
            if kind_ == 'ok':
                try:
                    ast.parse(text)
                except SyntaxError as e_:
                    bad.append((kname, 'all', 'syntax', 'after renaming the parameters of a %s the program does not parse: %s %r' % (kname, e_, text[:80])))
    fi = model.func('python_minifier.rename.binding.NameBinding.rename')
    seen = set()
    for b in bad:
        if b[:3] in seen:
            continue
        seen.add(b[:3])
        rep.violation('C04.ARG', fi.loc(), '%s parameter (%s) of a %s' % (b[1], b[2], b[0]), b[3], key='C04.ARG|probe|%s|%s|%s' % b[:3])
    if not bad:
        rep.ok('C04.ARG', fi.loc(), 'parameters renamed on %d (function kind x signature x parameter) probes' % cells, 'renamed in the signature only where no caller can name them; otherwise re-bound in the body', cells=cells, key='C04.ARG|probe')


def arg(model, rep):
    arg_probe(model, rep)
    # what Binding.rename does to every kind of reference node is decided by evaluation (rename_enum)
    rename_enum(model, rep)
    rep.floor('C04.ARG', 3)
    fi = model.funcs.get(UTIL + '.arg_rename_in_place')
    if fi is None:
        rep.note('no function %s.arg_rename_in_place: the in-place decision is decided through the probes above only' % UTIL)
        return
    cells = 0
    bad = []

    def arguments(n_pos, n_args, vararg, n_kwonly, kwarg):
        mk = lambda i: Obj('arg', arg='p%d' % i, annotation=None)
        a = Obj('arguments', posonlyargs=[mk(i) for i in range(n_pos)], args=[mk(10 + i) for i in range(n_args)], vararg=mk(20) if vararg else None,
                kwonlyargs=[mk(30 + i) for i in range(n_kwonly)], kw_defaults=[None] * n_kwonly, kwarg=mk(40) if kwarg else None, defaults=[])
        return a
    kinds = {
        'function': lambda args: Obj('FunctionDef', args=args, decorator_list=[], namespace=Obj('Module'), name='f'),
        'nested function': lambda args: Obj('FunctionDef', args=args, decorator_list=[], namespace=Obj('FunctionDef'), name='f'),
        'method': lambda args: Obj('FunctionDef', args=args, decorator_list=[], namespace=Obj('ClassDef'), name='f'),
        'async method': lambda args: Obj('AsyncFunctionDef', args=args, decorator_list=[], namespace=Obj('ClassDef'), name='f'),
        'classmethod': lambda args: Obj('FunctionDef', args=args, decorator_list=[Name('classmethod')], namespace=Obj('ClassDef'), name='f'),
        'staticmethod': lambda args: Obj('FunctionDef', args=args, decorator_list=[Name('staticmethod')], namespace=Obj('ClassDef'), name='f'),
        'decorated method': lambda args: Obj('FunctionDef', args=args, decorator_list=[Name('deco')], namespace=Obj('ClassDef'), name='f'),
        'classmethod+other': lambda args: Obj('FunctionDef', args=args, decorator_list=[Name('classmethod'), Name('deco')], namespace=Obj('ClassDef'), name='f'),
        'lambda': lambda args: Obj('Lambda', args=args, namespace=Obj('FunctionDef')),
        'lambda in class': lambda args: Obj('Lambda', args=args, namespace=Obj('ClassDef')),
    }
    for kname, mkf in sorted(kinds.items()):
        for (n_pos, n_args) in ((0, 2), (1, 1), (2, 0), (0, 1), (1, 0)):
            for vararg in (False, True):
                for n_kwonly in (0, 1):
                    for kwarg_ in (False, True):
                        args = arguments(n_pos, n_args, vararg, n_kwonly, kwarg_)
                        func = mkf(args)
                        every = [('posonly', x) for x in args.attrs['posonlyargs']] + [('arg', x) for x in args.attrs['args']] + ([('vararg', args.attrs['vararg'])] if vararg else []) + \
                            [('kwonly', x) for x in args.attrs['kwonlyargs']] + ([('kwarg', args.attrs['kwarg'])] if kwarg_ else [])
                        first = (args.attrs['posonlyargs'] + args.attrs['args'])[0] if (n_pos + n_args) else None
                        for (pos, node) in every:
                            node.attrs['namespace'] = func
                            I = Interp(model, UTIL, {})
                            res = I.explore(lambda: I.call_function(fi.qual, [node]))
                            cells += 1
                            is_method = kname in ('method', 'async method', 'classmethod')
                            want = pos in ('posonly', 'vararg', 'kwarg') or (is_method and node is first)
                            for (o, ev, unk) in res:
                                if o[0] != 'return' or o[1] is TOP:
                                    raise AnalysisError('UNDECIDED: arg_rename_in_place(%s of %s) -> %s %s' % (pos, kname, o, unk[:3]))
                                if bool(o[1]) != want:
                                    bad.append((kname, pos, 'first' if node is first else 'later', bool(o[1])))
    seen = set()
    for b in bad:
        if b in seen:
            continue
        seen.add(b)
        kname, pos, where_, got = b
        rep.violation('C04.ARG', fi.loc(), '%s parameter (%s) of a %s -> in-place=%s' % (pos, where_, kname, got),
                      'a parameter that callers can pass by keyword would be renamed in the signature' if got else 'a parameter that no caller can name is no longer renamed in the signature',
                      key='C04.ARG|%s|%s|%s' % (kname, pos, where_))
    if not bad:
        rep.ok('C04.ARG', fi.loc(), 'arg_rename_in_place over %d (function kind x parameter) cells' % cells, 'True only for self/cls-like first parameters, *args/**kwargs, positional-only', cells=cells, key='C04.ARG|enum')
    # comprehension arm (python 2 list comprehension variables): isinstance(func, ast.comprehension) -> True is harmless (no callers)


def rename_enum(model, rep):
    """NameBinding.rename / BuiltinBinding.rename abstractly evaluated on one reference node of every ASDL class that has an identifier field.
    Afterwards: no externally visible identifier field has changed; a parameter that callers may pass by keyword (arg_rename_in_place False)
    keeps its spelling in the signature; the binding fields carry the new name."""
    from ..oracles import asdl
    OLD, NEW = 'orig', 'NEW'
    id_by_class = {}
    for (c, f, q) in identifier_fields():
        id_by_class.setdefault(c, []).append((f, q))

    def mk(c, variant):
        attrs = {}
        for (f, t, q) in asdl()[c].fields:
            if t == 'identifier':
                attrs[f] = [OLD, 'other'] if q == '*' else OLD
            elif q == '*':
                attrs[f] = []
            else:
                attrs[f] = None
        if c == 'Name':
            attrs['ctx'] = Obj(variant)
        if c == 'alias' and variant == 'plain':
            attrs['asname'] = None
        if c == 'MatchAs':
            attrs['pattern'] = None
        o = Obj(c)
        o.attrs.update(attrs)
        o.attrs['namespace'] = Obj('FunctionDef', body=[], name='host')
        return o
    n_cells = 0
    bad_ext, bad_kw, bad_new = [], [], []
    model.require_attrs(B + '.Binding', '_name', '_references', '_allow_rename', '_reserved')     # the bindings below are built by hand
    for bq in (B + '.NameBinding', B + '.BuiltinBinding'):
        for c in sorted(id_by_class):
            variants = {'Name': ['Load', 'Store', 'Del', 'Param'], 'alias': ['plain', 'as']}.get(c, [''])
            for variant in variants:
                for inplace in ((True, False) if c == 'arg' or (c, variant) == ('Name', 'Param') else (None,)):
                    node = mk(c, variant)
                    before = {f: (list(v) if isinstance(v, list) else v) for f, v in node.attrs.items() if any(f == x for (x, _q) in id_by_class[c])}
                    binding = Obj(bq.split('.')[-1], _name=OLD, _references=[node], _allow_rename=True, _reserved=None)
                    binding.qual = bq
                    hooks = dict(std_hooks(), **{'arg_rename_in_place': lambda I, e, args, kw, env: inplace, 'insert': lambda I, e, args, kw, env: (list(args[0]) if isinstance(args[0], list) else []) + [args[1]]})
                    I = Interp(model, B, hooks)
                    res = I.explore(lambda: I.call_method(bq, 'rename', binding, [NEW]))
                    n_cells += 1
                    label = '%s.rename on a %s%s reference%s' % (bq.split('.')[-1], c, ' (%s)' % variant if variant else '', '' if inplace is None else ', in-place=%s' % inplace)
                    if len(res) != 1 or res[0][0][0] not in ('return', 'raise'):
                        model.undecided(['arg_rename_in_place', 'insert'], 'UNDECIDED: %s -> %s' % (label, [(r[0], r[2][:2]) for r in res][:3]))
                    if res[0][0][0] == 'raise':
                        continue   # a reference kind the renamer refuses: nothing is renamed
                    for (f, q) in id_by_class[c]:
                        now = node.attrs.get(f)
                        was = before[f]
                        if (c, f) in EXTERNAL:
                            if now != was:
                                bad_ext.append('%s: %s.%s changed from %r to %r' % (label, c, f, was, now))
                        elif inplace is False:
                            if now != was:
                                bad_kw.append('%s: the parameter is renamed in the signature (%r -> %r) although callers may pass it by keyword' % (label, was, now))
                        elif (c, f) in BINDING and c in ('Name', 'FunctionDef', 'AsyncFunctionDef', 'ClassDef', 'arg', 'ExceptHandler', 'MatchAs', 'MatchStar', 'MatchMapping', 'TypeVar',
                                                        'TypeVarTuple', 'ParamSpec', 'Global', 'Nonlocal') or (c, f) == ('alias', 'asname'):
                            want = [NEW, 'other'] if q == '*' else NEW
                            if now != want:
                                bad_new.append('%s: %s.%s is %r afterwards, expected %r' % (label, c, f, now, want))
    fi = model.func(B + '.NameBinding.rename')
    rep.check(not bad_ext, 'C04.OWN1', fi.loc(), 'rename evaluated on %d reference kinds: externally visible fields' % n_cells, 'unchanged', '; '.join(bad_ext[:3]), key='C04.OWN1|rename-enum', cells=n_cells)
    rep.check(not bad_kw, 'C04.ARG', fi.loc(), 'rename evaluated on parameters that are not renamable in place', 'the signature keeps the spelling (the new name is bound in the body)',
              '; '.join(bad_kw[:3]), key='C04.ARG|rename-enum|signature', cells=4)
    rep.check(not bad_new, 'C04.ARG', fi.loc(), 'rename evaluated on %d reference kinds: binding fields' % n_cells, 'carry the new name', '; '.join(bad_new[:3]), key='C04.ARG|rename-enum|new', cells=n_cells)


SCOPE_PROBE = '''
[(m_gw1 := m_gv1) for t in m_gi1]
[[(m_gw2 := m_gv2) for a in m_gi2] for b in m_gi3]
{k: [(m_gw3 := k) for a in m_gi4] for k in m_gi5}
m_gx = [(m_gw4 := t) for t in m_gi6 if (m_gw5 := t)]
'''


def scope(model, rep):
    """An assignment expression inside comprehensions at module level binds a *module-level* name (visible to importers). The mapper and binder,
    run on a probe, must file that binding under the module - otherwise it is renamed as if it were a local, whatever rename_globals says."""
    from .c03 import _ToGen, binder_places, run_mapper
    from .. import oracles
    ref_src = ast.unparse(ast.fix_missing_locations(_ToGen().visit(ast.parse(SCOPE_PROBE))))
    mod, markers = run_mapper(model, SCOPE_PROBE)
    n = 0
    for m in sorted(markers):
        node = markers[m]
        par = node.attrs.get('_parent')
        if not (isinstance(par, Obj) and par.cls == 'NamedExpr' and par.attrs.get('target') is node):
            continue
        want = oracles.binding_scope(ref_src, m)
        placed = binder_places(model, mod, node)
        n += 1
        rep.check(placed == want == (), 'C04.SCOPE', 'src/python_minifier/rename/bind_names.py', 'module-level comprehension: binding of %s' % m,
                  'filed under the module', 'the interpreter binds %s at module level, the binder files it under %s: the name is renamed like a local although other modules can import it' %
                  (m, '/'.join(placed) if placed else repr(placed)), key='C04.SCOPE|' + m)
    rep.floor('C04.SCOPE', 5, n)


def glob(model, rep):
    mi = model.func('python_minifier.minify')
    # minify() evaluated with recorders (pmstatic.apirun): what does rename() receive as prefix_globals?
    from .. import apirun
    for rg in (False, True):
        for tainted in (False, True):
            r = apirun.run(model, kwargs={'rename_globals': rg}, tainted=tainted)
            ev = r.event('rename')
            if r.outcome[0] != 'return' or ev is None:
                raise AnalysisError('UNDECIDED: minify(rename_globals=%r) -> %s, rename() %s' % (rg, r.outcome, 'not called' if ev is None else 'called'))
            (_k, _n, a, kw) = ev
            t = model.func('python_minifier.rename.renamer.rename')
            idx = t.positional.index('prefix_globals') if 'prefix_globals' in t.positional else 1
            got = kw.get('prefix_globals', a[idx] if idx < len(a) else '<not passed>')
            effective = rg and not tainted
            rep.check(got is (not effective), 'C04.GLOB', mi.loc(), 'minify(rename_globals=%r) on a %s module -> rename(prefix_globals=%r)' % (rg, 'tainted' if tainted else 'clean', got),
                      'new module-level names get the underscore exactly when global renaming is not in effect',
                      'names added at module level are not forced to start with an underscore although global renaming is not in effect (prefix_globals=%r)' % (got,) if not effective else
                      'the underscore prefix is forced although global renaming is requested (prefix_globals=%r)' % (got,), key='C04.GLOB|prefix-arg|%s|%s' % (rg, tainted))
    # the assignment loop, abstractly evaluated on a module-level and a function-level binding (no shape of the loop is assumed)
    from . import assign_enum
    na = model.func('python_minifier.rename.renamer.NameAssigner.__call__')
    bad = []
    n_sc = 0
    for sc, obs in assign_enum.enumerate_loop(model):
        n_sc += 1
        for o in obs:
            for nm in o['renamed_to']:
                if not isinstance(nm, str):
                    bad.append('%s: %s binding renamed to an undetermined name' % (sc, o['where']))
                elif o['where'] == 'module' and sc['prefix_globals'] and not nm.startswith('_'):
                    bad.append('prefix_globals=True: module-level binding renamed to %r, which does not start with an underscore (%s)' % (nm, sc))
                elif nm not in o['tested'] or nm.lstrip('_') in ('a', 'aa'):
                    bad.append('%s binding renamed to %r, which was not found available in its reservation scope (tested %s; %s)' % (o['where'], nm, o['tested'], sc))
            if o['where'] == 'function' and any(isinstance(nm, str) and nm.startswith('_') for nm in o['renamed_to']):
                bad.append('function-level binding given the prefixed name %s (%s)' % (o['renamed_to'], sc))
            if o['where'] == 'module' and not sc['prefix_globals'] and any(isinstance(nm, str) and nm.startswith('_') for nm in o['renamed_to']):
                bad.append('prefix_globals=False: module-level binding still given the prefixed name %s' % (o['renamed_to'],))
    rep.check(not bad, 'C04.GLOB', na.loc(), 'assignment loop evaluated on %d scenarios (prefix switch x profitability x availability x binding kind)' % n_sc,
              'module-level names carry the underscore exactly under prefix_globals; every assigned name was tested available',
              'the name-assignment loop %s' % '; '.join(bad[:3]), key='C04.GLOB|assign-loop', cells=2 * n_sc)
    rep.ok('C04.GLOB', na.loc(), 'unprefixed names', 'function-level bindings and module-level bindings without prefix_globals receive unprefixed candidates', key='C04.GLOB|plain') if not bad else None
    # available_name returns the prefixed candidate it tested
    an = 'python_minifier.rename.renamer.NameAssigner'
    tested = []
    hooks = {'self.iter_names': lambda I, e, args, kw, env: ['a', 'b', 'c'],
             'self.is_available': lambda I, e, args, kw, env: (tested.append(args[0]), args[0] == '_b')[1]}
    I = Interp(model, 'python_minifier.rename.renamer', hooks)
    res = I.explore(lambda: I.call_method(an, 'available_name', Obj('NameAssigner'), [['scope'], '_']))
    for (o, ev, unk) in res:
        ok = o[0] == 'return' and o[1] == '_b' and tested == ['_a', '_b']
        rep.check(ok, 'C04.GLOB', model.method(an, 'available_name').loc(), "available_name(scope, prefix='_') tests %s returns %r" % (tested, o[1]), 'prefixed candidate tested and returned',
                  'the name returned (%r) is not the prefixed candidate that was tested (%s)' % (o[1], tested), key='C04.GLOB|available_name')
    rep.floor('C04.GLOB', 4)
