"""C06 - hoisted literals are bound once, before use, to an identical value."""
import ast
import itertools

from ..absint import Interp, Obj, TOP, ClassRef
from ..astutil import calls, kwarg, local_defs, single_def
from ..facts import Facts
from ..model import AnalysisError, LostAnchor, src, walk_own

RL = 'python_minifier.rename.rename_literals'
UTIL = 'python_minifier.rename.util'


def stmt_kinds():
    return {
        'doc': lambda: Obj('Expr', value=Obj('Constant', value='doc', kind=None)),
        'future': lambda: Obj('ImportFrom', module='__future__', names=[], level=0),
        'import': lambda: Obj('ImportFrom', module='os', names=[], level=0),
        'num': lambda: Obj('Expr', value=Obj('Constant', value=1, kind=None)),
        'bytes': lambda: Obj('Expr', value=Obj('Constant', value=b'x', kind=None)),
        'assign': lambda: Obj('Assign', targets=[Obj('Name', id='x')], value=Obj('Name', id='y')),
    }


def expected_position(kinds):
    i = 0
    while i < len(kinds) and kinds[i] in ('doc', 'future'):
        i += 1
    return i


NS_PROBE = '''
def outer(rows):
    def inner(a, strict=True | False, *, kw=True & True):
        return [r for r in rows if (True ^ False)], (lambda: True | True), {k: (False | True) for k in rows}
    class K:
        flag = True | False
        def meth(self, d=(True & True)):
            return True | False
    @deco(True | False)
    def dec(): pass
    return inner, (True | False)
x = [True | False for y in z]
w = 1 + 2
'''


def created_namespaces(model, rep):
    """Hoisting places an alias by the namespace recorded on every use of the constant. Constants can also be *created* by the folding transform
    (True | False -> True): the node it creates must carry the namespace of the place it stands in - that is, what the namespace mapper would
    assign if it were run on the transformed tree."""
    from .c07 import fold_run, obj_to_ast
    from .c03 import ns_path, MAPPER
    from ..absprint import to_obj
    from ..absnodes import set_parents, walk, std_hooks
    tree, out = fold_run(model, NS_PROBE)
    if isinstance(out, tuple):
        raise AnalysisError('UNDECIDED: FoldConstants on the namespace probe raises %s' % (out[1],))
    got = [(o.cls, o.attrs.get('value'), ns_path(o.attrs.get('namespace')) if isinstance(o.attrs.get('namespace'), Obj) else None) for o in walk(out) if o.cls == 'Constant']
    fresh = to_obj(ast.fix_missing_locations(obj_to_ast(out)))
    set_parents(fresh)
    I = Interp(model, MAPPER, std_hooks(), max_depth=400)
    res = I.explore(lambda: I.call_function(MAPPER + '.add_namespace', [fresh]))
    if len(res) != 1 or res[0][0][0] != 'return':
        raise AnalysisError('UNDECIDED: add_namespace on the folded probe -> %s' % [r[0] for r in res][:2])
    want = [(o.cls, o.attrs.get('value'), ns_path(o.attrs.get('namespace')) if isinstance(o.attrs.get('namespace'), Obj) else None) for o in walk(fresh) if o.cls == 'Constant']
    if len(got) != len(want) or len(got) < 10:
        raise AnalysisError('namespace probe: %d constants after folding, %d in the re-mapped tree' % (len(got), len(want)))
    n_folded = sum(1 for g in got if isinstance(g[1], bool))
    if n_folded < 8:
        raise AnalysisError('namespace probe: only %d boolean constants after folding - the probe expressions were not folded' % n_folded)
    bad = ['%r stands in %s but carries the namespace %s' % (g[1], '/'.join(w[2]) if w[2] else 'module', '/'.join(g[2]) if g[2] else ('module' if g[2] == () else 'none')) for g, w in zip(got, want) if g[2] != w[2]]
    rep.check(not bad, 'C06.NS', 'src/python_minifier/transforms/constant_folding.py', 'constants created by folding inside defaults, decorators, comprehensions, lambdas, class bodies (%d)' % n_folded,
              'each carries the namespace of the place it stands in', 'a folded constant is attributed to the wrong scope, hoisting it places or reserves the alias there: ' + '; '.join(bad[:3]), key='C06.NS|fold', cells=len(got))


def run(model, rep):
    rep.explanation = ('(INS) util.insert is abstractly evaluated on every statement list up to length 3 over six statement kinds (docstring, __future__ import, other '
                       'import, number statement, bytes statement, assignment): the new node must appear exactly once, directly after the maximal prefix of string '
                       'statements and __future__ imports, and nothing else may move. (KEY) both equality methods used as dictionary keys for hoisted values are '
                       'evaluated on exemplar pairs and must distinguish values of different type. (VAL) the inserted assignment binds Name(new, Store) to the '
                       'original constant node and every use becomes Name(new, Load). (EXCL) the collector is evaluated on a literal statement, an f-string, a match '
                       'case and a __slots__ assignment and must not register them. (PLACE) place_bindings is evaluated on a scope tree (module > f > {g, h, class > lambda}) '
                       'and must choose the deepest function/module namespace common to all uses. Not decided: uniqueness of the alias name; that the alias is never rebound.')
    for r, t in [('C06.INS', 'insert() position, enumerated'), ('C06.KEY', 'type-aware equality of hoisting keys, enumerated'), ('C06.VAL', 'hoisting end to end: putting the aliased constants back gives the original program; aliases assigned once, at the top of a function / module body'),
                 ('C06.EXCL', 'literals that must not be collected'), ('C06.PLACE', 'deepest common function namespace, enumerated'),
                 ('C06.NS', 'constants created by earlier transforms carry the namespace of the place they stand in')]:
        rep.rule(r, t)
    # ---------------- VAL: hoisting end to end - the real minify() with only hoist_literals on, on probe modules, then de-hoisted by the checker (hoist_e2e)
    from . import hoist_e2e
    hoist_e2e.run(model, rep, 'C06.VAL')
    from . import slot_e2e
    rep.rule('C06.SLOT', 'every expression slot of the grammar x every way an expression holds a repeated literal, as a module of its own through minify(hoist_literals=True): de-hoists to the original')
    slot_e2e.run(model, rep, 'C06.SLOT', 'hoist', 90, 1000)

    # ---------------- white-box rules: written against internal functions / classes of the hoister; not evaluated when those do not exist under
    # their names - C06.VAL decides the behaviour end to end
    def ins():
        ins = model.func(UTIL + '.insert')
        kinds = stmt_kinds()
        cells = 0
        bad = []
        for n in range(0, 4):
            for combo in itertools.product(sorted(kinds), repeat=n):
                suite = [kinds[k]() for k in combo]
                new = Obj('Assign', targets=[Obj('Name', id='A')], value=Obj('Constant', value='s'))
                I = Interp(model, UTIL, {})
                res = I.explore(lambda: I.materialise(I.call_function(ins.qual, [suite, new])))
                cells += 1
                for (o, ev, unk) in res:
                    if o[0] != 'return' or o[1] is TOP or not isinstance(o[1], list):
                        raise AnalysisError('UNDECIDED: insert(%s) -> %s %s' % (list(combo), o, unk[:3]))
                    out = o[1]
                    pos = expected_position(combo)
                    want = suite[:pos] + [new] + suite[pos:]
                    if len(out) != len(want) or any(a is not b for a, b in zip(out, want)):
                        got = ['NEW' if x is new else combo[suite.index(x)] if x in suite else '?' for x in out]
                        bad.append((combo, got))
        for (combo, got) in bad[:5]:
            rep.violation('C06.INS', ins.loc(), 'insert(%s, NEW)' % list(combo), 'yields %s; the new statement must come directly after the leading docstrings / __future__ imports and exactly once' % got,
                          key='C06.INS|%s' % '-'.join(combo))
        if not bad:
            rep.ok('C06.INS', ins.loc(), 'insert() on %d statement lists' % cells, 'new node exactly once, after the docstring/__future__ prefix, order otherwise unchanged', cells=cells, key='C06.INS|enum')
        # every insertion of a new statement goes through insert()
        n_ins = 0
        for q in ('python_minifier.rename.binding.NameBinding.rename', 'python_minifier.rename.binding.BuiltinBinding.rename', RL + '.HoistedBinding.rename'):
            fi = model.func(q)
            for n_ in walk_own(fi.node):
                if isinstance(n_, ast.Assign) and isinstance(n_.targets[0], ast.Attribute) and n_.targets[0].attr == 'body':
                    n_ins += 1
                    v = n_.value
                    ok = isinstance(v, ast.Call) and src(v.func) == 'list' and isinstance(v.args[0], ast.Call) and src(v.args[0].func) == 'insert' and \
                        src(v.args[0].args[0]) == src(n_.targets[0])
                    rep.check(ok, 'C06.INS', fi.loc(n_), '%s: %s = list(insert(...))' % (fi.qual.split('.')[-2], src(n_.targets[0])), 'new statement placed by insert() into the same body',
                              'a statement is added to a body without going through insert(): it can land before a docstring or __future__ import', key='C06.INS|site|' + q)
                if isinstance(n_, ast.Call) and isinstance(n_.func, ast.Attribute) and n_.func.attr in ('insert', 'append') and src(n_.func.value).endswith('.body'):
                    rep.violation('C06.INS', fi.loc(n_), src(n_)[:80], 'statement added to a body directly', key='C06.INS|direct|' + q)
        rep.floor('C06.INS', 1)   # where the inserted assignment lands in a real body is decided by C06.VAL (de-hoisting)

    def key():
        model.require_attrs(RL + '.HoistedBinding', '_value_node')
        model.require_attrs(RL + '.HoistLiterals', '_hoisted')
        ex = [True, False, None, 1, 0, 1.0, 0.0, 'a', b'a', '', b'', 'True']
        for cq, attr in ((RL + '.HoistedValue', '_value'), (RL + '.HoistedBinding', None)):
            fi = model.method(cq, '__eq__')
            if fi is None:
                rep.violation('C06.KEY', model.cls(cq).path, cq.split('.')[-1] + '.__eq__', 'no __eq__: keys compare by identity', key='C06.KEY|' + cq)
                continue
            bad = []
            cells = 0
            for a in ex:
                for b in ex:
                    if attr:
                        so, oo = Obj(cq.rsplit('.', 1)[1], **{attr: a}), Obj(cq.rsplit('.', 1)[1], **{attr: b})
                    else:
                        so = Obj('HoistedBinding', _value_node=Obj('Constant', value=a, kind=None))
                        oo = Obj('HoistedBinding', _value_node=Obj('Constant', value=b, kind=None))
                    I = Interp(model, RL, {})
                    res = I.explore(lambda: I.call_method(cq, '__eq__', so, [oo]))
                    cells += 1
                    for (o, ev, unk) in res:
                        if o[0] != 'return' or o[1] is TOP:
                            raise AnalysisError('UNDECIDED: %s.__eq__(%r, %r) -> %s %s' % (cq, a, b, o, unk[:3]))
                        want = type(a) is type(b) and a == b
                        if bool(o[1]) != want:
                            bad.append((a, b, o[1]))
            if bad:
                rep.violation('C06.KEY', fi.loc(), cq.split('.')[-1] + '.__eq__', 'conflates values of different type: %s' % ', '.join('%r == %r' % (a, b) for a, b, _ in bad[:4]), key='C06.KEY|' + cq)
            else:
                rep.ok('C06.KEY', fi.loc(), cq.split('.')[-1] + '.__eq__ on %d pairs' % cells, 'equal only for identical type and value', cells=cells, key='C06.KEY|' + cq)
        # the dictionary of hoisted values is keyed by the type-aware wrapper
        gb = model.func(RL + '.HoistLiterals.get_binding')
        keyed = False
        for n_ in walk_own(gb.node):
            if isinstance(n_, ast.Subscript) and src(n_.value) == 'self._hoisted':
                k = n_.slice
                d = single_def(local_defs(gb.node), k.id) if isinstance(k, ast.Name) else k
                keyed = isinstance(d, ast.Call) and src(d.func) == 'HoistedValue' and src(d.args[0]) == gb.positional[0]
        rep.check(keyed, 'C06.KEY', gb.loc(), 'self._hoisted[HoistedValue(value)]', 'keyed by the type-aware wrapper of the literal value', 'the table of hoisted literals is not keyed by the type-aware wrapper', key='C06.KEY|table')
        rep.floor('C06.KEY', 3)

    rep.optional(['C06.INS'], ['C06.VAL'], ins)
    rep.optional(['C06.KEY'], ['C06.VAL'], key)
    rep.optional(['C06.EXCL'], ['C06.VAL'], lambda: excl(model, rep))
    rep.optional(['C06.PLACE', 'C06.NS'], ['C06.VAL'], lambda: place(model, rep))


def excl(model, rep):
    HL = RL + '.HoistLiterals'
    model.require_attrs(HL, '_ignore_slots', '_hoisted')
    model.require_method(HL, 'get_binding')      # the collector's registration point, answered by a recorder below
    model.require_names('add_reference')

    def run_visit(method, node, extra_hooks=None):
        registered = []
        visited = []
        hooks = {'self.get_binding': lambda I, e, args, kw, env: (registered.append(args[1] if len(args) > 1 else args[0]), Obj('HoistedBinding', references=[]))[1],
                 'self.visit': lambda I, e, args, kw, env: visited.append(args[0]),
                 'self.generic_visit': lambda I, e, args, kw, env: visited.append(('generic', args[0])),
                 '.add_reference': lambda I, e, args, kw, env: None}
        hooks.update(extra_hooks or {})
        I = Interp(model, RL, hooks)
        so = Obj('HoistLiterals', _ignore_slots=True, _hoisted={})
        res = I.explore(lambda: I.call_method(HL, method, so, [node]))
        for (o, ev, unk) in res:
            if o[0] == 'raise' and ('no parent' in str(o[1]) or 'AttributeError' in str(o[1])):
                # the rule builds its nodes by hand (class, fields, namespace); code that asks such a node for more - its parent, another
                # annotation - is code this white-box rule was not written for
                raise LostAnchor('HoistLiterals.%s reads more of a node than the hand-built probe of this rule provides (%s)' % (method, o[1]))
            if o[0] not in ('return',):
                raise AnalysisError('UNDECIDED: HoistLiterals.%s -> %s %s' % (method, o, unk[:3]))
        return registered, visited
    loc = lambda m: (model.method(HL, m).loc() if model.method(HL, m) else 'src/python_minifier/rename/rename_literals.py')
    # (a) literal statement
    s = Obj('Constant', value='doc', kind=None)
    reg, _ = run_visit('visit_Str', s, {'get_parent': lambda I, e, args, kw, env: Obj('Expr')})
    rep.check(not reg, 'C06.EXCL', loc('visit_Str'), 'string that is an expression statement', 'not collected', 'a docstring / literal statement is collected for hoisting', key='C06.EXCL|stmt')
    s2 = Obj('Constant', value='x', kind=None)
    reg, _ = run_visit('visit_Str', s2, {'get_parent': lambda I, e, args, kw, env: Obj('Call')})
    rep.check(len(reg) == 1, 'C06.EXCL', loc('visit_Str'), 'string used as an argument (control)', 'collected', 'ordinary string literals are no longer collected (control)', key='C06.EXCL|control')
    b = Obj('Constant', value=b'doc', kind=None)
    reg, _ = run_visit('visit_Bytes', b, {'get_parent': lambda I, e, args, kw, env: Obj('Expr')})
    rep.check(not reg, 'C06.EXCL', loc('visit_Bytes'), 'bytes that is an expression statement', 'not collected', 'a bytes literal statement is collected for hoisting', key='C06.EXCL|stmt-bytes')
    # (b) f-string: constant parts are skipped, formatted values are visited
    const = Obj('Constant', value='text', kind=None)
    fv = Obj('FormattedValue', value=Obj('Name', id='x'), conversion=-1, format_spec=None)
    js = Obj('JoinedStr', values=[const, fv])
    reg, vis = run_visit('visit_JoinedStr', js)
    rep.check(not reg and const not in vis and fv in vis, 'C06.EXCL', loc('visit_JoinedStr'), 'f-string: literal text skipped, expression parts visited', 'as required',
              'the literal text of an f-string is handed to the collector (visited=%s)' % [getattr(v, 'cls', v) for v in vis], key='C06.EXCL|fstring')
    # format spec is itself a JoinedStr and is reached through generic traversal of FormattedValue -> visit_JoinedStr (no override for FormattedValue)
    has_fv_override = model.method(HL, 'visit_FormattedValue') is not None
    rep.check(not has_fv_override, 'C06.EXCL', loc('visit_JoinedStr'), 'format specs are traversed as nested JoinedStr', 'no FormattedValue override', 'FormattedValue is overridden: format spec text may be collected', key='C06.EXCL|spec')
    # (c) match case
    pat = Obj('MatchValue', value=Obj('Constant', value='s', kind=None))
    guard = Obj('Name', id='g')
    body = [Obj('Pass')]
    mc = Obj('match_case', pattern=pat, guard=guard, body=body)
    reg, vis = run_visit('visit_match_case', mc)
    rep.check(pat not in vis and guard in vis and body[0] in vis and not any(isinstance(v, tuple) for v in vis), 'C06.EXCL', loc('visit_match_case'), 'match_case: pattern not visited, guard and body visited', 'as required',
              'literals inside a match pattern are handed to the collector (a name there would be a capture pattern)', key='C06.EXCL|pattern')
    # (d) __slots__
    cls_ns = Obj('ClassDef')
    a1 = Obj('Assign', targets=[Obj('Name', id='__slots__')], value=Obj('Tuple', elts=[]), namespace=cls_ns)
    reg, vis = run_visit('visit_Assign', a1)
    rep.check(not vis and not reg, 'C06.EXCL', loc('visit_Assign'), '__slots__ assignment in a class body', 'not traversed', '__slots__ strings are collected for hoisting', key='C06.EXCL|slots')
    a2 = Obj('Assign', targets=[Obj('Name', id='other')], value=Obj('Tuple', elts=[]), namespace=cls_ns)
    reg, vis = run_visit('visit_Assign', a2)
    rep.check(bool(vis), 'C06.EXCL', loc('visit_Assign'), 'other class attribute assignment (control)', 'traversed', 'ordinary class assignments are no longer traversed (control)', key='C06.EXCL|slots-control')
    # the collector must not define handlers for other literal kinds
    extra = [n for n in model.methods(HL, own_only=True) if n in ('visit_Num', 'visit_Ellipsis', 'visit_Constant')]
    rep.check(not extra, 'C06.EXCL', model.cls(HL).path, 'collector kinds', 'only str, bytes and True/False/None are collected', 'collector also handles %s' % extra, key='C06.EXCL|kinds')
    rep.floor('C06.EXCL', 9)


def place(model, rep):
    HL = RL + '.HoistLiterals'
    model.require_attrs(HL, '_hoisted')
    model.require_attrs(RL + '.HoistedBinding', '_references', '_local_namespace')
    M = Obj('Module', bindings=[])
    M.attrs['namespace'] = M
    F = Obj('FunctionDef', namespace=M, bindings=[], name='f')
    G = Obj('FunctionDef', namespace=F, bindings=[], name='g')
    H = Obj('AsyncFunctionDef', namespace=F, bindings=[], name='h')
    C = Obj('ClassDef', namespace=F, bindings=[], name='C')
    L = Obj('Lambda', namespace=C, bindings=[])
    K = Obj('ListComp', namespace=G, bindings=[])
    CM = Obj('ClassDef', namespace=M, bindings=[], name='CM')
    for o in (F, G, H):
        pass
    # a namespace node's own .namespace attribute is the node itself for function/class/lambda/comprehension bodies; uses inside carry .namespace=<that node>
    def use(ns):
        return Obj('Constant', value='s', namespace=ns)
    # enclosing chain: the namespace attribute of a namespace node as seen by nearest_function_namespace(node) when node is a scope: node.namespace
    chain = {id(M): None, id(F): M, id(G): F, id(H): F, id(C): F, id(L): C, id(K): G, id(CM): M}

    def funcs_path(ns):
        path = []
        cur = ns
        while cur is not None:
            if cur.cls in ('FunctionDef', 'AsyncFunctionDef', 'Module'):
                path.insert(0, cur)
            cur = chain[id(cur)]
        return path
    cases = {'g': [G], 'g+h': [G, H], 'lambda-in-class': [L], 'g+module': [G, M], 'lambda+g': [L, G], 'comp-in-g': [K], 'class-at-module': [CM], 'h+h': [H, H], 'comp+h': [K, H]}
    pb = model.func(HL + '.place_bindings')
    cells = 0
    for cname, nss in cases.items():
        for o in (M, F, G, H, C, L, K, CM):
            o.attrs['bindings'] = []
        binding = Obj('HoistedBinding', _references=[use(n) for n in nss], _local_namespace=None)
        binding.attrs['references'] = binding.attrs['_references']
        so = Obj('HoistLiterals', _hoisted={'k': binding})
        I = Interp(model, RL, {})
        res = I.explore(lambda: I.call_method(HL, 'place_bindings', so, []))
        cells += 1
        for (o, ev, unk) in res:
            if o[0] != 'return':
                raise AnalysisError('UNDECIDED: place_bindings(%s) -> %s %s' % (cname, o, unk[:3]))
        paths = [funcs_path(n) for n in nss]
        common = []
        for steps in zip(*paths):
            if all(s is steps[0] for s in steps):
                common.append(steps[0])
            else:
                break
        want = common[-1]
        placed = [o for o in (M, F, G, H, C, L, K, CM) if binding in o.attrs['bindings']]
        got_local = binding.attrs.get('_local_namespace')
        ok = placed == [want] and got_local is want
        rep.check(ok, 'C06.PLACE', pb.loc(), 'uses in %s -> placed in %s' % (cname, [p.attrs.get('name', p.cls) for p in placed]), 'deepest function/module namespace common to all uses (%s)' % want.attrs.get('name', want.cls),
                  'binding for uses in %s is placed in %s (insertion namespace %s), expected %s: the assignment would not dominate every use or lands in a class/comprehension body' %
                  (cname, [p.attrs.get('name', p.cls) for p in placed], getattr(got_local, 'cls', got_local), want.attrs.get('name', want.cls)), key='C06.PLACE|' + cname)
    created_namespaces(model, rep)
    rep.floor('C06.PLACE', 9)
