"""Tree transforms evaluated end to end against reference rewrites written in the checker (C05.SUITE / RET / OBJ / IMP / POS).

Every transformer is run as the pipeline runs it - namespace mapper, then `Transformer()(module)` - on probe modules by the abstract interpreter;
the resulting tree must be exactly what the documented rewrite, implemented independently below, makes of the same module. The probes put the
construct in question into every kind of statement list the grammar has (function, class, if / elif / else, for-else, while-else, try / except /
else / finally, try*, with, match cases, module), as the only statement, first, last and in the middle.
"""
import ast
import copy

from ..model import AnalysisError

BLOCK_PROBE = '''
{S}
def f(a):
    {S}
    x = 1
    {S}
async def g(a):
    {S}
class K:
    {S}
    attr = 2
class L:
    {S}
if a:
    {S}
elif b:
    y = 1
    {S}
else:
    {S}
    z = 2
for i in j:
    {S}
else:
    {S}
while c:
    w = 3
    {S}
    v = 4
else:
    {S}
try:
    {S}
except E1:
    {S}
except E2 as e:
    u = 5
    {S}
else:
    {S}
finally:
    {S}
try:
    t = 6
except* E3:
    {S}
with m as n:
    {S}
async def h():
    async with m as n:
        {S}
    async for i in j:
        {S}
    else:
        {S}
match q:
    case 1:
        {S}
    case 2:
        s = 7
        {S}
def nested():
    def inner():
        {S}
    if a:
        if b:
            {S}
    return inner
'''


def _stmt_lists(node):
    for f in ('body', 'orelse', 'finalbody'):
        v = getattr(node, f, None)
        if isinstance(v, list) and v and isinstance(v[0], ast.stmt):
            yield f
        elif isinstance(v, list) and not v and f in ('body',) and isinstance(node, (ast.stmt, ast.Module, ast.ExceptHandler, ast.match_case)):
            yield f


def ref_filter(tree, removed):
    """Remove the statements for which removed(st) holds from every statement list; a list that becomes empty gets the placeholder `0` (a module
    may become empty)."""
    tree = copy.deepcopy(tree)

    def fix(node):
        for f in ('body', 'orelse', 'finalbody'):
            v = getattr(node, f, None)
            if isinstance(v, list) and (not v or isinstance(v[0], ast.stmt)):
                had = bool(v)
                new = [st for st in v if not removed(st)]
                if had and not new and not (isinstance(node, ast.Module)):
                    new = [ast.Expr(value=ast.Constant(value=0))]
                setattr(node, f, new)
                for st in new:
                    fix(st)
        for h in getattr(node, 'handlers', []) or []:
            fix(h)
        for c in getattr(node, 'cases', []) or []:
            fix(c)
    fix(tree)
    return ast.fix_missing_locations(tree)


def ref_return_none(tree):
    tree = copy.deepcopy(tree)
    for n in ast.walk(tree):
        if isinstance(n, ast.Return) and isinstance(n.value, ast.Constant) and n.value.value is None:
            n.value = None
    for n in ast.walk(tree):
        if isinstance(n, (ast.FunctionDef, ast.AsyncFunctionDef)):
            if n.body and isinstance(n.body[-1], ast.Return) and n.body[-1].value is None:
                n.body.pop()
            if not n.body:
                n.body = [ast.Expr(value=ast.Constant(value=0))]
    return ast.fix_missing_locations(tree)


def _binds_name(tree, name):
    """Some scope of the module binds `name` (the interpreter's symbol tables)."""
    import symtable

    def rec(t):
        for s_ in t.get_symbols():
            if s_.get_name() == name and (s_.is_assigned() or s_.is_imported() or s_.is_parameter()):
                return True
        return any(rec(c) for c in t.get_children())
    return rec(symtable.symtable(ast.unparse(tree), 'probe', 'exec'))


def ref_object(tree):
    tree = copy.deepcopy(tree)
    if _binds_name(tree, 'object'):
        return tree       # valid only where `object` is the builtin: a module that binds the name itself may mean another class by it
    for n in ast.walk(tree):
        if isinstance(n, ast.ClassDef):
            n.bases = [b for b in n.bases if not (isinstance(b, ast.Name) and b.id == 'object')]
    return tree


def ref_posargs(tree):
    tree = copy.deepcopy(tree)
    for n in ast.walk(tree):
        # valid only where no caller can tell the difference: with a **kwargs parameter `f(1, a=2)` is a legal call of `def f(a, /, **kw)` (a=2 lands in
        # kw) and a TypeError once the marker is gone - there the marker stays
        if isinstance(n, ast.arguments) and n.posonlyargs and n.kwarg is None:
            n.args = n.posonlyargs + n.args
            n.posonlyargs = []
    return tree


def ref_imports(tree):
    tree = copy.deepcopy(tree)

    def merge(body):
        out = []
        for st in body:
            prev = out[-1] if out else None
            if isinstance(st, ast.Import) and isinstance(prev, ast.Import):
                prev.names = prev.names + st.names
                continue
            if isinstance(st, ast.ImportFrom) and isinstance(prev, ast.ImportFrom) and prev.module == st.module and prev.level == st.level and \
                    not any(a.name == '*' for a in prev.names + st.names):
                prev.names = prev.names + st.names
                continue
            out.append(st)
        return out
    for n in ast.walk(tree):
        for f in ('body', 'orelse', 'finalbody'):
            v = getattr(n, f, None)
            if isinstance(v, list) and v and isinstance(v[0], ast.stmt):
                setattr(n, f, merge(v))
    return tree


def _indent_fill(template, stmt):
    lines = []
    for l in template.split('\n'):
        if l.strip() == '{S}':
            ind = l[:len(l) - len(l.lstrip())]
            lines += [ind + x for x in stmt.split('\n')]
        else:
            lines.append(l)
    return '\n'.join(lines)


def check(rep, model, rule, option, label, source, expected_tree, version=(3, 12, 0)):
    """minify(source, <only `option` on>) evaluated; the module handed to the printer must be exactly expected_tree."""
    from ..absprint import same_tree
    from ..minrun import minify_tree
    where = model.func('python_minifier.minify').loc()
    kind, out, _obj = minify_tree(model, source, {option: True} if option else {}, version=version)
    key = '%s|%s' % (rule, label)
    if kind == 'raise':
        rep.violation(rule, where, label, 'minify(%s=True) raises %s on a valid module' % (option, out), key=key)
        return
    ok = same_tree(expected_tree, out)
    detail = ''
    if not ok:
        a, b = ast.unparse(expected_tree).split('\n'), ast.unparse(out).split('\n')
        for i in range(max(len(a), len(b))):
            x, y = (a[i] if i < len(a) else '<end>'), (b[i] if i < len(b) else '<end>')
            if x != y:
                detail = 'first difference at line %d of the result: expected %r, got %r' % (i + 1, x.strip(), y.strip())
                break
        else:
            detail = 'the trees differ in a field the standard printer does not show (%s)' % (ast.dump(out)[:120])
    rep.check(ok, rule, where, label, 'exactly the documented rewrite', 'with only %s on, the module handed to the printer differs from the documented rewrite: %s' % (option, detail), key=key)


def run(model, rep):
    off(model, rep)
    debug(model, rep)
    doc(model, rep)
    exc(model, rep)
    # ---- statement filters in every kind of statement list
    filters = [('RemovePass', 'remove_pass', 'pass', lambda st: isinstance(st, ast.Pass)),
               ('RemoveAsserts', 'remove_asserts', 'assert a, "message"', lambda st: isinstance(st, ast.Assert)),
               ('RemoveLiteralStatements', 'remove_literal_statements', '"a docstring or literal"',
                lambda st: isinstance(st, ast.Expr) and isinstance(st.value, ast.Constant) and st.value.value is not Ellipsis)]
    for name, qual, stmt, pred in filters:
        for variant, text in (('alone and among other statements', stmt), ('twice in a row', stmt + '\n' + stmt), ('next to a statement that stays', stmt + '\nkeep_me()\n' + stmt)):
            source = _indent_fill(BLOCK_PROBE, text)
            tree = ast.parse(source)
            check(rep, model, 'C05.SUITE', qual, '%s: `%s` %s in every kind of statement list' % (name, stmt, variant), source, ref_filter(tree, pred))
    # literal statements of other kinds
    lit_src = 'def f():\n    1\n    b"x"\n    None\n    True\n    ...\n    "s"\n    x\n    (1, 2)\n    f"{x}"\n    -1\n    return 2\nclass K:\n    """doc"""\n    3.5\n    1j\n'
    check(rep, model, 'C05.SUITE', filters[2][1], 'RemoveLiteralStatements: numbers, bytes, None/True, ..., tuples, f-strings, names', lit_src,
          ref_filter(ast.parse(lit_src), lambda st: isinstance(st, ast.Expr) and isinstance(st.value, ast.Constant) and st.value.value is not Ellipsis))
    rep.floor('C05.SUITE', 10)

    # ---- explicit return None
    qual = 'remove_explicit_return_none'
    ret_src = '''
def a(): return None
def b(): return
def c(): return 0
def d(): return False
def e(): return ''
def f(x): return x
def g(): return (None,)
def h(x):
    if x:
        return None
    return None
def i(x):
    x()
    return None
def j(x):
    return None
    x()
async def k(x):
    for y in x:
        return None
    else:
        return
def m(x):
    def inner():
        return None
    return inner
class K:
    def method(self):
        return None
lam = lambda: None
def n(x):
    while x:
        return None
    return
def o(a):
    if a:
        b()
        return
    else:
        return None
def p(a):
    with a:
        b()
        return
def q(t, k, cache):
    try:
        v = t[k]
        if v is None:
            return
    except KeyError:
        cache[k] = None
        return None
    else:
        cache[k] = v * 2
def r(t):
    try:
        return None
    finally:
        return
def s(a):
    for i in a:
        if i:
            return
    else:
        return None
'''
    check(rep, model, 'C05.RET', qual, 'return None / return / return <other> at the end, in the middle, nested', ret_src, ref_return_none(ast.parse(ret_src)))
    rep.floor('C05.RET', 1)

    # ---- object base
    qual = 'remove_object_base'
    obj_src = 'class A(object): pass\nclass B(object, Foo, builtins.object, metaclass=object): pass\n@object\nclass C(Foo, object):\n    class D(object):\n        x = object\n    def m(self, o=object): return object\nclass E: pass\nclass F(): pass\nclass G(Foo, *object, **object): pass\n'
    check(rep, model, 'C05.OBJ', qual, 'object as a base, next to other bases, as keyword value, decorator, default, starred; nested classes', obj_src, ref_object(ast.parse(obj_src)))
    for label_, shadow in (('assigned at module level', 'class Base: pass\nobject = Base\n'), ('imported', 'from legacy import base as object\n'), ('a class of that name', 'class object: pass\n'),
                           ('a parameter of the enclosing function', 'def make(object):\n    class Inner(object): pass\n    return Inner\n'), ('assigned in another function (global)', 'def patch():\n    global object\n    object = dict\n')):
        src_ = shadow + 'class A(object): pass\nclass B(A, object): pass\nprint(A.__mro__)\n'
        check(rep, model, 'C05.OBJ', qual, 'a module that binds the name object itself: ' + label_, src_, ref_object(ast.parse(src_)))
    rep.floor('C05.OBJ', 1)

    # ---- imports
    qual = 'combine_imports'
    cases = ['import a\nimport b', 'import b\nimport a', 'import a\nf()\nimport b', 'from m import a\nfrom m import b', 'from m import a\nfrom n import b', 'from m import a\nfrom .m import b',
             'from m import *\nfrom m import b', 'from m import a\nfrom m import *', 'from m import a\nimport x\nfrom m import b', 'import a\nfrom m import b\nimport c', 'from m import b\nfrom m import a\nf()',
             'import a as x\nimport b.c\nimport d as y', 'from . import a\nfrom . import b', 'from .. import a\nfrom . import b', 'def f():\n    import a\n    import b\n    from m import c\n    from m import d\n    return a\nclass K:\n    import e\n    import g\n',
             'if x:\n    import a\n    import b\nelse:\n    from m import c\n    from m import d\ntry:\n    import e\n    import g\nexcept ImportError:\n    import h\n    import i\n', 'import a\nimport b\nimport c\nimport d', 'from m import a as x\nfrom m import b as y']
    for src_ in cases:
        check(rep, model, 'C05.IMP', qual, '`%s`' % src_.replace('\n', '; '), src_ + '\n', ref_imports(ast.parse(src_ + '\n')))
    rep.floor('C05.IMP', 11)

    # ---- positional-only markers
    pos_src = 'def f(a, b, /, c=1, *d, e, **g): pass\ndef h(a, /): pass\ndef i(a=1, /, b=2): pass\nasync def j(a, /, *, k): pass\nl = lambda a, /, b: a\ndef m(a, b): pass\nclass K:\n    def n(self, x, /, y): pass\n    def o(self, key, /, **attributes): return key, attributes\n' \
              'def p(a, /, **kw): return a, kw\nq = lambda a, /, *r, **kw: (a, kw)\nasync def s(a, /, b, *, c, **kw): return kw\nprint(p(1, a=2), q(1, a=2))\n'
    check(rep, model, 'C05.POS', 'convert_posargs_to_args', 'positional-only markers in functions, async functions, lambdas, methods; defaults', pos_src, ref_posargs(ast.parse(pos_src)))
    rep.floor('C05.POS', 1)


def _run(rep, model, rule, option, label, source, version=(3, 12, 0)):
    """-> tree or None (violation recorded when minify raises)."""
    from ..minrun import minify_tree
    kind, out, _o = minify_tree(model, source, {option: True} if option else {}, version=version)
    if kind == 'raise':
        rep.violation(rule, model.func('python_minifier.minify').loc(), label, 'minify(%s=True) raises %s on a valid module' % (option, out), key='%s|%s' % (rule, label))
        return None
    return out


def _calls(tree):
    return [n.func.id for n in ast.walk(tree) if isinstance(n, ast.Call) and isinstance(n.func, ast.Name)]


# ---------------------------------------------------------------------- all options off / exactly one option on
WORK_PROBE = '''
"""module docstring"""
{S}
def f(a):
    {S}
    x = 1
class K:
    {S}
try:
    {S}
except E1:
    y = 2
    {S}
else:
    {S}
'''


def work_for_everyone():
    return _indent_fill(WORK_PROBE, 'pass\n"literal"\nassert a\nif __debug__:\n    dbg()\nimport p\nimport q\nraise ValueError()') + \
        '\nclass O(object):\n    attr: int = 1\n    def m(self, a, /, b: int = 2, *c, d, **e) -> None:\n        """doc"""\n        total = 1 + 2\n        return None\n' \
        'x = "repeated string" + "repeated string" + "repeated string"\nlong_name = lambda long_arg: long_arg\n'


def _ref_exc(tree):
    tree = copy.deepcopy(tree)
    for n in ast.walk(tree):
        if isinstance(n, ast.Raise) and isinstance(n.exc, ast.Call) and isinstance(n.exc.func, ast.Name) and n.exc.func.id == 'ValueError' and not n.exc.args and not n.exc.keywords:
            n.exc = n.exc.func
    return tree


def _is_literal(st):
    return isinstance(st, ast.Expr) and isinstance(st.value, ast.Constant) and st.value.value is not Ellipsis


ONE_OPTION = {
    'remove_pass': lambda t: ref_filter(t, lambda st: isinstance(st, ast.Pass)),
    'remove_asserts': lambda t: ref_filter(t, lambda st: isinstance(st, ast.Assert)),
    'remove_literal_statements': lambda t: ref_filter(t, _is_literal),
    'remove_debug': lambda t: ref_filter(t, lambda st: isinstance(st, ast.If) and isinstance(st.test, ast.Name) and st.test.id == '__debug__'),
    'combine_imports': lambda t: ref_imports(t),
    'remove_object_base': lambda t: ref_object(t),
    'convert_posargs_to_args': lambda t: ref_posargs(t),
    'remove_explicit_return_none': lambda t: ref_return_none(t),
    'remove_builtin_exception_brackets': _ref_exc,
    'remove_annotations': lambda t: ref_annotations(t, True, True, True, True),
}


def off(model, rep):
    """"If all transformation arguments are False, no transformations are made to the AST": the module handed to the printer is the parsed one;
    and with exactly one option on, a module that has work for every transform gets that option's rewrite and no other."""
    from ..minrun import option_names
    src_ = work_for_everyone()
    tree = ast.parse(src_)
    check(rep, model, 'C05.OFF', None, 'every option off on a module with something for every transform to do', src_, tree)
    rep.floor('C05.OFF', 1)
    names = option_names(model)
    for opt in sorted(ONE_OPTION):
        if opt not in names:
            raise AnalysisError('lost anchor: minify() has no option %r' % opt)
        check(rep, model, 'C05.ONLY', opt, 'only %s on, on a module with something for every transform to do' % opt, src_, ONE_OPTION[opt](tree))
    rep.floor('C05.ONLY', len(ONE_OPTION))


# ---------------------------------------------------------------------- __debug__
def debug(model, rep):
    """remove_debug on probe modules `if <test>: marker_a()`: the guarded block disappears exactly for the documented spellings of "__debug__ is
    true"; an else branch, a while loop, an elif arm and the code around it survive."""
    where = model.func('python_minifier.minify').loc()
    tests = {'__debug__': True, '__debug__ is True': True, '__debug__ is not False': True, '__debug__ == True': True,
             'x': False, 'x is True': False, 'x is not False': False, 'x == True': False, 'f() is True': False, '__debug__ is False': False, '__debug__ is not True': False,
             '__debug__ == False': False, '__debug__ is None': False, '__debug__ == 1': False, '__debug__ != True': False, 'not __debug__': False, 'x.__debug__': False,
             '__debug__ and x': False, '__debug__ is True is x': False, 'True': False, '__debug__ or x': False, '(__debug__)': True}
    contexts = {'function body': 'def f(x):\n    if {T}:\n        marker_a()\n    marker_b()\n',
                'module level': 'if {T}:\n    marker_a()\nmarker_b()\n',
                'inside try/for/else': 'def f(x):\n    try:\n        for i in x:\n            if {T}:\n                marker_a()\n            marker_b()\n        else:\n            if {T}:\n                marker_a()\n            marker_b()\n    finally:\n        marker_b()\n'}
    for label, want in sorted(tests.items()):
        for cname, tpl in sorted(contexts.items()):
            if cname != 'function body' and label not in ('__debug__', '__debug__ is True', 'x is True', '__debug__ is False', 'x'):
                continue
            out = _run(rep, model, 'C05.DEBUG', 'remove_debug', 'test|%s|%s' % (label, cname), tpl.replace('{T}', label))
            if out is None:
                continue
            names = _calls(out)
            removed = 'marker_a' not in names
            rep.check(removed == want and 'marker_b' in names, 'C05.DEBUG', where, 'if %s: in a %s -> %s' % (label, cname, 'removed' if removed else 'kept'), 'as documented',
                      '`if %s:` is %s%s; only tests of __debug__ being true may be removed (the interpreter\'s -O mode keeps every other block)' %
                      (label, 'removed' if removed else 'not removed', '' if 'marker_b' in names else ', and the statement after it is lost'), key='C05.DEBUG|test|%s|%s' % (label, cname))
    for label, source, must in (('while __debug__:', 'def f():\n    while __debug__:\n        marker_a()\n        break\n', ['marker_a']),
                                ('if __debug__: A else: B', 'def f():\n    if __debug__:\n        marker_a()\n    else:\n        marker_else()\n    marker_b()\n', ['marker_else', 'marker_b']),
                                ('if x: A elif __debug__: B else: C', 'def f(x):\n    if x:\n        marker_x()\n    elif __debug__:\n        marker_a()\n    else:\n        marker_else()\n', ['marker_x', 'marker_else']),
                                ('only statement of a function', 'def f():\n    if __debug__:\n        marker_a()\n', []),
                                ('x if __debug__ else y', 'v = marker_a() if __debug__ else marker_b()\n', ['marker_a', 'marker_b']),
                                ('class body', 'class K:\n    if __debug__:\n        marker_a()\n    attr = marker_b()\n', ['marker_b'])):
        out = _run(rep, model, 'C05.DEBUG', 'remove_debug', 'shape|' + label, source)
        if out is None:
            continue
        names = _calls(out)
        try:
            compile(out, 'probe', 'exec')
            compiles = True
        except Exception:
            compiles = False
        rep.check(all(m_ in names for m_ in must) and compiles, 'C05.DEBUG', where, '%s -> calls left: %s' % (label, names), 'what -O would still run survives, the result compiles',
                  'after remove_debug on `%s` the calls left are %s (expected at least %s)%s' % (label, names, must, '' if compiles else '; the result does not compile'), key='C05.DEBUG|shape|' + label)
    rep.floor('C05.DEBUG', 20)


# ---------------------------------------------------------------------- __doc__
def doc(model, rep):
    where = model.func('python_minifier.minify').loc()
    uses = ['print(__doc__)', 'x.__doc__', '__doc__ = __doc__ + "x"', '__doc__ += "x"', 'def f():\n    global __doc__\n    __doc__ += "x"', 'del __doc__',
            'def g():\n    return __doc__', 'class K:\n    d = __doc__', 'y = [__doc__ for _ in z]', 'f(x)  # control']
    for use in uses:
        label = use.replace('\n', '; ')
        source = '"""module docstring"""\n' + use + '\n'
        out = _run(rep, model, 'C05.DOC', 'remove_literal_statements', label, source)
        if out is None:
            continue
        kept = bool(out.body) and isinstance(out.body[0], ast.Expr) and isinstance(out.body[0].value, ast.Constant) and out.body[0].value.value == 'module docstring'
        want = 'control' not in use
        rep.check(kept == want, 'C05.DOC', where, 'module docstring + `%s` -> docstring %s' % (label, 'kept' if kept else 'removed'), 'as documented',
                  'the module docstring is %s although the module %s __doc__' % ('removed' if want else 'kept', 'uses' if want else 'does not use'), key='C05.DOC|' + label)
    # docstrings of functions and classes read through an attribute
    for label, source, marker in (('function docstring read as f.__doc__', 'def f():\n    """function docstring"""\n    return 1\nprint(f.__doc__)\n', 'function docstring'),
                                  ('class docstring read as K.__doc__', 'class K:\n    """class docstring"""\n    a = 1\nhelp_text = K.__doc__\n', 'class docstring')):
        out = _run(rep, model, 'C05.DOC', 'remove_literal_statements', label, source)
        if out is None:
            continue
        kept = any(isinstance(n, ast.Constant) and n.value == marker for n in ast.walk(out))
        rep.check(kept, 'C05.DOC', where, '%s -> %s' % (label, 'kept' if kept else 'removed'), 'kept', 'the %s is removed although the module reads it' % label.split(' read')[0], key='C05.DOC|' + label)
    rep.floor('C05.DOC', 8)


# ---------------------------------------------------------------------- exception brackets
EXC_CASES = [
    ('raise ValueError()', 'raise ValueError'),
    ('raise e from ValueError()', 'raise e from ValueError'),
    ('raise ValueError() from KeyError()', 'raise ValueError from KeyError'),
    ('def f():\n    raise NotImplementedError()', 'def f():\n    raise NotImplementedError'),
    ('try:\n    pass\nexcept Exception:\n    raise RuntimeError()', 'try:\n    pass\nexcept Exception:\n    raise RuntimeError'),
    ("raise ValueError('msg')", None), ('raise ValueError(x=1)', None), ('raise ValueError(*a)', None), ('raise ValueError(**k)', None),
    ('ValueError()', None), ('x = ValueError()', None), ('raise wrap(ValueError())', None), ('raise ValueError().with_traceback(tb)', None), ('raise ValueError', None),
    ('raise ValueError.mro()', None), ('raise (ValueError(), 1)[0]', None), ('raise ValueError()()', None), ('raise wrap(ValueError)', None), ('raise wrap(x=ValueError)', None),
    ('raise MyError()', None), ('raise print()', None), ('raise NotImplemented()', None), ('raise int()', None), ('raise errors.ValueError()', None),
    ('ValueError = make()\nraise ValueError()', None), ('def ValueError():\n    return 1\nraise ValueError()', None), ('class ValueError:\n    pass\nraise ValueError()', None),
    ('import errors as ValueError\nraise ValueError()', None), ('from errors import ValueError\nraise ValueError()', None), ('raise ValueError()\ndel ValueError', None),
    ('def g():\n    global ValueError\n    ValueError = 1\nraise ValueError()', None), ('for ValueError in x:\n    pass\nraise ValueError()', None),
    ('def f(ValueError):\n    raise ValueError()', None), ('def f():\n    ValueError = make()\n    raise ValueError()', None),
    ('ValueError = make()\nraise ValueError()\nraise KeyError()', 'ValueError = make()\nraise ValueError()\nraise KeyError'),
]


def exc(model, rep):
    import builtins
    where = model.func('python_minifier.minify').loc()
    for before, after in EXC_CASES:
        src_ = before + '\n'
        check(rep, model, 'C05.EXC', 'remove_builtin_exception_brackets', '`%s`' % before.replace('\n', '; '), src_, ast.parse((after if after is not None else before) + '\n'))
    # every builtin name: only classes of exceptions may lose their brackets
    names = [n for n in dir(builtins) if n.isidentifier() and n not in ('None', 'True', 'False', '__debug__')]
    is_exc = lambda n: isinstance(getattr(builtins, n), type) and issubclass(getattr(builtins, n), BaseException)

    def stripped_of(group):
        src_ = ''.join('def f_%d():\n    raise %s()\n' % (i, n) for i, n in enumerate(group))
        out = _run(rep, model, 'C05.EXC', 'remove_builtin_exception_brackets', 'builtin names %s..' % group[0], src_)
        if out is None:
            return None
        return [st.body[0].exc.id for st in out.body if isinstance(st.body[0], ast.Raise) and isinstance(st.body[0].exc, ast.Name)]
    excs = [n for n in names if is_exc(n)]
    got = stripped_of(excs)
    if got is not None:
        rep.check(len(got) >= 40, 'C05.EXC', where, 'builtin exceptions recognised: %d of %d' % (len(got), len(excs)), 'the documented rewrite happens for the builtin exceptions',
                  'only %d of the %d builtin exception classes lose their brackets' % (len(got), len(excs)), key='C05.EXC|coverage')
    bad = []
    others = [n for n in names if not is_exc(n)]
    for n in others:       # one module per name: some of these names (eval, exec, ...) switch the rewrite off for the whole module
        got = stripped_of([n, 'KeyError'])
        if got is not None and n in got:
            bad.append(n)
    rep.check(not bad, 'C05.EXC', where, '`raise N()` for each of the %d builtin names that are not exception classes' % len(others), 'none loses the brackets',
              'the brackets are removed for builtins that are not exception classes: %s (raise X and raise X() differ for them)' % bad, key='C05.EXC|whitelist')
    rep.floor('C05.EXC', 30)


# ---------------------------------------------------------------------- annotations
ANN_HEADS = [
    ('plain', 'class C_{i}:', False), ('dataclass', '@dataclass\nclass C_{i}:', True), ('dataclasses.dataclass', '@dataclasses.dataclass\nclass C_{i}:', True),
    ('dataclass()', '@dataclass(frozen=True)\nclass C_{i}:', True), ('dataclasses.dataclass()', '@dataclasses.dataclass()\nclass C_{i}:', True),
    ('other decorator then dataclass', '@total_ordering\n@dataclass\nclass C_{i}:', True), ('other decorator', '@total_ordering\nclass C_{i}:', False),
    ('NamedTuple', 'class C_{i}(NamedTuple):', True), ('typing.NamedTuple', 'class C_{i}(typing.NamedTuple):', True), ('TypedDict', 'class C_{i}(TypedDict):', True),
    ('second base TypedDict', 'class C_{i}(Base, typing.TypedDict, total=False):', True), ('other base', 'class C_{i}(Base):', False),
]
ANN_NESTS = ['{S}', 'if t:\n    {S}', 'for i in it:\n    {S}', 'while t:\n    {S}', 'with w:\n    {S}', 'try:\n    {S}\nfinally:\n    pass', 'if t:\n    pass\nelse:\n    {S}',
             'try:\n    pass\nexcept E:\n    {S}', 'match q:\n    case 1:\n        {S}']


def _ind(text, n):
    return '\n'.join(' ' * n + l for l in text.split('\n'))


def ann_probe():
    parts = []
    def body_of(nests):
        return '\n'.join(n.replace('{S}', 'a_%d: int = 1' % k) + '\n' + n.replace('{S}', 'b_%d: int' % k) for k, n in enumerate(nests))
    body = body_of(ANN_NESTS)
    for i, (_label, head, _p) in enumerate(ANN_HEADS):
        parts.append(head.replace('{i}', str(i)) + '\n' + _ind(body if i < 2 else body_of(ANN_NESTS[:2] + ANN_NESTS[5 + i % 4:6 + i % 4]), 4))
    parts.append('def f(p: A, q: "B" = 1, /, r: C = 2, *v: V, k: K = 3, **kw: KW) -> R:\n' + _ind(body, 4) + '\n    self.attr: int = 1\n    self.other: int\n    (paren): int = 2\n    return p')
    parts.append('async def g(p: A) -> "R":\n    z: int = 1\n    return z')
    parts.append(body)
    # scopes around or before the statement that must not change how it is treated
    parts.append('@dataclass\nclass AfterInner:\n    class Inner(Enum):\n        A = 1\n        in_inner: int = 1\n    after_inner: int = 1\n    after_inner_2: int')
    parts.append('class AfterMethod(NamedTuple):\n    def m(self, a: int) -> int:\n        class L:\n            in_local_class: int = 1\n        in_method: int = 1\n        return L\n    after_method: int = 1')
    parts.append('@dataclass\nclass Outer1:\n    class PlainInside:\n        plain_inside: int = 1\n        plain_inside_2: int\n    field_after: int = 2')
    parts.append('class Outer2:\n    @dataclass\n    class DataInside:\n        data_inside: int = 1\n    attr_after: int = 2')
    parts.append('@dataclass\nclass Outer3:\n    def meth(self, a: int = 1) -> None:\n        in_method_of_dataclass: int = 1\n    lam = lambda x: x\n    after_lambda: int = 3')
    parts.append('@dataclass\nclass ProtectedOuter:\n    class ProtectedInner(NamedTuple):\n        inner_field: int = 1\n        class ProtectedInnermost(TypedDict):\n            innermost_key: int\n    outer_field: int = 2\n    outer_other: int')
    parts.append('class PlainAfterProtected:\n    plain_after: int = 3\n    plain_after_2: int')
    parts.append('def outer_fn():\n    class InFunction:\n        attr_in_fn_class: int = 1\n    @dataclass\n    class DataInFunction:\n        field_in_fn: int = 1\n    local_after: int = 2')
    return '\n'.join(parts) + '\n'


def _protected(cls):
    for d in cls.decorator_list:
        f = d.func if isinstance(d, ast.Call) else d
        if (isinstance(f, ast.Name) and f.id == 'dataclass') or (isinstance(f, ast.Attribute) and f.attr == 'dataclass'):
            return True
    for b in cls.bases:
        if (isinstance(b, ast.Name) and b.id in ('NamedTuple', 'TypedDict')) or (isinstance(b, ast.Attribute) and b.attr in ('NamedTuple', 'TypedDict')):
            return True
    return False


def ref_annotations(tree, rv, rr, ra, rc):
    tree = copy.deepcopy(tree)

    def rec(node, scope):
        for field, value in ast.iter_fields(node):
            items = value if isinstance(value, list) else [value]
            new = []
            for it in items:
                if isinstance(it, ast.AnnAssign):
                    selected = (rc and not _protected(scope)) if isinstance(scope, ast.ClassDef) else rv
                    rec(it, scope)
                    if selected and it.value is not None:
                        it = ast.Assign(targets=[it.target], value=it.value, type_comment=None)
                    elif selected:
                        it.annotation = ast.Constant(value=0)
                    new.append(it)
                    continue
                if isinstance(it, (ast.FunctionDef, ast.AsyncFunctionDef)):
                    if rr:
                        it.returns = None
                    if ra:
                        a = it.args
                        for x in a.posonlyargs + a.args + a.kwonlyargs + [y for y in (a.vararg, a.kwarg) if y is not None]:
                            x.annotation = None
                if isinstance(it, ast.AST):
                    rec(it, it if isinstance(it, (ast.FunctionDef, ast.AsyncFunctionDef, ast.ClassDef, ast.Lambda)) else scope)
                new.append(it)
            if isinstance(value, list):
                setattr(node, field, new)
            elif new:
                setattr(node, field, new[0])
    rec(tree, tree)
    return ast.fix_missing_locations(tree)


def ann(model, rep):
    from ..minrun import annotation_options, minify_tree
    from ..absprint import same_tree
    where = model.func('python_minifier.minify').loc()
    source = ann_probe()
    tree = ast.parse(source)
    rep.count('annotation_probe_statements', sum(isinstance(n, ast.AnnAssign) for n in ast.walk(tree)))
    n_full = len(source)
    small = 'def f(p: A, q: "B" = 1, /, r: C = 2, *v: V, k: K = 3, **kw: KW) -> R:\n    x: int = 1\n    return p\nasync def g(p: A) -> "R":\n    return p\nclass K:\n    def m(self, a: int) -> None:\n        y: int\n    attr: int = 1\n'
    small_tree = ast.parse(small)
    combos = [(source, tree, rv, False, False, rc) for rv in (False, True) for rc in (False, True)] + [(small, small_tree, rv, rr, ra, False) for rv in (False, True) for rr in (False, True) for ra in (False, True)]
    for (source, tree, rv, rr, ra, rc) in combos:
        fields = dict(remove_variable_annotations=rv, remove_return_annotations=rr, remove_argument_annotations=ra, remove_class_attribute_annotations=rc)
        label = 'variable=%s return=%s argument=%s class_attribute=%s' % (rv, rr, ra, rc)
        kind, out, _o = minify_tree(model, source, {'remove_annotations': annotation_options(model, **fields)})
        if kind == 'raise':
            rep.violation('C05.ANN', where, label, 'minify raises %s' % out, key='C05.ANN|' + label)
            continue
        want = ref_annotations(tree, rv, rr, ra, rc)
        ok = same_tree(want, out)
        detail = ''
        if not ok:
            a, b = ast.unparse(want).split('\n'), ast.unparse(out).split('\n')
            # name the scope: nearest preceding class / def line
            for i in range(max(len(a), len(b))):
                x, y = (a[i] if i < len(a) else '<end>'), (b[i] if i < len(b) else '<end>')
                if x != y:
                    heads = [l.strip() for l in a[:i] if l.lstrip().startswith(('class ', 'def ', 'async def ', '@'))]
                    detail = 'in `%s`: expected `%s`, got `%s`' % (' / '.join(heads[-2:]), x.strip(), y.strip())
                    break
        rep.check(ok, 'C05.ANN', where, 'RemoveAnnotationsOptions(%s) on %s' % (label, '%d class kinds x nestings x value/no value, functions, module' % len(ANN_HEADS) if len(source) == n_full else 'functions with every kind of parameter'),
                  'kept / assignment / `x: 0` exactly as documented',
                  'with %s the result differs from the documented rewrite %s -- what happens to an annotation must depend only on the options and on the class/function/module it belongs to '
                  '(fields of dataclass / NamedTuple / TypedDict classes are never touched)' % (label, detail), key='C05.ANN|' + label)
    source, tree = ann_probe(), ast.parse(ann_probe())
    # the boolean forms
    for flag, fields in ((True, (True, True, True, True)), (False, (False, False, False, False))):
        kind, out, _o = minify_tree(model, source, {'remove_annotations': flag})
        ok = kind == 'ok' and same_tree(ref_annotations(tree, *fields), out)
        rep.check(ok, 'C05.ANN', where, 'remove_annotations=%s' % flag, 'all four kinds %s' % ('removed' if flag else 'kept'), 'remove_annotations=%s does not %s' % (flag, 'remove all four kinds of annotation (protected classes aside)' if flag else 'keep every annotation'),
                  key='C05.ANN|bool|%s' % flag)
    rep.floor('C05.ANN', 14)
