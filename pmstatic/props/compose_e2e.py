"""C01 end to end: the safe options together.

minify() is evaluated with every option at its documented default on probe modules that give every transform something to do, in four
configurations, and the module it hands to the printer (printed by the repository's printer where names are involved) is judged against a
reference built by the checker - the documented rewrites of the enabled options composed in pipeline order on CPython's tree:

  (i)   defaults without rename_locals / hoist_literals: exactly the reference tree (a folded constant is accepted where it has the type and
        value of the expression it replaces);
  (ii)  defaults without hoist_literals: alpha-equivalent to the reference (rename oracle: scopes from symtable, consistency, no capture,
        interface names untouched);
  (iii) defaults without rename_locals: putting the aliased constants back gives the reference (de-hoisting oracle);
  (iv)  all defaults: the printed module is accepted by the compiler and refers to nothing that is no longer bound.
The interaction of the transforms with each other, with the binder (nodes created or removed before binding) and with the renamer is what no
single-option rule sees.
"""
import ast
import copy

from ..model import AnalysisError
from . import transform_e2e as T

EXC = ('ValueError', 'TypeError', 'RuntimeError', 'NotImplementedError', 'KeyError', 'Exception')

PROBES = {
    'service module': '''
"""Module docstring."""
import os
import sys
from collections import OrderedDict
from collections import namedtuple
DEFAULT_TIMEOUT = 30
class Service(object):
    """A service."""
    registry: dict = {}
    name: str
    def __init__(self, service_name, timeout=DEFAULT_TIMEOUT, /, retries=3, *, verbose=False) -> None:
        self.service_name = service_name
        self.timeout = timeout
        self.retries = retries
        self.verbose = verbose
        pass
    def describe(self_d) -> str:
        description: str = 'service ' + self_d.service_name
        if self_d.verbose:
            description = description + ' (verbose)'
        return description
    def check(self_c, value):
        if value is None:
            raise ValueError()
        if not isinstance(value, int):
            raise TypeError('expected an int')
        return None
    def nothing(self_n):
        pass
def build(base_name, count):
    services = OrderedDict()
    for index in range(count):
        key = 'service ' + str(index)
        services[key] = Service(base_name + str(index), retries=index)
    total = len(services) + len(base_name) + len(key)
    return services, total
def summary(all_services):
    lines = [each.describe() for each in all_services.values() if each.describe()]
    longest = max((len(line) for line in lines), default=0)
    return os.linesep.join(lines), longest, sys.platform
''',
    'closures, generators, exceptions': '''
from os import path
from os import sep
def make_counter(start_value, step_value=1):
    current_value = start_value
    def advance(times=1, *, stride=step_value, origin=start_value):
        nonlocal current_value
        for unused_index in range(times):
            current_value = current_value + stride
        return current_value, origin
    def reset() -> None:
        nonlocal current_value
        current_value = start_value
        return None
    return advance, reset
def pairs(first_items, second_items):
    for left_item in first_items:
        for right_item in second_items:
            if left_item == right_item:
                continue
            yield left_item, right_item
def safe_div(numerator, denominator):
    try:
        return numerator / denominator
    except ZeroDivisionError as division_error:
        message = 'division failed: ' + str(division_error)
        raise RuntimeError() from division_error
    finally:
        pass
def cached_lookup(table, wanted_key, cache):
    try:
        found_entry = table[wanted_key]
        if found_entry is None:
            return
    except KeyError:
        cache[wanted_key] = None
        return None
    else:
        cache[wanted_key] = found_entry * 2
class Registry:
    entries = {}
    def register(self_r, entry_name: str, entry_value: object = None) -> None:
        self_r.entries[entry_name] = entry_value
        return
    def lookup(self_l, wanted_name, *, default_value='missing entry value'):
        found_value = self_l.entries.get(wanted_name, default_value)
        if found_value == 'missing entry value':
            raise KeyError()
        return found_value
A = 100
_A = 7
def accumulate(values):
    running_total = 0
    for each_value in values:
        running_total += each_value
        print('partial', running_total, running_total)
    return running_total + A + _A
constants = [2 + 3, 10 * 10, 1 << 8, 0xff & 0x0f, 16 * 1024, 16.0 * 1024, 1 | 1, True | True, 5 - 5, 5.0 - 5.0, 100 * 3, 100 * 3.0]
where = path.join('a', 'b') + sep
''',
}


def _ref_exc(tree):
    tree = copy.deepcopy(tree)
    bound = {n.id for n in ast.walk(tree) if isinstance(n, ast.Name) and not isinstance(n.ctx, ast.Load)} | {n.name for n in ast.walk(tree) if isinstance(n, (ast.FunctionDef, ast.ClassDef, ast.AsyncFunctionDef))}
    for n in ast.walk(tree):
        if isinstance(n, ast.Raise):
            for f in ('exc', 'cause'):
                c = getattr(n, f)
                if isinstance(c, ast.Call) and isinstance(c.func, ast.Name) and c.func.id in EXC and c.func.id not in bound and not c.args and not c.keywords:
                    setattr(n, f, c.func)
    return tree


def reference(tree):
    """The documented rewrites of the default options, composed in the order of the pipeline (no folding: see same_modulo_fold)."""
    t = T.ref_imports(tree)
    t = T.ref_annotations(t, True, True, True, True)       # remove_annotations=True as a boolean removes all four kinds
    t = T.ref_filter(t, lambda st: isinstance(st, ast.Pass))
    t = T.ref_object(t)
    t = T.ref_return_none(t)
    t = _ref_exc(t)
    t = T.ref_posargs(t)
    return ast.fix_missing_locations(t)


def _const_value(node):
    """Value of an expression made of numeric literals and operators only, or a marker."""
    if not all(isinstance(n, (ast.BinOp, ast.UnaryOp, ast.Constant, ast.operator, ast.unaryop, ast.expr_context)) for n in ast.walk(node)):
        return ('not-literal',)
    if any(isinstance(n, ast.Constant) and not isinstance(n.value, (int, float, complex)) for n in ast.walk(node)):
        return ('not-numeric',)
    try:
        v = eval(compile(ast.fix_missing_locations(ast.Expression(body=copy.deepcopy(node))), 'literal', 'eval'), {'__builtins__': {}}, {})
    except Exception as e:
        return ('raises', type(e).__name__)
    return (type(v).__name__, repr(v))


def unfold(ref, out):
    """`out` with every constant that stands where `ref` has literal arithmetic of the same type and value replaced by that arithmetic."""
    if isinstance(ref, ast.BinOp) and not isinstance(out, ast.BinOp) and isinstance(out, (ast.Constant, ast.UnaryOp)):
        a, b = _const_value(ref), _const_value(out)
        if a == b and a[0] not in ('not-literal', 'not-numeric', 'raises'):
            return copy.deepcopy(ref)
        return out
    if type(ref) is not type(out) or not isinstance(ref, ast.AST):
        return out
    for f in ref._fields:
        x, y = getattr(ref, f, None), getattr(out, f, None)
        if isinstance(x, list) and isinstance(y, list) and len(x) == len(y):
            setattr(out, f, [unfold(a, b) if isinstance(a, ast.AST) and isinstance(b, ast.AST) else b for a, b in zip(x, y)])
        elif isinstance(x, ast.AST) and isinstance(y, ast.AST):
            setattr(out, f, unfold(x, y))
    return out


def first_difference(a, b):
    x, y = ast.unparse(a).split('\n'), ast.unparse(b).split('\n')
    for i in range(max(len(x), len(y))):
        p, q = (x[i] if i < len(x) else '<end>'), (y[i] if i < len(y) else '<end>')
        if p != q:
            return 'line %d: expected `%s`, got `%s`' % (i + 1, p.strip(), q.strip())
    return 'a field the standard printer does not show'


def run(model, rep, rule='C01.ALL'):
    from ..absprint import print_obj, same_tree
    from ..minrun import minify_tree, option_names
    from . import hoist_e2e, rename_e2e, size_e2e
    mi = model.func('python_minifier.minify')
    names = option_names(model)
    defaults = {}
    for o in names:
        d = mi.defaults().get(o)
        defaults[o] = d.value if isinstance(d, ast.Constant) and isinstance(d.value, bool) else True
    sources = dict(PROBES)
    sources['work for every transform'] = T.work_for_everyone()
    for k, v in rename_e2e.IDIOM_PROBES.items():
        sources['idiom: ' + k] = v
    for k, v in size_e2e.ADVERSARIAL.items():
        sources['adversarial: ' + k] = v
    # the probe modules of the rename and hoisting pipelines (pattern matching, comprehensions, walrus, class bodies ...), here under the
    # default option set
    for k, v in rename_e2e.PROBES.items():
        sources['rename: ' + k] = v
    for k, v in hoist_e2e.PROBES.items():
        sources['hoist: ' + k] = v
    for k, v in rename_e2e.REUSE_PROBES.items():
        sources['name reuse: ' + k] = v

    def run_cfg(source, **over):
        opts = dict(defaults, **over)
        kind, tree, mod = minify_tree(model, source, opts)
        if kind != 'ok':
            return None, None, 'minify raises %s' % (tree,)
        return tree, mod, None

    def text_of(mod):
        kind, text = print_obj(model, mod)
        if kind == 'raise':
            return None, 'the printer raises %s' % (text,)
        if kind != 'ok':
            raise AnalysisError('UNDECIDED: printing a probe: %s %s' % (kind, text))
        return text, None
    for label, source in sorted(sources.items()):
        try:
            tree = ast.parse(source)
        except SyntaxError:
            rep.note('%s: this interpreter cannot parse the probe %r' % (rule, label))
            continue
        ref = reference(tree)
        ref_src = ast.unparse(ref)
        # (i) transforms only
        out, mod, err = run_cfg(source, rename_locals=False, hoist_literals=False)
        key = '%s|%s|transforms' % (rule, label)
        if err:
            rep.violation(rule, mi.loc(), 'probe `%s`, defaults without renaming and hoisting' % label, err, key=key)
            continue
        out1 = unfold(ref, copy.deepcopy(out))
        rep.check(same_tree(ref, out1), rule, mi.loc(), 'probe `%s`, defaults without renaming and hoisting' % label, 'exactly the documented rewrites composed (folded constants have the value and type of the arithmetic they replace)',
                  'the module handed to the printer differs from the composition of the documented rewrites: %s' % first_difference(ref, out1), key=key)
        # the reference the later configurations are judged against keeps the folds of (i), so that texts are comparable
        base_src = ast.unparse(ast.fix_missing_locations(out)) if same_tree(ref, out1) else ref_src
        # (ii) + renaming. Positional-only markers are removed after the renamer has run (a positional-only parameter may be renamed in the
        # signature, and still may once the marker is gone: no caller passes it by keyword), so the marker is kept in this configuration
        out_p, _m, err_p = run_cfg(source, rename_locals=False, hoist_literals=False, convert_posargs_to_args=False)
        judge_src = ast.unparse(ast.fix_missing_locations(out_p)) if err_p is None else base_src
        out, mod, err = run_cfg(source, hoist_literals=False, convert_posargs_to_args=False)
        key = '%s|%s|rename' % (rule, label)
        t2 = None
        if err is None:
            t2, err = text_of(mod)
        if err:
            rep.violation(rule, mi.loc(), 'probe `%s`, defaults without hoisting' % label, err, key=key)
        else:
            try:
                problems = rename_e2e.judge(judge_src, t2)
            except AnalysisError as e:
                if 'bound in two scopes' not in str(e):
                    raise
                problems = []      # the classic rename oracle needs one name per binding; the resolution oracle below does not
            if not problems:
                problems = rename_e2e.judge_resolution(judge_src, t2)
            rep.check(not problems, rule, mi.loc(), 'probe `%s`, defaults without hoisting' % label, 'alpha-equivalent to the transformed module',
                      '; '.join(problems[:3]) + ' -- output: %r' % t2[:160], key=key)
        # (iii) + hoisting
        out, mod, err = run_cfg(source, rename_locals=False)
        key = '%s|%s|hoist' % (rule, label)
        t3 = None
        if err is None:
            t3, err = text_of(mod)
        if err:
            rep.violation(rule, mi.loc(), 'probe `%s`, defaults without renaming' % label, err, key=key)
        else:
            problems, _aliases = hoist_e2e.dehoist(base_src, t3)
            rep.check(not problems, rule, mi.loc(), 'probe `%s`, defaults without renaming' % label, 'putting the aliased constants back gives the transformed module',
                      '; '.join(problems[:3]) + ' -- output: %r' % t3[:160], key=key)
        # (iv) everything
        out, mod, err = run_cfg(source)
        key = '%s|%s|all' % (rule, label)
        t4 = None
        if err is None:
            t4, err = text_of(mod)
        if err:
            rep.violation(rule, mi.loc(), 'probe `%s`, all defaults' % label, err, key=key)
            continue
        problems = []
        lost = rename_e2e.new_free_names(source, t4)
        if lost:
            problems.append('the output refers to %s, which nothing binds any more (the original binds it)' % lost)
        try:
            compile(t4, 'minified probe', 'exec', dont_inherit=True)
        except SyntaxError as e:
            problems.append('the output is rejected by the compiler: %s' % e)
        # (size is C17's property and judged there - C17.E2E runs the same probes with every size option on and off)
        rep.check(not problems, rule, mi.loc(), 'probe `%s`, all defaults -> %d characters' % (label, len(t4)), 'compiles; refers to nothing that is no longer bound',
                  '; '.join(problems[:3]) + ' -- output: %r' % t4[:160], key=key)
    rep.floor(rule, 20)
