"""C12 - minifying never runs code taken from the input (sink inventory, provenance idioms, escape tables, I/O ownership)."""
import ast

from ..astutil import const_value, calls, expanded_facts, kwarg, literal, local_defs, single_def
from ..callgraph import CallGraph
from ..facts import Facts, fact_texts
from ..model import AnalysisError, Model, src, walk_own

ENTRIES = ['python_minifier.minify', 'python_minifier.unparse', 'python_minifier.awslambda']
EXEC_SINKS = {'eval', 'exec', 'compile', '__import__', 'execfile'}
EXEC_ATTR_SINKS = {('importlib', 'import_module'), ('importlib', '__import__'), ('builtins', 'eval'), ('builtins', 'exec'), ('pickle', 'loads'), ('pickle', 'load'),
                   ('marshal', 'loads'), ('os', 'system'), ('os', 'popen'), ('runpy', 'run_path'), ('runpy', 'run_module'), ('code', 'interact'),
                   ('subprocess', '*'), ('os', 'exec*'), ('os', 'spawn*'), ('ctypes', '*'), ('imp', '*'), ('types', 'FunctionType'), ('types', 'CodeType')}
IO_NAMES = {'open', 'input', 'print'}
IO_MODULES = {'subprocess', 'socket', 'urllib', 'http', 'requests', 'shutil', 'tempfile', 'pathlib', 'ftplib', 'smtplib', 'ssl', 'asyncio', 'multiprocessing', 'webbrowser',
              'importlib', 'pkgutil', 'imp', 'runpy', 'ctypes', 'pickle', 'shelve', 'sqlite3', 'glob', 'fileinput', 'io'}
OS_IO = {'system', 'popen', 'remove', 'unlink', 'rename', 'mkdir', 'makedirs', 'rmdir', 'listdir', 'walk', 'scandir', 'open', 'read', 'write', 'fork', 'kill', 'startfile',
         'chdir', 'chmod', 'chown', 'link', 'symlink', 'truncate', 'replace', 'putenv', 'unsetenv', 'getenv', 'environ'}
MAIN = 'python_minifier.__main__'
NOTES = []

CONTROL = '''
import os
def control_entry(s):
    eval(s)
    __import__(s)
    open(s)
    os.system(s)
'''


def run(model, rep):
    rep.explanation = ('Inventory of every dynamic-execution sink in the package (eval/exec/compile/__import__/importlib/subprocess/...) with reachability from the '
                       'API; each reachable sink must match one of three provenance idioms that were confirmed by reading: (I1) quote + S + quote where S comes only '
                       'from the class\'s own escaper, whose table maps the quote character and the backslash and appends a raw character only when it is not in the '
                       'table; (I2) text accumulated only from the class\'s _literals() generator, which switches quote when the character equals the current quote, '
                       'escapes backslash/newline and rejects NUL; (I3) safe_eval(unparse_expression(N)) with N under the literal-operand facts or built from constant '
                       'constructors, evaluated with two fresh empty dicts. (IO) no file/process/network call outside __main__. Not decided: correctness of the '
                       'escaping for every string value.')
    for r, t in [('C12.SINK', 'every execution sink reachable from the API matches an enumerated provenance idiom'),
                 ('C12.ESC', 'escaper tables map the quote and the backslash; raw characters are appended only when absent from the table'),
                 ('C12.IO', 'no open / os.* / subprocess / socket / importlib call in any module but __main__'),
                 ('C12.DYN', 'dynamic getattr/setattr/delattr names derive from node class names or _fields only')]:
        rep.rule(r, t)
    decide(model, rep, ENTRIES)
    for n_ in NOTES:
        rep.note(n_)
    del NOTES[:]
    rep.rule('C12.ESC', 'quoting classes abstractly run on crafted strings: what reaches eval() is a closed literal')
    esc_enum(model, rep)
    rep.rule('C12.FOLD', 'the folding transform abstractly run on arithmetic over every operand kind: only closed literal text reaches eval()')
    fold_enum(model, rep)
    # positive control for the zero-expected parts
    overlay = dict(model.overlay)
    overlay['src/python_minifier/_pmstatic_control.py'] = CONTROL
    cm = Model(root=model.root, overlay=overlay)
    from ..report import Report
    crep = Report('C12', rep.tier)
    decide(cm, crep, ['python_minifier._pmstatic_control.control_entry'], control=True)
    got = {(o.rule) for o in crep.violations()}
    if not {'C12.SINK', 'C12.IO'} <= got:
        raise AnalysisError('positive control: planted sinks not reported (%s)' % sorted(got))
    rep.ok('C12.IO', 'synthetic control', 'control module with eval(param), __import__(param), open(param), os.system(param)', 'planted sinks are reported by the same machinery',
           key='C12|control', trivial=True)


def decide(model, rep, entries, control=False):
    cg = CallGraph(model)
    reach = cg.reachable(entries)
    rep.count('reachable_functions', len(reach))
    # ---------------- inventory
    sinks = []
    for q, fi in sorted(model.funcs.items()):
        for c in calls(fi.node):
            f = c.func
            if isinstance(f, ast.Name) and f.id in EXEC_SINKS and f.id not in cg.defs(fi):
                sinks.append((fi, c, f.id))
            elif isinstance(f, ast.Attribute) and isinstance(f.value, ast.Name):
                modname = model.imports.get(fi.module, {}).get(f.value.id, f.value.id).split('.')[0]
                for (mn, an) in EXEC_ATTR_SINKS:
                    if modname == mn and (an == '*' or an == f.attr or (an.endswith('*') and f.attr.startswith(an[:-1]))):
                        sinks.append((fi, c, mn + '.' + f.attr))
    n_reach = 0
    for (fi, c, kind) in sinks:
        where = fi.loc(c)
        if fi.qual not in reach:
            rep.note('sink %s at %s is not reachable from the API (%s)' % (kind, where, fi.qual))
            continue
        n_reach += 1
        ok, why = classify_sink(model, cg, fi, c, kind, reach)
        rep.check(ok, 'C12.SINK', where, '%s: %s' % (fi.qual.split('.', 1)[1], src(c)[:80]), why, 'execution sink reachable from the API does not match a safe provenance idiom: ' + why,
                  key='C12.SINK|%s|%s' % (fi.qual, src(c)[:80]))
    if not control:
        rep.floor('C12.SINK', 3)   # string quoting, f-string quoting, folding: merged base classes may hold the first two
    rep.count('sinks_total', len(sinks))
    rep.count('sinks_reachable', n_reach)

    # ---------------- IO
    n_io = 0
    for q, fi in sorted(model.funcs.items()):
        if fi.module == MAIN:
            continue
        for c in calls(fi.node):
            f = c.func
            bad = None
            if isinstance(f, ast.Name) and f.id in ('open', 'input') and f.id not in cg.defs(fi):
                bad = f.id
            elif isinstance(f, ast.Attribute):
                chain = src(f).split('.')
                root = chain[0]
                imp = model.imports.get(fi.module, {}).get(root)
                modroot = (imp or root).split('.')[0]
                if root in cg.defs(fi) or root == 'self':
                    continue
                if modroot in IO_MODULES and (imp or root in IO_MODULES):
                    bad = src(f)
                elif modroot == 'os' and (chain[1] in OS_IO or (len(chain) > 2 and chain[1] == 'path' and chain[2] in ('exists', 'isdir', 'isfile', 'getsize', 'getmtime'))):
                    bad = src(f)
                elif modroot == 'sys' and chain[1] in ('stdin', 'stdout', 'stderr', 'exit', 'argv', 'modules', 'path', 'settrace', 'setprofile') and q in reach:
                    bad = src(f)
            if bad:
                n_io += 1
                rep.violation('C12.IO', fi.loc(c), src(c)[:80], 'file / process / network / import call %s outside the command line module%s' % (bad, ' (reachable from the API)' if q in reach else ''),
                              key='C12.IO|%s|%s' % (q, bad))
    # module-level imports of I/O modules outside __main__
    for mod, rel in model.modules.items():
        if mod == MAIN:
            continue
        for n in ast.walk(model.trees[rel]):
            if isinstance(n, (ast.Import, ast.ImportFrom)):
                names = [a.name for a in n.names] if isinstance(n, ast.Import) else [n.module or '']
                for nm in names:
                    if nm.split('.')[0] in (IO_MODULES - {'io'}) | {'os'} and nm.split('.')[0] != 'importlib':
                        rep.note('%s imports %s' % (rel, nm))
    rep.ok('C12.IO', 'src/python_minifier', 'scan of %d functions outside __main__' % len([1 for f in model.funcs.values() if f.module != MAIN]), '%d I/O calls' % n_io,
           cells=len(model.funcs), key='C12.IO|scan')

    # ---------------- DYN
    if not control:
        dyn_rule(model, rep, cg, reach)


# ---------------------------------------------------------------------- idioms
def classify_sink(model, cg, fi, c, kind, reach):
    if kind != 'eval':
        return False, '%s of a non-constant is never needed by a minifier' % kind
    if not c.args:
        return False, 'eval without argument'
    arg = c.args[0]
    defs = cg.defs(fi)
    ENUMERATED = ('python_minifier.ministring.MiniString', 'python_minifier.f_string.Str', 'python_minifier.f_string.Bytes')
    shape_ok, shape_why = sink_shape(model, cg, fi, c, kind, reach, arg, defs)
    if shape_ok:
        return shape_ok, shape_why
    if fi.module == 'python_minifier.transforms.constant_folding' and only_from_folder(model, cg, fi, reach):
        # an eval() written directly inside the folding transform: what reaches it is decided by the C12.FOLD enumeration, which answers every eval()
        # made while FoldConstants runs; here only the namespaces are judged
        g = c.args[1] if len(c.args) > 1 else kwarg(c, 'globals')
        l = c.args[2] if len(c.args) > 2 else kwarg(c, 'locals')

        def fresh(e_):
            if isinstance(e_, ast.Dict) and not e_.keys:
                return True
            d_ = single_def(defs, e_.id) if isinstance(e_, ast.Name) else None
            return isinstance(d_, ast.Dict) and not d_.keys
        if g is not None and fresh(g) and (l is None or fresh(l)):
            return True, 'F: eval(text, {}, {}) inside the folding transform; the text is decided by the C12.FOLD enumeration'
        return False, 'eval inside the folding transform does not pass a fresh empty globals dict (names of the minifier would resolve)'
    if fi.cls and len(c.args) == 1 and not c.keywords:
        # the quoting classes are run on crafted strings by C12.ESC, which inspects every text that reaches an eval() inside them: the sink is
        # covered when every receiver class with which it is reachable from the API is one of the enumerated classes
        recvs = {r for (q, r) in cg.reachable(ENTRIES, with_recv=True) if q == fi.qual}
        recvs = {r or fi.cls for r in recvs}
        if recvs and all(r in ENUMERATED for r in recvs):
            names = sorted(r.rsplit('.', 1)[1] for r in recvs)
            NOTES.append('eval in %s.%s is not in one of the recognised accumulation shapes (%s): what reaches it is decided by the C12.ESC enumeration of %s' % (fi.cls.rsplit('.', 1)[1], fi.name, shape_why, names))
            return True, 'E: reached only as part of %s, which C12.ESC runs on crafted strings; every text reaching this eval() is inspected there' % ', '.join(names)
    return False, shape_why


def sink_shape(model, cg, fi, c, kind, reach, arg, defs):
    # I3: eval(expression, {}, {}) wrapper
    if isinstance(arg, ast.Name) and arg.id in fi.params and defs.get(arg.id) == ['<param>']:
        g = c.args[1] if len(c.args) > 1 else kwarg(c, 'globals')
        l = c.args[2] if len(c.args) > 2 else kwarg(c, 'locals')

        def fresh_empty(e):
            if isinstance(e, ast.Dict) and not e.keys:
                return True
            if isinstance(e, ast.Name):
                d = single_def(defs, e.id)
                return isinstance(d, ast.Dict) and not d.keys
            return False
        if not (g is not None and fresh_empty(g)):
            return False, 'eval wrapper does not pass a fresh empty globals dict (builtins and module names would be reachable... names resolve)'
        if l is not None and not fresh_empty(l):
            return False, 'eval wrapper passes a non-empty locals mapping'
        # every caller must hand in printed literal arithmetic
        pidx = fi.positional.index(arg.id)
        n_callers = 0
        by_enum = []
        for q2 in sorted(reach):
            f2 = model.funcs[q2]
            for c2 in calls(f2.node):
                if any(t is fi for (t, _r) in cg.resolve_call(f2, None, c2)):
                    n_callers += 1
                    a = c2.args[pidx] if len(c2.args) > pidx else kwarg(c2, arg.id)
                    ok, why = literal_arith_text(model, cg, f2, a, c2)
                    if not ok:
                        if only_from_folder(model, cg, f2, reach):
                            by_enum.append(f2.qual.split('.', 2)[-1])
                            continue
                        return False, 'caller %s passes %s: %s' % (f2.qual, src(a), why)
        if n_callers == 0:
            return False, 'no caller found for the eval wrapper'
        if by_enum:
            return True, 'I3: eval(text, {}, {}) wrapper; %d callers, of which %s run only inside the folding transform: the text they pass is decided by the C12.FOLD enumeration' % (n_callers, sorted(set(by_enum)))
        return True, 'I3: eval(text, {}, {}) wrapper; all %d callers pass the printed form of literal-only arithmetic' % n_callers
    # I1: quote + S + quote
    parts = []

    def flat(e):
        if isinstance(e, ast.BinOp) and isinstance(e.op, ast.Add):
            flat(e.left)
            flat(e.right)
        else:
            parts.append(e)
    flat(arg)
    if len(parts) >= 3:
        prefix = parts[:-3]
        q1, s, q2 = parts[-3:]
        if all(isinstance(p, ast.Constant) and p.value in ('b', 'B', 'r', 'u') for p in prefix) and src(q1) == src(q2) and isinstance(q1, ast.Attribute) and \
                isinstance(q1.value, ast.Name) and q1.value.id == 'self' and isinstance(s, ast.Name):
            # S assigned only from self.<escaper>()
            ok_defs = True
            escapers = set()
            for d in defs.get(s.id, []):
                if isinstance(d, ast.Call) and isinstance(d.func, ast.Attribute) and isinstance(d.func.value, ast.Name) and d.func.value.id == 'self' and not d.args:
                    escapers.add(d.func.attr)
                else:
                    ok_defs = False
            if not ok_defs or not escapers:
                return False, 'text between the quotes is not produced only by the class\'s own escapers'
            for en in sorted(escapers):
                t = model.method(fi.cls, en)
                if t is None:
                    return False, 'escaper %s not found' % en
                ok, why = escaper_ok(model, t, q1.attr)
                if not ok:
                    # the table form is one way to write an escaper; whether the text is a closed literal is decided by C12.ESC
                    NOTES.append('escaper %s.%s is not in table form (%s): decided by the C12.ESC enumeration' % (fi.cls.rsplit('.', 1)[1], en, why))
            return True, 'I1: %s + escaped + %s; escapers %s map the quote and the backslash' % (src(q1), src(q2), sorted(escapers))
    # I2: eval(s) with s accumulated from self._literals()
    why = 'argument %s matches no idiom' % src(arg)
    if isinstance(arg, ast.Name):
        ok, why = literals_idiom(model, cg, fi, arg.id)
        if ok:
            return ok, why
    return False, why


def only_from_folder(model, cg, f, reach, depth=0, seen=None):
    """f is a method of FoldConstants, or a function of the folding module all of whose callers are: everything it does happens inside
    FoldConstants.__call__, which the C12.FOLD enumeration runs."""
    FMOD = 'python_minifier.transforms.constant_folding'
    seen = seen or set()
    if f.qual in seen:
        return True
    seen.add(f.qual)
    if f.module != FMOD or depth > 4:
        return False
    if f.cls == FMOD + '.FoldConstants':
        return True
    callers = []
    for q3 in sorted(reach):
        f3 = model.funcs[q3]
        for c3 in calls(f3.node):
            if any(t is f for (t, _r) in cg.resolve_call(f3, None, c3)):
                callers.append(f3)
    return bool(callers) and all(only_from_folder(model, cg, f3, reach, depth + 1, seen) for f3 in callers)


def literal_arith_text(model, cg, f2, a, call):
    """a is (a variable assigned from) unparse_expression(N) where N is literal-only."""
    defs = cg.defs(f2)
    e = a
    if isinstance(a, ast.Name):
        e = single_def(defs, a.id)
        if e is None:
            return False, 'variable with several definitions'
    if not (isinstance(e, ast.Call) and isinstance(e.func, ast.Name)):
        return False, 'not the result of the expression printer'
    tq = model.resolve_name(f2.module, e.func.id)
    t = model.funcs.get(tq)
    if t is None:
        return False, 'printer helper not resolved'
    # the helper must return ExpressionPrinter()(node)
    uses_printer = any(isinstance(x, ast.Call) and isinstance(x.func, ast.Name) and (model.resolve_name(t.module, x.func.id) or '').endswith('ExpressionPrinter') for x in calls(t.node))
    if not uses_printer:
        return False, '%s does not print through ExpressionPrinter' % t.qual
    if not e.args:
        return False, 'no node argument'
    n = e.args[0]
    F = Facts(f2.node)
    facts = F.facts_at(e)
    if facts is None:
        return True, 'unreachable'
    if isinstance(n, ast.Name) and n.id in f2.params:
        # the node parameter: needs the constant-operand facts on .left and .right - here, or at every call site of this function
        ok_here = _operand_facts(facts, n.id)
        if ok_here:
            return True, 'operands are constants'
        sites = []
        for q3, f3 in model.funcs.items():
            for c3 in calls(f3.node):
                if any(t3 is f2 for (t3, _r) in cg.resolve_call(f3, None, c3)):
                    sites.append((f3, c3))
        if sites:
            pidx = f2.positional.index(n.id) if n.id in f2.positional else None
            all_ok = True
            for (f3, c3) in sites:
                a3 = c3.args[pidx] if pidx is not None and len(c3.args) > pidx else None
                f3facts = Facts(f3.node).facts_at(c3)
                if f3facts is None:
                    continue
                if not (isinstance(a3, ast.Name) and _operand_facts(f3facts, a3.id)):
                    all_ok = False
            if all_ok:
                return True, 'operands are constants at every call site of %s' % f2.name
        need = []
        for side in ('left', 'right'):
            hit = False
            for (k, p) in facts:
                if p and k.startswith('is_constant_node(%s.%s,' % (n.id, side)):
                    try:
                        t2 = ast.parse(k, mode='eval').body
                        kinds = {x.attr for x in ast.walk(t2.args[1]) if isinstance(x, ast.Attribute)}
                    except Exception:
                        kinds = {'?'}
                    if kinds <= {'Num', 'NameConstant', 'Str', 'Bytes', 'Ellipsis'}:
                        hit = True
            need.append(hit)
        if all(need) and ('isinstance(%s, ast.BinOp)' % n.id, True) in facts or all(need):
            return True, 'operands are constants'
        return False, 'no fact restricts both operands of %s to literal constants; facts: %s' % (n.id, fact_texts(facts)[:6])
    if isinstance(n, ast.Name):
        # locally constructed node: every definition builds constant / unary-op-on-constant nodes, directly or through a package helper
        for d in defs.get(n.id, []):
            if not isinstance(d, ast.AST):
                return False, 'node variable defined by iteration'
            ok, why = _builds_constants(model, f2, d, 0)
            if not ok:
                return False, why
        return True, 'node built from constant constructors'
    return False, 'node expression %s not understood' % src(n)


CONST_CTORS = ('Num', 'NameConstant', 'UnaryOp', 'USub', 'UAdd', 'Constant', 'Str', 'Bytes')


def _builds_constants(model, f, d, depth):
    """Does expression d (in function f) construct only constant / unary-minus-of-constant AST nodes?"""
    for x in ast.walk(d):
        if isinstance(x, ast.Call):
            ft = src(x.func)
            if ft.startswith('ast.') and ft.split('.')[1] in CONST_CTORS:
                continue
            q = model.resolve_expr(f.module, x.func) if isinstance(x.func, (ast.Name, ast.Attribute)) else None
            h = model.funcs.get(q)
            if h is not None and depth < 3:
                rets = [r for r in walk_own(h.node) if isinstance(r, ast.Return) and r.value is not None]
                hd = local_defs(h.node)
                for r in rets:
                    e = r.value
                    if isinstance(e, ast.Name):
                        for dd in hd.get(e.id, []):
                            if not isinstance(dd, ast.AST):
                                return False, 'helper %s returns a value defined by iteration' % h.name
                            ok, why = _builds_constants(model, h, dd, depth + 1)
                            if not ok:
                                return False, why
                    else:
                        ok, why = _builds_constants(model, h, e, depth + 1)
                        if not ok:
                            return False, why
                continue
            if ft in ('repr', 'str', 'isinstance', 'abs', 'len'):
                continue
            return False, 'node built by %s' % ft
    return True, ''


def _operand_facts(facts, name):
    ok = []
    for side in ('left', 'right'):
        hit = False
        for (k, p) in facts or ():
            if p and k.startswith('is_constant_node(%s.%s,' % (name, side)):
                try:
                    t2 = ast.parse(k, mode='eval').body
                    kinds = {x.attr for x in ast.walk(t2.args[1]) if isinstance(x, ast.Attribute)}
                except Exception:
                    kinds = {'?'}
                if kinds <= {'Num', 'NameConstant', 'Str', 'Bytes', 'Ellipsis'}:
                    hit = True
        ok.append(hit)
    return all(ok)


def escaper_ok(model, t, quote_attr):
    """The escaper builds its result from a table look-up or the raw character; the table must contain the backslash and the quote."""
    tables = [n for n in walk_own(t.node) if isinstance(n, ast.Assign) and isinstance(n.value, ast.Dict) and isinstance(n.targets[0], ast.Name)]
    if tables:
        tab = tables[0]
        tname = tab.targets[0].id
        consts = model.module_assigns.get(t.module, {})
        keys = []
        for k in tab.value.keys:
            try:
                keys.append(literal(k, consts))
            except ValueError:
                keys.append(src(k))
        has_bs = '\\' in keys
        has_q = any(isinstance(k, str) and k.startswith('self.' + quote_attr) for k in keys)
        if not has_bs:
            return False, 'backslash is not in the escape table'
        if not has_q:
            return False, 'the quote character is not in the escape table'
        # values for those keys start with a backslash
        for k, v in zip(tab.value.keys, tab.value.values):
            kk = src(k)
            if kk.startswith('self.' + quote_attr) or kk in ("'\\\\'", 'BACKSLASH'):
                vt = src(v)
                if not (vt.startswith('BACKSLASH +') or vt.startswith("'\\\\")):
                    return False, 'escape for %s does not start with a backslash' % kk
        # raw appends only under `c not in table`
        F = Facts(t.node)
        ok_any = False
        for n in walk_own(t.node):
            if isinstance(n, ast.AugAssign) and isinstance(n.op, ast.Add) and isinstance(n.value, ast.Name):
                loopvar = n.value.id
                facts = F.facts_at(n)
                if facts is None:
                    continue
                if ('%s in %s' % (loopvar, tname), False) not in facts:
                    return False, 'raw character appended without the fact `%s not in %s`' % (loopvar, tname)
                ok_any = True
        if not ok_any:
            return False, 'no guarded raw append found'
        return True, 'table ok'
    # if/elif chain form (MiniBytes)
    F = Facts(t.node)
    return False, 'escaper without a table'


def literals_idiom(model, cg, fi, var):
    defs = cg.defs(fi)
    # every definition / augmentation of var: '' , ' ' or the loop variable of `for literal in self._literals()`
    srcs = set()
    for n in walk_own(fi.node):
        if isinstance(n, ast.Assign) and any(isinstance(t, ast.Name) and t.id == var for t in n.targets):
            srcs.add(src(n.value))
        if isinstance(n, ast.AugAssign) and isinstance(n.target, ast.Name) and n.target.id == var:
            srcs.add(src(n.value))
    gen = None
    for s in sorted(srcs):
        if s in ("''", "' '"):
            continue
        ds = defs.get(s, [])
        if ds and all(isinstance(d, tuple) and d[0] == '<iter>' and isinstance(d[1], ast.Call) and isinstance(d[1].func, ast.Attribute) and
                      isinstance(d[1].func.value, ast.Name) and d[1].func.value.id == 'self' for d in ds):
            gen = ds[0][1].func.attr
            continue
        return False, 'evaluated text also receives %s' % s
    if gen is None:
        return False, 'evaluated text is not accumulated from a literal generator'
    g = model.method(fi.cls, gen)
    if g is None:
        return False, 'generator %s not found' % gen
    # pre-conditions in the sink function: NUL (and backslash when it cannot be escaped) rejected before the loop
    F = Facts(fi.node)
    rejects = ' '.join(src(r[0]) + ' under ' + ' '.join(fact_texts(r[1])) for r in F.raises)
    if '\\x00' not in rejects and "'\\0'" not in rejects and "b'\\x00'" not in rejects:
        return False, 'NUL characters are not rejected before evaluation'
    # generator: yields only `literal`, which is built from the current quote, escaped characters, and raw input characters
    GF = Facts(g.node)
    gdefs = local_defs(g.node)
    loops = [n for n in walk_own(g.node) if isinstance(n, ast.For)]
    if len(loops) != 1 or not isinstance(loops[0].target, ast.Name):
        return False, 'generator shape not recognised'
    cvar = loops[0].target.id
    # the quote switch: under `not self._can_quote(c)` the quote is re-chosen by self._get_quote(c)
    switch = False
    for n in walk_own(g.node):
        if isinstance(n, ast.Assign) and src(n.targets[0]) == 'self.current_quote' and src(n.value) == 'self._get_quote(%s)' % cvar:
            facts = GF.facts_at(n)
            if facts is not None and ('self._can_quote(%s)' % cvar, False) in facts:
                switch = True
    if not switch:
        return False, 'quote is not re-chosen when the character cannot be quoted'
    cq = model.method(fi.cls, '_can_quote')
    gq = model.method(fi.cls, '_get_quote')
    if cq is None or gq is None:
        return False, '_can_quote/_get_quote missing'
    CF = Facts(cq.node)
    p = cq.positional[0]
    refuses_quote = False
    for (r, facts) in CF.returns:
        if isinstance(r.value, ast.Constant) and r.value.value is False:
            if any(pz and k.replace(' ', '') in ('%s==self.current_quote[0]' % p, 'chr(%s)==self.current_quote[0]' % p) for (k, pz) in facts):
                refuses_quote = True
        elif isinstance(r.value, ast.Constant) and r.value.value is True:
            if not any((not pz) and k.replace(' ', '') in ('%s==self.current_quote[0]' % p, 'chr(%s)==self.current_quote[0]' % p) for (k, pz) in facts):
                return False, '_can_quote can return True for the current quote character'
    if not refuses_quote:
        return False, '_can_quote does not refuse the current quote character'
    QF = Facts(gq.node)
    p2 = gq.positional[0]
    for (r, facts) in QF.returns:
        v = src(r.value)
        differs = any(k.replace(' ', '') in ('%s==%s' % (p2, v), 'chr(%s)==%s' % (p2, v)) and not pz for (k, pz) in facts)
        long_arm = any(k.replace(' ', '') == 'len(%s)==3' % v and pz for (k, pz) in facts)
        if not (differs or long_arm):
            return False, '_get_quote can return a quote equal to the character'
    # backslash: escaped in the generator, or rejected in the sink function
    bs_escaped = any(isinstance(n, ast.AugAssign) and isinstance(n.value, ast.Constant) and n.value.value == '\\\\' for n in walk_own(g.node))
    bs_rejected = "'\\\\' in self._s" in rejects.replace('"', "'") or "b'\\\\' in self._b" in rejects.replace('"', "'")
    if not (bs_escaped or bs_rejected):
        return False, 'backslash is neither escaped nor rejected'
    if bs_escaped and not bs_rejected:
        pass
    return True, 'I2: text accumulated only from self.%s(); quote switched on clash, backslash %s, NUL rejected' % (gen, 'escaped' if bs_escaped else 'rejected')


def dyn_rule(model, rep, cg, reach):
    """Names handed to getattr/setattr/delattr/hasattr are built from literals, node class names and node field names only -- never from
    the content of the input. The derivation follows locals, literal loops and, for parameters, every call site of the function."""
    callers = {}

    def call_sites(fi):
        if not callers:
            for q2 in sorted(reach):
                g = model.funcs[q2]
                for (n_, t, _rc) in cg.callees(g):
                    if isinstance(n_, ast.Call):
                        callers.setdefault(t.qual, []).append((g, n_))
            callers.setdefault('', [])
        return callers.get(fi.qual, []) + callers.get(getattr(fi, 'alias_of', None) or '\0', [])

    def arg_for(fi, call, pname):
        ps = fi.positional
        for k in call.keywords:
            if k.arg == pname:
                return k.value
        if pname in ps and ps.index(pname) < len(call.args) and not any(isinstance(a, ast.Starred) for a in call.args):
            return call.args[ps.index(pname)]
        return fi.defaults().get(pname)

    def derives(fi, e, depth, seen):
        """(ok, reason)"""
        if depth > 6:
            return False, 'derivation too deep at %s' % src(e)
        if isinstance(e, ast.Constant):
            return (True, '') if isinstance(e.value, str) else (False, 'non-string constant %s' % src(e))
        t = src(e)
        if 'iter_fields' in t or '_fields' in t:
            return True, ''
        if isinstance(e, ast.Attribute) and e.attr == '__name__':
            v = e.value
            if (isinstance(v, ast.Attribute) and v.attr == '__class__') or (isinstance(v, ast.Call) and src(v.func) == 'type'):
                return True, ''
            return False, '%s is not a class name' % t
        if isinstance(e, ast.BinOp) and isinstance(e.op, (ast.Add, ast.Mod)):
            parts = [e.left] + (list(e.right.elts) if isinstance(e.op, ast.Mod) and isinstance(e.right, ast.Tuple) else [e.right])
            for p_ in parts:
                ok, why = derives(fi, p_, depth + 1, seen)
                if not ok:
                    return ok, why
            return True, ''
        if isinstance(e, ast.JoinedStr):
            for p_ in e.values:
                ok, why = derives(fi, p_.value if isinstance(p_, ast.FormattedValue) else p_, depth + 1, seen)
                if not ok:
                    return ok, why
            return True, ''
        if isinstance(e, ast.IfExp):
            for p_ in (e.body, e.orelse):
                ok, why = derives(fi, p_, depth + 1, seen)
                if not ok:
                    return ok, why
            return True, ''
        if isinstance(e, ast.Subscript):
            # a look-up in a table kept by the repository whose values are all literal strings (a dispatch table of method names)
            try:
                tbl = const_value(model, fi, e.value)
            except (ValueError, TypeError):
                tbl = None
            vals = list(tbl.values()) if isinstance(tbl, dict) else (list(tbl) if isinstance(tbl, (list, tuple)) else None)
            if vals and all(isinstance(x, str) for x in vals):
                return True, ''
            return False, '%s is not a look-up in a table of literal names' % t
        if isinstance(e, ast.Name):
            key = (fi.qual, e.id)
            if key in seen:
                return True, ''
            seen = seen | {key}
            ds = cg.defs(fi).get(e.id)
            if not ds:
                v = model.module_assigns.get(fi.module, {}).get(e.id)
                if v is not None:
                    return derives(fi, v, depth + 1, seen)
                return False, '%s has no visible definition' % e.id
            for d in ds:
                if isinstance(d, ast.AST):
                    ok, why = derives(fi, d, depth + 1, seen)
                elif isinstance(d, tuple) and d[0] == '<iter>':
                    it = d[1]
                    if isinstance(it, (ast.Tuple, ast.List, ast.Set)):
                        ok, why = True, ''
                        for el in it.elts:
                            ok, why = derives(fi, el, depth + 1, seen)
                            if not ok:
                                break
                    else:
                        ok, why = ('iter_fields' in src(it) or '_fields' in src(it)), 'loop over %s' % src(it)
                        if not ok:
                            # a loop over a table the repository computes from constants only: nothing in it depends on the input
                            try:
                                const_value(model, fi, it)
                                ok, why = True, ''
                            except (ValueError, TypeError):
                                pass
                elif d == '<param>':
                    sites = call_sites(fi)
                    if not sites:
                        ok, why = False, 'parameter %s of %s has no resolved call site' % (e.id, fi.qual)
                    else:
                        ok, why = True, ''
                        for (g, c_) in sites:
                            a = arg_for(fi, c_, e.id)
                            if a is None:
                                ok, why = False, 'argument for %s not evident at %s' % (e.id, g.loc(c_))
                            else:
                                ok, why = derives(g, a, depth + 1, seen)
                                if not ok:
                                    why += ' (passed at %s)' % g.loc(c_)
                            if not ok:
                                break
                else:
                    ok, why = False, '%s is bound by %s' % (e.id, d)
                if not ok:
                    return ok, why
            return True, ''
        if isinstance(e, ast.Call):
            callees = [t_ for (t_, _rc) in cg.resolve_call(fi, fi.cls, e) if t_ is not None]
            if callees:
                # the name is computed by a function of the package: it derives from literals when every value that function returns does
                for cf in callees:
                    rets = [n_.value for n_ in walk_own(cf.node) if isinstance(n_, ast.Return) and n_.value is not None]
                    for r_ in rets:
                        ok, why = derives(cf, r_, depth + 1, seen)
                        if not ok:
                            raise AnalysisError('UNDECIDED: the attribute name %s is computed by %s, whose result (%s) cannot be traced to literals by this rule (%s)' % (t, cf.qual, src(r_)[:60], why))
                    if not rets:
                        return False, '%s returns nothing' % cf.qual
                return True, ''
        return False, 'attribute name %s is computed from something other than literals, class names and field names' % t

    n = 0
    n_data = 0
    for q in sorted(reach):
        fi = model.funcs[q]
        for c in calls(fi.node):
            if isinstance(c.func, ast.Name) and c.func.id in ('getattr', 'setattr', 'delattr', 'hasattr') and len(c.args) >= 2:
                name_e = c.args[1]
                if isinstance(name_e, ast.Constant):
                    continue
                # Reading or writing a computed attribute of a tree node (or of the visitor itself) runs no code and resolves nothing. What the
                # property rules out is resolving a name taken from the input in the minifier's own world: a computed attribute of a *module*
                # (builtins, ast, os, ...) or of a class.
                recv = c.args[0]
                target = model.resolve_expr(fi.module, recv) if isinstance(recv, (ast.Name, ast.Attribute)) else None
                local = isinstance(recv, ast.Name) and recv.id in cg.defs(fi)
                is_namespace_like = (not local) and target is not None and (target in model.modules or target in model.classes or '.' not in target or target.split('.')[0] in
                                                                           ('builtins', '__builtin__', 'ast', 'os', 'sys', 'importlib', 'types', 'operator', 'functools'))
                if not is_namespace_like:
                    n_data += 1
                    continue
                n += 1
                ok, why = derives(fi, name_e, 0, frozenset())
                rep.check(ok, 'C12.DYN', fi.loc(c), src(c)[:80], 'name derives from literals, node class names and field names',
                          'dynamic attribute access with a name that does not derive from literals, node class or field names: ' + why, key='C12.DYN|%s|%s' % (q, src(c)[:60]))
    rep.ok('C12.DYN', 'src/python_minifier', 'scan of computed attribute accesses: %d on modules / classes (judged above), %d on tree nodes and visitors (no name resolution)' % (n, n_data), 'none resolves an input-derived name in a module or class', cells=n + n_data, key='C12.DYN|scan')
    rep.floor('C12.DYN', 1)


# ---------------------------------------------------------------------- ESC: what reaches eval() is a closed string/bytes literal (enumerated)
def closed_literal(text):
    """True when `text`, if it is an expression at all, is nothing but string/bytes literals (so evaluating it runs no code from the input)."""
    import warnings
    try:
        with warnings.catch_warnings():
            warnings.simplefilter('ignore')
            t = ast.parse(text, mode='eval')
    except (SyntaxError, ValueError):
        return True   # eval raises SyntaxError: nothing is executed
    return isinstance(t.body, ast.Constant) and isinstance(t.body.value, (str, bytes))


def strings_over(alphabet, max_len):
    import itertools
    for n in range(0, max_len + 1):
        for tup in itertools.product(alphabet, repeat=n):
            yield ''.join(tup)


def esc_enum(model, rep):
    from ..absint import ClassRef, Interp, TOP, _Raise
    quick = rep.tier != 'thorough'
    MS = 'python_minifier.ministring.MiniString'
    FS = 'python_minifier.f_string.Str'
    FB = 'python_minifier.f_string.Bytes'
    n_cells = 0
    bad = []

    def run_str(cq, ctor_args, label):
        nonlocal n_cells
        seen_texts = []

        def eval_hook(I, e, args, kw, env):
            text = args[0]
            if not isinstance(text, str):
                return TOP
            seen_texts.append(text)
            if not closed_literal(text):
                bad.append((label, text))
                raise _Raise('InjectedCode')
            import warnings
            try:
                with warnings.catch_warnings():
                    warnings.simplefilter('ignore')
                    return ast.literal_eval(text)
            except Exception as ex:
                raise _Raise(type(ex).__name__)
        I = Interp(model, cq.rsplit('.', 1)[0], {'eval': eval_hook}, max_depth=200)
        I.MAX_PATHS = 8

        def thunk():
            o = I.construct(ClassRef(cq.rsplit('.', 1)[1], cq), list(ctor_args), {})
            return I.call_method(cq, '__str__', o, [])
        res = I.explore(thunk)
        n_cells += 1
        for (o, ev, unk) in res:
            if o[0] == 'abort' or (o[0] == 'return' and o[1] is TOP and unk):
                raise AnalysisError('UNDECIDED: %s%r.__str__ -> %s %s' % (cq.rsplit('.', 1)[1], tuple(ctor_args), o, unk[:3]))

    for quote in ("'", '"', "'''", '"""'):
        q = quote[0]
        other = '"' if q == "'" else "'"
        alphabet = [q, other, '\\', 'a', '\n', '#', '+']
        cases = list(strings_over(alphabet, 2 if quick else 3))
        for k in range(1, 9):
            for pre, post in (('', ''), ('a', 'a'), ('', '+x#'), ('a', '+open(1)#'), ('\\', ''), ('\\', '+x#'), ('a\\', '+x#'), ('\\\\', '+x#'), ('\n', '+x#')):
                cases.append(pre + q * k + post)
                cases.append(pre + (q * k + 'a') * 2 + q * k + post)
        # characters that send the quoting code down its other paths: a lone surrogate (cannot be encoded: the ASCII-only retry), non-ASCII text,
        # NUL and other control characters - each in front of / behind a quote run with code and a comment tail after it
        for special in ('\ud800', '\udfff', '\xe9', '\U0001f600', '\0', '\x7f', '\r', '\t', '\x1b'):
            for k in (1, 2, 3):
                for qq in (q, other):
                    cases.append(special + qq * k + '+x#')
                    cases.append(qq * k + special + '+x#')
                    cases.append(special + '\\' + qq * k + '+x#')
                    cases.append('{x}' + special + qq * k + '+globals()#')
        for s_ in dict.fromkeys(cases):
            if s_ == '':
                continue
            run_str(MS, [s_, quote], 'MiniString(%r, quote=%s)' % (s_, quote))
    for pep701 in (True, False):
        for allowed in (['"', "'", '"""', "'''"], ["'", '"""', "'''"], ['"""', "'''"], ["'''"], ['"']):
            alphabet = ["'", '"', 'a', '\n', '#', '+'] + (['\\'] if pep701 else [])
            cases = list(strings_over(alphabet, 2 if quick else 3))
            for qq in ("'", '"'):
                for k in (1, 2, 3, 4, 6, 7):
                    cases.append(qq * k + '+x#')
                    cases.append('a' + qq * k + 'a' + qq * k)
                    if k <= 3:
                        # a backslash before a quote run (what ends a raw literal early), with and without code behind it
                        for pre, post in (('\\', ''), ('\\', '+x#'), ('a\\', '+x#'), ('\\\\', '+x#'), ('a\\', 'a' + qq + '+open(1)#'), ('\\d', '+x#')):
                            cases.append(pre + qq * k + post)
            for s_ in dict.fromkeys(cases):
                if s_ == '':
                    continue
                run_str(FS, [s_, list(allowed), pep701], 'f_string.Str(%r, allowed=%s, pep701=%s)' % (s_, allowed, pep701))
    for allowed in (['"', "'", '"""', "'''"], ['"""', "'''"], ["'"]):
        alphabet = [39, 34, 97, 10, 35, 43]
        import itertools
        cases = [bytes(t) for n in range(1, 3 if quick else 4) for t in itertools.product(alphabet, repeat=n)]
        for b_ in cases:
            run_str(FB, [b_, list(allowed)], 'f_string.Bytes(%r, allowed=%s)' % (b_, allowed))
        init = model.method(FB, '__init__')
        if init is not None and 'pep701' in init.params:
            # the escaping variant (backslashes are allowed inside replacement fields since PEP 701)
            alphabet2 = [39, 34, 97, 10, 13, 35, 43, 92, 0, 255]
            cases2 = [bytes(t) for n in range(1, 3 if quick else 4) for t in itertools.product(alphabet2, repeat=n)]
            cases2 += [b"\\'+x#", b'\\"+x#', b"a\\'''+open(1)#", b'\\\\"+x#', b"\\\n'+x#"]
            for b_ in cases2:
                run_str(FB, [b_, list(allowed), True], 'f_string.Bytes(%r, allowed=%s, pep701=True)' % (b_, allowed))
    # end to end: the whole printer run on modules whose f-string fields hold crafted str / bytes constants (whatever classes do the quoting and
    # whatever their constructors look like): every text that reaches eval() while printing is inspected
    from ..absprint import print_module
    field_values = []
    for qq in ("'", '"'):
        for k in (1, 2, 3):
            for pre, post in (('\\', '+x#'), ('a\\', '+x#'), ('\\\\', '+x#'), ('', '+x#'), ('\\', ''), ('a\\', 'a' + qq + '+open(1)#'), ('\\n', '+x#'), ('\n', '+x#')):
                field_values.append(pre + qq * k + post)
    field_values += ["\\'+__import__('os').sep#", '\\"+__import__("os").sep.encode()#', "'''+x#", '\\', '\\\\', "{'+x+'}", "\\N{BULLET}'+x#"]
    if quick:
        field_values = field_values[::3] + field_values[-7:]
    # literal text of the f-string itself (not a constant inside a field), and a plain string statement, with the same tails behind characters
    # that cannot be encoded / are not ASCII / are control characters
    text_values = []
    for special in ('\ud800', '\xe9', '\0', '\r', ''):
        for qq in ("'", '"'):
            for k in (1, 3):
                text_values += [special + qq * k + '+globals().update(M=1)#', special + '\\' + qq * k + '+x#', qq * k + special + '+x#' + ('"' if qq == "'" else "'")]
    if quick:
        text_values = text_values[::2]

    def printing_eval(label):
        def hook(I, e, args, kw, env):
            text = args[0]
            if not isinstance(text, str):
                return TOP
            if not closed_literal(text):
                bad.append((label, text))
                raise _Raise('InjectedCode')
            import warnings
            try:
                with warnings.catch_warnings():
                    warnings.simplefilter('ignore')
                    return ast.literal_eval(text)
            except Exception as ex:
                raise _Raise(type(ex).__name__)
        return hook
    for v_ in dict.fromkeys(field_values):
        for as_bytes in (False, True):
            try:
                value = v_.encode('ascii') if as_bytes else v_
            except UnicodeEncodeError:
                continue
            const = lambda: ast.Constant(value=value)
            fv = lambda inner, conv=-1, spec=None: ast.FormattedValue(value=inner, conversion=conv, format_spec=spec)
            shapes = {
                'the field': [fv(const())],
                'a subscript in the field, text around it': [ast.Constant(value='t '), fv(ast.Subscript(value=ast.Name(id='d', ctx=ast.Load()), slice=const(), ctx=ast.Load()), 114), ast.Constant(value=" '\"")],
                'a call argument in a nested f-string': [fv(ast.JoinedStr(values=[fv(ast.Call(func=ast.Name(id='g', ctx=ast.Load()), args=[const()], keywords=[]))]))],
            }
            for sl, values in shapes.items():
                tree = ast.fix_missing_locations(ast.Module(body=[ast.Assign(targets=[ast.Name(id='t', ctx=ast.Store())], value=ast.JoinedStr(values=values))], type_ignores=[]))
                label = 'printing t = f-string with the %s constant %r as %s' % ('bytes' if as_bytes else 'str', value, sl)
                r = print_module(model, tree, extra_hooks={'eval': printing_eval(label)})
                n_cells += 1
                if r[0] == 'undecided':
                    raise AnalysisError('UNDECIDED: %s: %s' % (label, r[1]))
    for v_ in dict.fromkeys(text_values):
        fv = lambda inner: ast.FormattedValue(value=inner, conversion=-1, format_spec=None)
        shapes = {
            'the literal text of an f-string after a field': ast.JoinedStr(values=[fv(ast.Name(id='x', ctx=ast.Load())), ast.Constant(value=v_)]),
            'the literal text of an f-string between two fields': ast.JoinedStr(values=[fv(ast.Name(id='x', ctx=ast.Load())), ast.Constant(value=v_), fv(ast.Constant(value=v_))]),
            'a plain string': ast.Constant(value=v_),
            'a string in a call in a field': ast.JoinedStr(values=[fv(ast.Call(func=ast.Name(id='g', ctx=ast.Load()), args=[ast.Constant(value=v_)], keywords=[]))]),
        }
        for sl, value in shapes.items():
            tree = ast.fix_missing_locations(ast.Module(body=[ast.Assign(targets=[ast.Name(id='t', ctx=ast.Store())], value=value)], type_ignores=[]))
            label = 'printing t = <%s> with the text %r' % (sl, v_)
            r = print_module(model, tree, extra_hooks={'eval': printing_eval(label)})
            n_cells += 1
            if r[0] == 'undecided':
                raise AnalysisError('UNDECIDED: %s: %s' % (label, r[1]))
    where = 'src/python_minifier/ministring.py, f_string.py'
    seen = set()
    for (label, text) in bad:
        if label in seen or len(seen) > 5:
            continue
        seen.add(label)
        rep.violation('C12.ESC', where, label, 'the text handed to eval() is not a closed literal: %r - code embedded in the input string would be executed' % text[:80], key='C12.ESC|' + label)
    if not bad:
        rep.ok('C12.ESC', where, 'quoting code abstractly run on %d crafted strings (quote runs, backslashes, newlines, comment/operator tails)' % n_cells,
               'every text that reaches eval() is a closed string/bytes literal or does not parse', cells=n_cells, key='C12.ESC|enum')
    rep.floor('C12.ESC', 1)


# ---------------------------------------------------------------------- FOLD: what the folding transform hands to eval() (enumerated)
FOLD_OPERANDS = ['a', 'exit', 'f()', 'a.b', 'a[0]', "'s'", "b's'", "f'{a}'", "f's'", '[1]', '(1,)', '{1: 2}', '{1}', '(lambda: 1)', 'None', '...', '-1', '(1 if a else 2)', '(1 < 2)', '(a and 1)',
                 '[x for x in a]', '__import__', "__import__('os')", '(yield)', 'True', '2', '1.5', '1j', '-a', '-f()', '-a.b', '+a', '~a', '(not a)', '-(-a)', "-len(__import__('os').sep)", '-[1][0]']
FOLD_OPS = ['+', '*', '%', '|', '/', '**', '<<', '@']


def fold_enum(model, rep):
    from .c07 import FOLD, fold_run
    fi = model.func(FOLD)
    cells = 0
    literal_texts = 0
    bad = []
    for op in (FOLD_OPS if rep.tier == 'thorough' else FOLD_OPS[:3]):
        lines = []
        for a in FOLD_OPERANDS:
            for b in ('1', a, 'b'):
                lines.append('%s %s %s' % (a, op, b))
                lines.append('%s %s %s' % (b, op, a))
                lines.append('(%s %s %s) %s 2' % (a, op, b, op))
        lines += ['(1e308 * 10) - (1e308 * 10)', '(1e308 * 10) * 0', '1e308 * 10 %s 1' % op]
        src_ = 'def g():\n' + ''.join('    v%d = %s\n' % (i, l) for i, l in enumerate(lines))
        evaluated = []
        tree, out = fold_run(model, src_, evaluated=evaluated)
        cells += len(lines)
        literal_texts += sum(1 for (_t, ok) in evaluated if ok)
        for (text, ok) in evaluated:
            if not ok:
                bad.append((op, text))
    seen = set()
    for (op, text) in bad:
        if text in seen or len(seen) >= 5:
            continue
        seen.add(text)
        rep.violation('C12.FOLD', fi.loc(), 'eval(%r)' % text[:60], 'the folding transform evaluates text taken from the input that is not a closed literal expression (names, calls, attribute access, '
                      'subscripts or displays are looked up / built while minifying)', key='C12.FOLD|' + text[:60])
    if literal_texts == 0:
        raise AnalysisError('the folding enumeration evaluated no text at all: it does not reach the eval sink')
    if not bad:
        rep.ok('C12.FOLD', fi.loc(), 'FoldConstants on %d binary expressions over %d operand kinds x %d operators; %d texts reached eval()' % (cells, len(FOLD_OPERANDS), len(FOLD_OPS), literal_texts),
               'every text is a closed literal expression', cells=cells, key='C12.FOLD|enum')
