"""Scenario enumeration over the command line tool (shared by C13, C14, C15).

Each scenario is run with pmstatic.clirun (main() evaluated by the abstract interpreter, the environment answered by the checker) and the
trace is compared with the documented behaviour, computed here independently of the repository:

  what is minified    `-` = stdin; a file argument = that file; a directory argument = every *.py / *.pyw file below it (symlinked
                      directories are followed), in walk order
  what is written     the UTF-8 encoding of what minify() returned for that source, or the untouched source when that would be larger and
                      PYMINIFY_FORCE_BEST_EFFORT is unset; to stdout, to --output, or over the source file with --in-place
  failures            an unreadable file, or a source minify() rejects, ends the run with a failure status; nothing is written for it, files
                      after it are neither read nor written
  invalid arguments   `-` with other paths or with --in-place; several paths or a directory without --in-place; --output with --in-place;
                      --remove-class-attribute-annotations with --no-remove-annotations: failure status before anything is read or written

Problems are tagged with the clause they belong to so that every property reports its own clauses.
"""
import ast
import itertools

from .. import clirun
from ..absint import Obj, TOP
from ..model import AnalysisError, src

MAIN = 'python_minifier.__main__'
OPTIONS_CLS = 'python_minifier.transforms.remove_annotations_options.RemoveAnnotationsOptions'
ANN_FIELDS = ('remove_variable_annotations', 'remove_return_annotations', 'remove_argument_annotations', 'remove_class_attribute_annotations')
OVERRIDE = 'PYMINIFY_FORCE_BEST_EFFORT'

_CACHE = {}


def signature_defaults(fi):
    out = {}
    for k, d in fi.defaults().items():
        out[k] = d.value if isinstance(d, ast.Constant) else ('expr', src(d))
    return out


class Problem(object):
    def __init__(self, clause, label, text):
        self.clause = clause    # 'flags' 'payload' 'size' 'channel' 'listing' 'validation' 'selection' 'destination' 'order' 'failure'
        self.label = label
        self.text = text

    def __repr__(self):
        return '%s[%s] %s' % (self.clause, self.label, self.text)


# ---------------------------------------------------------------------- the parser the repository builds
def the_parser(model):
    key = ('parser', model.digest())
    if key not in _CACHE:
        r = clirun.run(model, clirun.Scenario(['probe.py'], files={'probe.py': b'x = 1\n'}))
        if r.parser is None:
            raise AnalysisError('the command line entry point builds no argparse parser')
        _CACHE[key] = r.parser
    return _CACHE[key]


# ---------------------------------------------------------------------- flags -> keywords
def flag_scenarios(model, tier):
    parser = the_parser(model)
    flags = clirun.option_flags(parser)
    booleans = [f for (f, a) in flags if a.nargs == 0]
    lists = [f for (f, a) in flags if a.nargs != 0]
    out = [('no flags', [])]
    for f in booleans:
        out.append((f, [f]))
    names = {clirun.flag_meaning(f)[0]: f for f in booleans}
    master = names.get('remove_annotations')
    subs = [names[k] for k in ANN_FIELDS if k in names]
    for use_master in (False, True):
        for bits in itertools.product((False, True), repeat=len(subs)):
            fl = ([master] if use_master and master else []) + [s for s, b in zip(subs, bits) if b]
            if len(fl) >= 2:
                out.append(('annotations: ' + ' '.join(fl), fl))
    for f in lists:
        for spelling in (['a'], ['a,b'], ['a, b', 'c'], ['a,,b'], [' a ,b ', 'c,d'], ['a', 'b', 'c'], [',a,']):
            argv = []
            for s in spelling:
                argv += [f, s]
            out.append(('%s %r' % (f, spelling), argv))
    if tier == 'thorough':
        for a, b in itertools.combinations(booleans, 2):
            out.append(('%s %s' % (a, b), [a, b]))
        for f in lists:
            for g in booleans[:6]:
                out.append(('%s x,y %s' % (f, g), [f, 'x,y', g]))
    seen = set()
    uniq = []
    for (label, argv) in out:
        k = tuple(argv)
        if k not in seen:
            seen.add(k)
            uniq.append((label, argv))
    return uniq, booleans, lists


def expected_keywords(model, argv):
    """The documented meaning of a flag list, as keyword arguments of minify()."""
    mf = model.func('python_minifier.minify')
    api = signature_defaults(mf)
    ann_defaults = signature_defaults(model.func(OPTIONS_CLS + '.__init__'))
    want = {k: v for k, v in api.items() if k not in ('filename', 'remove_annotations')}
    ann = dict(ann_defaults)
    master = True
    lists = {}
    i = 0
    while i < len(argv):
        f = argv[i]
        name, pol = clirun.flag_meaning(f)
        if name in ('preserve_locals', 'preserve_globals'):
            lists.setdefault(name, []).append(argv[i + 1])
            i += 2
            continue
        if name == 'remove_annotations':
            master = pol
        elif name in ann:
            ann[name] = pol
        elif name in want:
            want[name] = pol
        else:
            raise AnalysisError('flag %s of the command line has no keyword %s in minify(): the documented meaning is unknown' % (f, name))
        i += 1
    for name, entries in lists.items():
        names = []
        for entry in entries:
            names += [n.strip() for n in entry.split(',') if n.strip()]
        want[name] = names
    return want, {k: (master and v) for k, v in ann.items()}, master


def invalid_flags(argv):
    names = [clirun.flag_meaning(f) for f in argv if f.startswith('--')]
    return ('remove_class_attribute_annotations', True) in names and ('remove_annotations', False) in names


_MINIFY_DEFAULTS = {}


def _load_minify_defaults(model):
    _MINIFY_DEFAULTS.clear()
    for p_, d_ in model.func('python_minifier.minify').defaults().items():
        if isinstance(d_, ast.Constant):
            _MINIFY_DEFAULTS[p_] = d_.value


def compare_keywords(kw, want, ann):
    problems = []
    for p, v in want.items():
        got = kw.get(p, _MINIFY_DEFAULTS.get(p, '<not passed>'))       # a keyword that is not passed takes the default of minify()'s signature
        if isinstance(v, list) or p in ('preserve_locals', 'preserve_globals'):
            v = v or []
            if got is None and v == []:
                continue
            # minify() uses the names as a set: order and repetition do not change what it returns
            if not isinstance(got, (list, tuple, set, frozenset)) or {x for x in got if x} != set(v):
                problems.append('%s=%r (documented meaning: %r)' % (p, got, v))
        elif got is not v:
            problems.append('%s=%r (documented meaning: %r)' % (p, got, v))
    for p in kw:
        if p not in want and p not in ('remove_annotations', 'filename', 'source'):
            problems.append('unknown keyword %s passed to minify()' % p)
    ra = kw.get('remove_annotations', '<not passed>')
    if isinstance(ra, Obj):
        for k, v in ann.items():
            got = ra.attrs.get(k, '<unset>')
            if got is TOP or got == '<unset>' or bool(got) is not bool(v):
                problems.append('remove_annotations.%s=%r (documented meaning: %r)' % (k, got, v))
    elif isinstance(ra, bool):
        if any(bool(v) is not ra for v in ann.values()):
            problems.append('remove_annotations=%r (documented meaning: %s)' % (ra, ann))
    else:
        problems.append('remove_annotations=%r (documented meaning: %s)' % (ra, ann))
    return problems


def run_flags(model, tier):
    """[(label, argv, [Problem])]"""
    key = ('flags', model.digest(), tier)
    if key in _CACHE:
        return _CACHE[key]
    scen, booleans, lists = flag_scenarios(model, tier)
    _MINIFY_DEFAULTS.clear()
    for p_, d_ in model.func('python_minifier.minify').defaults().items():
        if isinstance(d_, ast.Constant):
            _MINIFY_DEFAULTS[p_] = d_.value
    SRC = b'import os\nimport sys\nprint(os, sys)\n'
    out = []
    for (label, argv) in scen:
        sc = clirun.Scenario(list(argv) + ['mod.py'], files={'mod.py': SRC}, answers={SRC: ('ok', 'min')})
        r = clirun.run(model, sc)
        probs = []
        if invalid_flags(argv):
            if not r.failed() or r.events('minify', 'write', 'stdout-bytes'):
                probs.append(Problem('validation', label, 'the invalid combination %s is not rejected before anything is minified or written (%s)' % (' '.join(argv), r.outcome,)))
            out.append((label, argv, probs))
            continue
        if r.failed():
            probs.append(Problem('flags', label, 'pyminify %s mod.py fails: %s %s' % (' '.join(argv), r.outcome, [t[1] for t in r.events('stderr')][:1])))
            out.append((label, argv, probs))
            continue
        calls_ = r.events('minify')
        if len(calls_) != 1:
            probs.append(Problem('flags', label, 'minify() is called %d times for one source file' % len(calls_)))
            out.append((label, argv, probs))
            continue
        (_k, source, kw, extra) = calls_[0]
        if source != SRC:
            probs.append(Problem('payload', label, 'minify() receives %r, not the bytes read from the file' % (source,)))
        if extra:
            kw = dict(kw)
            params = [p for p in model.func('python_minifier.minify').params][1:]
            for p, v in zip(params, extra):
                kw[p] = v
        if kw.get('filename') != 'mod.py':
            probs.append(Problem('flags', label, 'filename=%r is passed for mod.py' % (kw.get('filename'),)))
        want, ann, _master = expected_keywords(model, argv)
        for t in compare_keywords(kw, want, ann):
            probs.append(Problem('flags', label, t))
        written = r.events('stdout-bytes')
        if [w[1] for w in written] != [b'min']:
            probs.append(Problem('payload', label, 'stdout receives %r, expected the UTF-8 encoding of the minify() result' % ([w[1] for w in written],)))
        out.append((label, argv, probs))
    # the same flags must mean the same for every file of one run
    multi = {'f1.py': b'# one\nimport os\nprint(os)\n', 'f2.py': b'# two\nimport sys\nprint(sys)\n', 'f3.py': b'# three\nimport json\nprint(json)\n'}
    flagsets = [[]]
    for f in lists:
        flagsets.append([f, 'keep_a,keep_b'])
    if lists:
        fl = []
        for f in lists:
            fl += [f, 'x, y', f, 'z']
        flagsets.append(fl + booleans[:2])
    flagsets.append(list(booleans[:3]))
    for argv in flagsets:
        label = 'three files in place: %s' % (' '.join(argv) or 'no flags')
        sc = clirun.Scenario(list(argv) + ['--in-place'] + sorted(multi), files=multi, answers={v: ('ok', 'min') for v in multi.values()})
        r = clirun.run(model, sc)
        probs = []
        if r.failed():
            probs.append(Problem('flags', label, 'the run fails: %s' % (r.outcome,)))
        else:
            calls_ = r.events('minify')
            if len(calls_) != len(multi):
                probs.append(Problem('flags', label, 'minify() is called %d times for %d files' % (len(calls_), len(multi))))
            want, ann, _master = expected_keywords(model, argv)
            for (_k, source, kw, extra) in calls_:
                name = [n for n, v in multi.items() if v == source]
                for t in compare_keywords(kw, want, ann):
                    probs.append(Problem('flags', label, 'for %s: %s' % (name[0] if name else '?', t)))
        out.append((label, argv, probs))
    _CACHE[key] = (out, booleans, lists)
    return _CACHE[key]


# ---------------------------------------------------------------------- validation
def run_validation(model, tier):
    key = ('val', model.digest(), tier)
    if key in _CACHE:
        return _CACHE[key]
    parser = the_parser(model)
    names = {clirun.flag_meaning(f)[0]: f for (f, a) in clirun.option_flags(parser)}
    rca, nra = names.get('remove_class_attribute_annotations'), names.get('remove_annotations')
    shapes = [['-'], ['-', 'a.py'], ['a.py', '-'], ['a.py'], ['a.py', 'b.py'], ['d'], ['d', 'a.py']]
    out = []
    for path in shapes:
        for in_place in (False, True):
            for output in (None, 'out.py'):
                for use_rca in (False, True):
                    for use_nra in (False, True):
                        argv = list(path) + (['--in-place'] if in_place else []) + (['--output', output] if output else []) + ([rca] if use_rca and rca else []) + ([nra] if use_nra and nra else [])
                        isdir = 'd' in path
                        invalid = ('-' in path and len(path) != 1) or ('-' in path and in_place) or (len(path) > 1 and not in_place) or \
                            (len(path) == 1 and isdir and not in_place) or (use_rca and use_nra and rca and nra) or (in_place and output is not None)
                        files = {'a.py': b'A = 1\n' * 3, 'b.py': b'B = 2\n' * 3, 'd/x.py': b'X = 3\n' * 3}
                        sc = clirun.Scenario(argv, files=files, dirs={'d': [('d', [], ['x.py'], False)]}, stdin=b'S = 0\n' * 3)
                        r = clirun.run(model, sc)
                        label = ' '.join(argv)
                        probs = []
                        effects = r.events('write', 'stdout-bytes', 'minify', 'read', 'read-stdin') + [t for t in r.events('open')]
                        if invalid:
                            if not r.failed():
                                probs.append(Problem('validation', label, 'invalid arguments are accepted (%s)' % (r.outcome,)))
                            elif effects:
                                probs.append(Problem('validation', label, 'invalid arguments are rejected only after %s' % (effects[0][:2],)))
                        else:
                            if r.failed():
                                probs.append(Problem('validation', label, 'valid arguments are rejected: %s %s' % (r.outcome, [t[1] for t in r.events('stderr')][:1])))
                        out.append((label, argv, probs))
    _CACHE[key] = out
    return out


# ---------------------------------------------------------------------- output modes, size rule, selection, failures
def _tree():
    files = {
        'one.py': b'# one\nimport os\nprint(os)\n',
        'two.py': b'# two\nimport sys\nprint(sys)\n',
        'script': b'#!/usr/bin/python\nprint(1)  # no suffix\n',
        'pkg/a.py': b'# pkg a\na = 1\n',
        'pkg/b.pyw': b'# pkg b\nb = 2\n',
        'pkg/notes.txt': b'not python\n',
        'pkg/data.pyc': b'\x00\x01compiled',
        'pkg/sub/c.py': b'# sub c\nc = 3\n',
        'pkg/sub/README': b'readme\n',
        'pkg/link/d.py': b'# linked d\nd = 4\n',
        'pkg/mod.py.bak': b'backup\n',
        'pkg/stub.pyi': b'def f() -> int: ...\n',
        'pkg/ext.pyx': b'cdef int x\n',
        'pkg/py': b'named py\n',
        'pkg/sub/x.pyw.orig': b'orig\n',
        'latin.py': b'# -*- coding: latin-1 -*-\n# caf\xe9\nname = "\xe9\xe8\xe0\xfc"\n',
        'pkg/sub/cp.pyw': b'#!/usr/bin/python\n# vim: set fileencoding=cp1252 :\nprice = "\x80 5"\n',
        # names that are legal file names and also patterns / expansions for someone else
        'h/[id].py': b'# bracket\nh1 = 1\n', 'h/*.py': b'# star\nh2 = 2\n', 'h/?.py': b'# question\nh3 = 3\n', 'h/i.py': b'# i\nh4 = 4\n', 'h/d.py': b'# d\nh5 = 5\n',
        'h/~x.py': b'# tilde\nh6 = 6\n', 'h/$one.py': b'# dollar\nh7 = 7\n', 'h/a b.py': b'# blank\nh8 = 8\n', 'h/-.py': b'# dash\nh9 = 9\n',
    }
    dirs = {'pkg': [('pkg', ['sub', 'link'], ['a.py', 'notes.txt', 'stub.pyi', 'b.pyw', 'data.pyc', 'ext.pyx', 'mod.py.bak', 'py'], False), ('pkg/sub', [], ['c.py', 'README', 'x.pyw.orig', 'cp.pyw'], False), ('pkg/link', [], ['d.py'], True)],
            'h': [('h', [], ['[id].py', '*.py', '?.py', 'i.py', 'd.py', '~x.py', '$one.py', 'a b.py', '-.py'], False)]}
    return files, dirs


def _selected(paths, files, dirs):
    out = []
    for p in paths:
        if p in dirs:
            for (root, _d, fs, _sym) in dirs[p]:
                for f in fs:
                    if f.endswith('.py') or f.endswith('.pyw'):
                        out.append(root + '/' + f)
        else:
            out.append(p)
    return out


def mode_scenarios(tier):
    files, dirs = _tree()
    modes = [
        ('stdin to stdout', ['-'], None, False),
        ('stdin to --output', ['-'], 'out.py', False),
        ('file to stdout', ['one.py'], None, False),
        ('file to --output', ['one.py'], 'out.py', False),
        ('file without suffix to stdout', ['script'], None, False),
        ('file --in-place', ['one.py'], None, True),
        ('two files --in-place', ['one.py', 'two.py'], None, True),
        ('directory --in-place', ['pkg'], None, True),
        ('file, directory, file --in-place', ['two.py', 'pkg', 'one.py'], None, True),
        ('file with a latin-1 cookie to stdout', ['latin.py'], None, False),
        ('file with a latin-1 cookie to --output', ['latin.py'], 'out.py', False),
        ('files with latin-1 and cp1252 cookies --in-place', ['latin.py', 'pkg/sub/cp.pyw'], None, True),
        ('files whose names hold pattern characters --in-place', ['h/[id].py', 'h/*.py', 'h/?.py'], None, True),
        ('files whose names hold ~ $ blank - --in-place', ['h/~x.py', 'h/$one.py', 'h/a b.py', 'h/-.py'], None, True),
        ('file whose name is a pattern to stdout', ['h/[id].py'], None, False),
    ]
    out = []
    for (mlabel, paths, output, in_place) in modes:
        targets = ['<stdin>'] if paths == ['-'] else _selected(paths, files, dirs)
        n = len(targets)
        # per-target answers: 's' shorter, 'l' longer, 'n' fewer characters but more bytes than the source, 'e' equal length, 'x' minify raises, 'u' unreadable
        vectors = set()
        vectors.add('s' * n)
        vectors.add('l' * n)
        vectors.add('e' * n)
        vectors.add('n' * n)
        for k in range(n):
            for c in 'lnxud':
                if c in 'ud' and targets[k] == '<stdin>':
                    continue
                vectors.add('s' * k + c + 's' * (n - k - 1))
        if n >= 2:
            vectors.add(('sl' * n)[:n])
            vectors.add(('ls' * n)[:n])
        if tier != 'thorough' and n > 3:
            keep = {'s' * n, 'l' * n, 'e' * n, 'n' * n, ('sl' * n)[:n], ('ls' * n)[:n]} | {'s' * k + c + 's' * (n - k - 1) for k in (0, 1, n - 1) for c in 'lnxud'}
            vectors &= keep
        for vec in sorted(vectors):
            for force in ((None,) if tier != 'thorough' and vec not in ('l' * n, ('sl' * n)[:n]) else (None, '1')):
                if force and 'l' not in vec and 'n' not in vec:
                    continue
                out.append((mlabel, paths, output, in_place, targets, vec, force))
    return files, dirs, out


def run_modes(model, tier):
    key = ('modes', model.digest(), tier)
    if key in _CACHE:
        return _CACHE[key]
    files, dirs, scen = mode_scenarios(tier)
    STDIN = b'# from stdin\nimport json\nprint(json)\n'
    results = []
    # every scenario as it is, and - for runs over several files with one kind of answer - once more with byte-identical files (anything the
    # run remembers about one file must not leak into the next)
    scen = [x + (False,) for x in scen] + [x + (True,) for x in scen if len(x[4]) >= 2 and len(set(x[5])) == 1 and x[5][0] in 'slen' and '<stdin>' not in x[4]]
    for (mlabel, paths, output, in_place, targets, vec, force, identical) in scen:
        content = dict(files)
        if identical:
            mlabel += ', byte-identical files'
            for t in targets:
                content[t] = b'SEP = 1\nPAD = 22\n'
        answers = {}
        unreadable = set()
        dangling = set()
        texts = {}
        for t, c in zip(targets, vec):
            source = STDIN if t == '<stdin>' else content[t]
            if c == 's':
                texts[t] = 'm:%s' % t[-6:]
            elif c == 'l':
                texts[t] = 'Lé' + 'x' * len(source)       # longer in bytes than the source, and not ASCII
            elif c == 'e':
                texts[t] = ('E' * len(source))
            elif c == 'n':
                texts[t] = 'é' * (len(source) // 2 + 1)      # fewer characters than the source has bytes, more bytes
            if identical:
                texts[t] = texts[targets[0]]
            if c in 'slen':
                answers[source] = ('ok', texts[t])
            elif c == 'x':
                answers[source] = ('raise', 'SyntaxError')
            elif c == 'u':
                unreadable.add(t)
            elif c == 'd':
                dangling.add(t)       # a symbolic link to nothing, named like a module: listed by the directory, not a file, cannot be opened
        argv = list(paths) + (['--in-place'] if in_place else []) + (['--output', output] if output else [])
        for t in dangling:
            content.pop(t, None)
        sc = clirun.Scenario(argv, files=content, dirs=dirs, stdin=STDIN, env=({OVERRIDE: force} if force else {}), answers=answers, unreadable=unreadable, dangling=dangling,
                             default_answer=('raise', 'AssertionError:unexpected-source'))
        r = clirun.run(model, sc)
        label = '%s [%s]%s' % (mlabel, vec, ' override' if force else '')
        probs = judge_mode(label, sc, r, paths, output, in_place, targets, vec, force, texts, STDIN)
        results.append((label, sc, r, probs))
    # "the complete minified module for those bytes" is what the API returns for the option values the flags mean: runs over several files with
    # flags on the command line - every file of the run is minified with exactly those options (nothing one file or one option leaves behind
    # reaches another)
    _load_minify_defaults(model)
    flag_sets = [['--rename-globals', '--preserve-globals', 'keepg,other', '--preserve-locals', 'keepl'], ['--preserve-globals', 'handler'], ['--preserve-locals', 'result', '--rename-globals'],
                 ['--no-hoist-literals', '--remove-asserts']]
    for (mlabel, paths) in (('directory --in-place', ['pkg']), ('two files --in-place', ['one.py', 'two.py']), ('file, directory, file --in-place', ['two.py', 'pkg', 'one.py'])):
        for flags in flag_sets:
            targets = _selected(paths, files, dirs)
            answers = {files[t]: ('ok', 'm:' + t[-6:]) for t in targets}
            sc = clirun.Scenario(list(paths) + ['--in-place'] + flags, files=dict(files), dirs=dirs, answers=answers, default_answer=('raise', 'AssertionError:unexpected-source'))
            r = clirun.run(model, sc)
            label = '%s with %s' % (mlabel, ' '.join(flags))
            probs = []
            want, ann, _master = expected_keywords(model, flags)
            calls_ = r.events('minify')
            if r.failed():
                probs.append(Problem('failure', label, 'the run fails: %s' % (r.outcome,)))
            elif len(calls_) != len(targets):
                probs.append(Problem('selection', label, '%d sources are minified, %d are selected' % (len(calls_), len(targets))))
            for k, ev in enumerate(calls_):
                bad = compare_keywords(ev[2], want, ann)
                if bad:
                    probs.append(Problem('payload', label, 'source number %d of the run is minified with options the flags do not mean: %s' % (k + 1, '; '.join(bad[:3]))))
                    break
            results.append((label, sc, r, probs))
    # a directory that cannot be listed: the run must fail, not skip it silently
    for (mlabel, paths) in (('unlistable directory --in-place', ['pkg']), ('file, unlistable directory --in-place', ['one.py', 'pkg'])):
        answers = {content_: ('ok', 'm:' + p_[-6:]) for p_, content_ in files.items()}
        sc = clirun.Scenario(list(paths) + ['--in-place'], files=dict(files), dirs=dirs, answers=answers, walk_errors={'pkg'})
        r = clirun.run(model, sc)
        label = '%s [walk error]' % mlabel
        probs = []
        if not r.failed():
            probs.append(Problem('failure', label, 'the run reports success although the directory pkg could not be listed (walk errors are swallowed)'))
        results.append((label, sc, r, probs))
    # the size rule on boundary lengths (stdin to stdout)
    cases = [('ab', b'abc'), ('abc', b'abc'), ('abcd', b'abc'), ('', b''), ('a', b''), ('\xe9\xe9', b'abc'), ('\xe9', b'ab'), ('\xe9', b'a'), ('a\u20ac', b'abcd'), ('a\u20ac', b'abc'),
             ('\U0001f600', b'abcd'), ('\U0001f600', b'abc'), ('x' * 40, b'y' * 39), ('x' * 39, b'y' * 40),
             # line-end conventions, BOM, cookie: what is written is the answer as it is, whatever the source looked like
             ('a=1\nb=2\nc=3', b'a=1\r\nb=2\r\nc=3'), ('a=1\nb=2\nc=3', b'a=1\r\nb=2\nc=3\n'), ('a=1\nb=2', b'a=1\rb=2\r'), ('a\nb\nc\nd', b'a\r\nb\r\nc\r\nd'),
             ('x=1', b'\xef\xbb\xbfx=1'), ('x="\xe9"', b'# -*- coding: latin-1 -*-\nx="\xe9"\n'), ('x="\xe9"', b'\xef\xbb\xbfx = "\xc3\xa9"\n'),
             # sources in a declared single-byte encoding whose minified form (UTF-8) is not smaller: the bytes that were read are what is passed through
             ('x="\xe9\xe8\xe0\xfc\xf6\xe4\xdf\xe7"#....', b'# coding: latin-1\nx="\xe9\xe8\xe0\xfc\xf6\xe4\xdf\xe7"\n'), ('p="\u20ac\u20ac\u20ac\u20ac\u20ac\u20ac\u20ac\u20ac"', b'# coding: cp1252\np="\x80\x80\x80\x80\x80\x80\x80\x80"\n'),
             ('y="\xe9"*2#.......................', b'#!/bin/sh\n# -*- coding: iso-8859-15 -*-\ny="\xe9"*2\n'), ('z="\xe9\xe9\xe9\xe9\xe9\xe9\xe9\xe9\xe9\xe9\xe9\xe9\xe9"', b'\xef\xbb\xbf# coding: utf-8\nz="' + '\xe9'.encode('utf-8') * 13 + b'"')]
    # the same relations at every scale: a rule that is exact for 3 bytes may round for 300 (percentages, kilobytes, floating point ratios)
    for n in (99, 100, 101, 150, 199, 200, 201, 255, 256, 257, 999, 1000, 1001, 1023, 1024, 1025, 4096, 9999, 10000) + ((65535, 65536, 10 ** 6, 2 ** 24 + 1) if tier == 'thorough' else (65536,)):
        for delta in (1, max(1, n // 200), max(1, n // 101), -1):
            cases.append(('x' * (n + delta), b'y' * n))
        cases.append(('\xe9' + 'x' * (n - 2), b'y' * n))         # n - 1 characters, n bytes: equal in bytes
        cases.append(('\xe9' + 'x' * (n - 1), b'y' * n))         # n characters, n + 1 bytes: larger only in bytes
    for override in (None, '', '1'):
        for (text, source) in cases:
            if override == '' and len(source) > 300:
                continue
            sc = clirun.Scenario(['-'], stdin=source, env=({OVERRIDE: override} if override is not None else {}), answers={source: ('ok', text)})
            r = clirun.run(model, sc)
            enc = text.encode('utf-8')
            label = 'size rule [result %r = %d bytes, source %d bytes, override %r]' % (text[:6], len(enc), len(source), override)
            probs = []
            got = [ev[1] for ev in r.events('stdout-bytes')]
            if override:
                want = [[enc]]
            elif len(enc) == len(source):
                want = [[enc], [source]]     # "would not shrink": both the result and the original are within the property
            elif len(enc) < len(source):
                want = [[enc]]
            else:
                want = [[source]]
            if r.failed():
                probs.append(Problem('failure', label, 'the run fails: %s' % (r.outcome,)))
            elif got not in want:
                clause = 'size' if got and isinstance(got[0], bytes) and len(got[0]) > len(source) and not override else 'payload'
                probs.append(Problem(clause, label, 'stdout receives %r (%s bytes), expected %r' % ([_short(g) for g in got], [len(g) if isinstance(g, bytes) else '?' for g in got], _short(want[0][0]))))
            results.append((label, sc, r, probs))
    # the size rule under every flag: no option may switch the fall-back to the original off (only the documented environment override does)
    scen_f, booleans_f, lists_f = flag_scenarios(model, 'quick')
    SRC = b'a = 1\nb = 22\n'
    for (flabel, fargv) in scen_f:
        if invalid_flags(fargv):
            continue
        for (kind, text) in (('longer', 'L' + 'x' * len(SRC)), ('longer only in bytes', '\xe9' * (len(SRC) // 2 + 1))):
            for (mode, extra) in (('to stdout', []), ('--in-place', ['--in-place'])):
                sc = clirun.Scenario(list(fargv) + ['one.py'] + extra, files={'one.py': SRC}, answers={SRC: ('ok', text)})
                r = clirun.run(model, sc)
                label = 'size rule with flags [%s], result %s, %s' % (' '.join(fargv) or 'none', kind, mode)
                probs = []
                written = [ev[1] for ev in r.events('stdout-bytes')] + [ev[3] for ev in r.trace if ev[0] == 'write']
                if r.failed():
                    probs.append(Problem('failure', label, 'the run fails: %s' % (r.outcome,)))
                for w in written:
                    if isinstance(w, bytes) and len(w) > len(SRC):
                        probs.append(Problem('size', label, '%d bytes are written for a source of %d bytes (the original must be passed through when the result is larger)' % (len(w), len(SRC))))
                    elif isinstance(w, bytes) and w != SRC:
                        probs.append(Problem('payload', label, '%r is written, expected the untouched source' % _short(w)))
                results.append((label, sc, r, probs))
    _CACHE[key] = results
    return results


def judge_mode(label, sc, r, paths, output, in_place, targets, vec, force, texts, STDIN):
    P = []
    files = sc.files
    # ---- expected effects: per target the acceptable payloads at its destination; optional = writing nothing is acceptable too
    expected = []          # [(destination, {payloads}, optional, source)]
    fail_at = None
    for k, (t, c) in enumerate(zip(targets, vec)):
        if c in 'xud':
            fail_at = k
            break
        source = STDIN if t == '<stdin>' else files[t]
        enc = texts[t].encode('utf-8')
        if force or len(enc) < len(source):
            acceptable = {enc}
        elif len(enc) == len(source):
            acceptable = {enc, source}       # "would not shrink": the result and the original are both within the property
        else:
            acceptable = {source}
        dest = t if in_place else (output if output else 'stdout')
        optional = in_place and source in acceptable     # the file already holds these bytes
        expected.append((dest, acceptable, optional, source))
    # ---- observed effects
    observed = []
    for ev in r.trace:
        if ev[0] == 'write':
            observed.append((ev[1], ev[3]))
        elif ev[0] == 'stdout-bytes':
            observed.append(('stdout', ev[1]))
        elif ev[0] == 'stdout-text' and not (output or in_place):
            observed.append(('stdout', ev[1]))
    for (d_, p_) in observed:
        if not isinstance(p_, (bytes, str)):
            raise AnalysisError('UNDECIDED: %s: the payload written to %s is not determined by the scenario (%r)' % (label, d_, p_))
    if fail_at is None:
        if r.failed():
            P.append(Problem('failure', label, 'the run fails although every source is readable and minifies: %s' % (r.outcome,)))
    else:
        if not r.failed():
            P.append(Problem('failure', label, 'the run reports success although %s %s' % (targets[fail_at], 'cannot be read' if vec[fail_at] == 'u' else 'is a dangling symbolic link' if vec[fail_at] == 'd' else 'is rejected by minify()')))
        later = set(targets[fail_at + 1:]) - set(targets[:fail_at + 1])
        touched = [ev for ev in r.trace if ev[0] in ('open', 'read', 'write') and ev[1] in later]
        if touched:
            P.append(Problem('failure', label, 'after the failure at %s the run goes on to %s %s' % (targets[fail_at], touched[0][0], touched[0][1])))
        bad_open = [ev for ev in r.events('open') if ev[1] == targets[fail_at] and isinstance(ev[2], str) and any(ch in ev[2] for ch in 'wax+')]
        if bad_open:
            P.append(Problem('order', label, '%s is opened with mode %r although minifying it fails: the file is truncated and its content lost' % (targets[fail_at], bad_open[0][2])))
    # align observed with expected
    oi = 0
    for (dest, acceptable, optional, source) in expected:
        got = observed[oi] if oi < len(observed) else None
        if got is not None and got[0] == dest and got[1] in acceptable:
            oi += 1
            continue
        if optional and not (got is not None and got[0] == dest):
            continue
        if got is None:
            P.append(Problem('payload', label, 'nothing is written to %s, expected %s' % (dest, ' or '.join(repr(_short(a)) for a in sorted(acceptable, key=len)))))
        elif got[0] != dest:
            P.append(Problem('destination', label, 'output goes to %s, expected %s' % (got[0], dest)))
        elif isinstance(got[1], bytes) and len(got[1]) > len(source) and not force:
            P.append(Problem('size', label, '%d bytes are written to %s for a source of %d bytes (the original must be passed through when the result is larger)' % (len(got[1]), dest, len(source))))
        else:
            P.append(Problem('payload', label, '%s receives %r, expected %s' % (dest, _short(got[1]), ' or '.join(repr(_short(a)) for a in sorted(acceptable, key=len)))))
        break
    else:
        if oi < len(observed):
            got = observed[oi]
            P.append(Problem('destination', label, '%r is written to %s, nothing more was expected' % (_short(got[1]), got[0])))
    # ---- channels
    for ev in r.events('open'):
        mode = ev[2]
        if not isinstance(mode, str) or 'b' not in mode:
            P.append(Problem('channel', label, '%s is opened in text mode %r: newline and encoding translation change the bytes' % (ev[1], mode)))
    for ev in r.events('stdout-text'):
        if not (output or in_place):
            P.append(Problem('listing', label, 'text %r is written to stdout, which carries the minified module' % (ev[1],)))
    # ---- destinations and selection
    allowed_w = set()
    if in_place:
        allowed_w |= set(targets)
    if output:
        allowed_w.add(output)
    for ev in r.events('open'):
        mode = ev[2]
        writing = isinstance(mode, str) and any(ch in mode for ch in 'wax+')
        if writing and ev[1] not in allowed_w:
            P.append(Problem('destination', label, '%s is opened for writing: it is neither a selected source with --in-place nor the --output file' % (ev[1],)))
        if not writing and ev[1] not in targets:
            P.append(Problem('selection', label, '%s is read although it is not a selected python source' % (ev[1],)))
    if fail_at is None:
        read = [ev[1] for ev in r.events('read')]
        want_read = [t for t in targets if t != '<stdin>']
        if read != want_read:
            missing = [t for t in want_read if t not in read]
            if missing:
                P.append(Problem('selection', label, 'selected sources %s are not minified' % missing[:3]))
            elif sorted(read) == sorted(want_read):
                P.append(Problem('selection', label, 'sources are processed in the order %s, expected %s' % (read[:4], want_read[:4])))
    for ev in r.events('walk'):
        if ev[2] is not True:
            P.append(Problem('selection', label, 'directory %s is walked without following symlinked directories' % ev[1]))
    # ---- order: the destination is opened for writing only after minify() has answered for that source
    seen_minify = set()
    current_read = None
    for ev in r.trace:
        if ev[0] == 'read':
            current_read = ev[1]
        elif ev[0] == 'read-stdin':
            current_read = '<stdin>'
        elif ev[0] == 'minify-returned':
            seen_minify.add(current_read)
        elif ev[0] == 'open' and isinstance(ev[2], str) and any(ch in ev[2] for ch in 'wax+'):
            owner = ev[1] if in_place else current_read
            if owner not in seen_minify:
                P.append(Problem('order', label, '%s is opened for writing before minify() has returned for %s' % (ev[1], owner)))
    # ---- environment
    for ev in r.events('env'):
        if ev[1] != OVERRIDE:
            P.append(Problem('size', label, 'environment variable %r is consulted' % (ev[1],)))
    return P


def _short(b):
    if isinstance(b, (bytes, str)) and len(b) > 40:
        return b[:37] + (b'...' if isinstance(b, bytes) else '...')
    return b


def report(rep, rule, where, results, clauses, what, ok_text, floor_key):
    """One obligation per scenario group (label before ' ['); problems of the given clauses become violations."""
    groups = {}
    for item in results:
        label, probs = item[0], item[-1]
        g = label.split(' [')[0]
        groups.setdefault(g, [0, []])
        groups[g][0] += 1
        groups[g][1] += [p for p in probs if p.clause in clauses]
    for g, (n, probs) in sorted(groups.items()):
        if probs:
            seen = set()
            for p in probs:
                k = (p.clause, p.text[:80])
                if k in seen or len(seen) >= 3:
                    continue
                seen.add(k)
                rep.violation(rule, where, '%s: %s' % (what, p.label), p.text, key='%s|%s|%s|%s' % (rule, g, p.clause, p.text[:60]))
        else:
            rep.ok(rule, where, '%s: %s (%d scenarios)' % (what, g, n), ok_text, cells=n, key='%s|%s' % (rule, g))
