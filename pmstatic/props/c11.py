"""C11 - output depends only on source, options and interpreter version (effect rules)."""
import ast

from ..astutil import calls, local_defs, single_def
from ..callgraph import CallGraph, Effects, MUTATORS
from ..facts import Facts
from ..model import AnalysisError, Model, src, walk_own

ENTRIES = ['python_minifier.minify', 'python_minifier.unparse', 'python_minifier.awslambda']
ND_MODULES = {'random', 'time', 'datetime', 'uuid', 'secrets', 'threading', 'multiprocessing', 'tempfile', 'socket', 'getpass', 'platform'}
ND_CALLS = {'id', 'hash', 'os.getpid', 'os.urandom', 'os.getcwd', 'os.listdir', 'os.times', 'os.getenv', 'globals', 'locals', 'vars', 'input'}
SET_CTORS = {'set', 'frozenset'}
INSENSITIVE_METHODS = {'add', 'update', 'discard', 'difference_update', 'intersection_update'}

CONTROL = '''
import random
_cache = {}
class K(object):
    shared = []
    def m(self, x):
        self.shared.append(x)
def control_entry(arg, other=None, dflt=[]):
    global _count
    _count = 1
    _cache[arg] = 1
    arg.append(random.random())
    dflt.append(1)
    K().m(arg)
    s = set()
    out = []
    for x in s:
        out.append(x)
    return out
'''


def run(model, rep):
    rep.explanation = ('Effect analysis over the receiver-sensitive call graph rooted at minify / unparse / awslambda: (MUT) no in-place mutation of a value that '
                       'may still be the caller\'s argument object, followed through callee summaries; (GLOB) no write to module- or class-level state, no mutated '
                       'mutable default; (ORDR) values typed as sets are consumed only order-insensitively (membership, all/any, loops that only add to sets / pin / '
                       'raise) or sorted first; (ND) no nondeterminism source (random, time, id, hash outside __hash__, environment) is reachable. A synthetic control '
                       'module analysed on every run proves the zero-expected rules can fire. Not decided: interleavings of truly concurrent calls beyond the absence '
                       'of shared writable state.')
    for r, t in [('C11.MUT', 'no parameter of an API entry point is mutated in place while it may still alias the caller\'s object (transitively)'),
                 ('C11.GLOB', 'no reachable function writes module/class level state or mutates a mutable default argument'),
                 ('C11.ORDR', 'set-typed values are iterated only by order-insensitive consumers'),
                 ('C11.ND', 'no nondeterminism source reachable from the API')]:
        rep.rule(r, t)
    decide(model, rep, ENTRIES, control=False)
    # positive control: the same machinery on a synthetic module must report every planted effect
    overlay = dict(model.overlay)
    overlay['src/python_minifier/_pmstatic_control.py'] = CONTROL
    cm = Model(root=model.root, overlay=overlay)
    from ..report import Report
    crep = Report('C11', rep.tier)
    decide(cm, crep, ['python_minifier._pmstatic_control.control_entry'], control=True)
    got = {o.rule for o in crep.violations()}
    want = {'C11.MUT', 'C11.GLOB', 'C11.ORDR', 'C11.ND'}
    if not want <= got:
        raise AnalysisError('positive control: planted effects not reported for rules %s' % sorted(want - got))
    rep.ok('C11.GLOB', 'synthetic control', 'control module with planted global write / shared class list / mutated default / argument mutation / set-order leak / random',
           'all %d planted effect kinds are reported by the same machinery' % len(want), key='C11|control', trivial=True)


def arguments_unchanged(model, rep):
    """End to end: the real minify() evaluated with an options object and preserve lists the caller keeps; afterwards they are what they were."""
    from ..absnodes import public_value
    from ..minrun import Lazy, annotation_options, minify_tree
    from .transform_e2e import ann_probe
    mi = model.func('python_minifier.minify')
    fields = ('remove_variable_annotations', 'remove_return_annotations', 'remove_argument_annotations', 'remove_class_attribute_annotations')
    source = ann_probe() + 'def uses(first_value, second_value):\n    kept_local = first_value\n    return kept_local, second_value, kept_local\n__all__ = ["uses"]\n'
    for bits in ((True, True, True, True), (False, False, False, True), (True, False, True, False)):
        box = []
        inner = annotation_options(model, **dict(zip(fields, bits)))
        opt = Lazy(lambda I, _f=inner.fn: (box.append(_f(I)), box[-1])[1], inner.label)
        locals_, globals_ = ['kept_local', 'T'], ['uses']
        kind, out, _m = minify_tree(model, source, {'remove_annotations': opt, 'preserve_locals': locals_, 'preserve_globals': globals_, 'rename_locals': True, 'rename_globals': True,
                                                    'hoist_literals': True, 'combine_imports': True, 'remove_pass': True})
        label = 'minify(remove_annotations=%s, preserve_locals=[...], preserve_globals=[...])' % inner.label
        if kind != 'ok':
            rep.violation('C11.MUT', mi.loc(), label, 'minify raises %s' % (out,), key='C11.MUT|e2e|%s' % (bits,))
            continue
        after = tuple(public_value(model, box[0], f) for f in fields) if box else None
        problems = []
        if after != bits:
            problems.append('the options object comes back as %s, was %s' % (dict(zip(fields, after or ())), dict(zip(fields, bits))))
        if locals_ != ['kept_local', 'T'] or globals_ != ['uses']:
            problems.append('the preserve lists come back as %r / %r' % (locals_, globals_))
        rep.check(not problems, 'C11.MUT', mi.loc(), label + ' on a module with nested protected classes and a literal __all__', 'the caller\'s objects are unchanged after the call',
                  '; '.join(problems) + ': a later call that reuses them behaves differently', key='C11.MUT|e2e|%s' % (bits,))


def decide(model, rep, entries, control=False):
    cg = CallGraph(model)
    E = Effects(model, cg)
    reach = cg.reachable(entries, with_recv=True)
    quals = sorted({q for (q, _r) in reach})
    rep.count('reachable_functions', len(quals))
    rep.count('entries', entries)

    # ---------------- MUT
    for e in entries:
        fi = model.func(e)
        S = E.summary(fi)
        for p in fi.params:
            sites = S.sites.get('mut:' + p, [])
            own_sites = [s for s in sites if s[0] == fi.qual]
            if p in S.mut:
                for s in (own_sites or sites)[:4]:
                    rep.violation('C11.MUT', '%s:%d' % (fi.path, s[1]), '%s: %s' % (fi.name, s[2]),
                                  'argument %r of %s() is mutated in place while it may still be the caller\'s object' % (p, fi.name), key='C11.MUT|%s|%s|%s' % (fi.name, p, s[2]))
            else:
                rep.ok('C11.MUT', fi.loc(), '%s(%s)' % (fi.name, p), 'not mutated (callee summaries followed)', key='C11.MUT|%s|%s' % (fi.name, p))
    if not control:
        arguments_unchanged(model, rep)
        rep.floor('C11.MUT', 23)

    # ---------------- GLOB
    n_glob = 0
    for q in quals:
        fi = model.funcs[q]
        S = E.local(fi, None)
        for g in sorted(S.globals_w):
            for s in S.sites.get('global:' + g, [])[:2]:
                n_glob += 1
                rep.violation('C11.GLOB', '%s:%d' % (fi.path, s[1]), s[2], 'module/class level state %r is written by a function reachable from the API: a call can influence later calls' % g,
                              key='C11.GLOB|%s|%s' % (q, g))
        # mutable defaults that are mutated
        for p, d in fi.defaults().items():
            if isinstance(d, (ast.List, ast.Dict, ast.Set, ast.Call, ast.ListComp, ast.DictComp, ast.SetComp)):
                if p in E.summary(fi).mut:
                    n_glob += 1
                    rep.violation('C11.GLOB', fi.loc(), '%s(%s=%s)' % (fi.name, p, src(d)), 'shared default argument object is mutated', key='C11.GLOB|default|%s|%s' % (q, p))
                else:
                    rep.ok('C11.GLOB', fi.loc(), '%s(%s=%s)' % (fi.name, p, src(d)), 'shared default object is never mutated', key='C11.GLOB|default|%s|%s' % (q, p))
    # class-level mutable attributes mutated through self
    for cq, ci in model.classes.items():
        shared = {}
        for n in ci.node.body:
            if isinstance(n, ast.Assign) and len(n.targets) == 1 and isinstance(n.targets[0], ast.Name) and isinstance(n.value, (ast.List, ast.Dict, ast.Set, ast.Call)):
                shared[n.targets[0].id] = n
        if not shared:
            continue
        inst_assigned = set()
        for fi in model.methods(cq, own_only=False).values():
            for n in walk_own(fi.node):
                if isinstance(n, ast.Attribute) and isinstance(n.ctx, ast.Store) and isinstance(n.value, ast.Name) and n.value.id == 'self':
                    inst_assigned.add(n.attr)
        for fi in model.methods(cq).values():
            if fi.qual not in quals:
                continue
            for c in calls(fi.node):
                if isinstance(c.func, ast.Attribute) and c.func.attr in MUTATORS and isinstance(c.func.value, ast.Attribute) and \
                        isinstance(c.func.value.value, ast.Name) and c.func.value.value.id in ('self', 'cls') and c.func.value.attr in shared and c.func.value.attr not in inst_assigned:
                    n_glob += 1
                    rep.violation('C11.GLOB', fi.loc(c), src(c), 'class-level mutable attribute %s.%s is mutated through the instance: state shared between calls' % (ci.name, c.func.value.attr),
                                  key='C11.GLOB|classattr|%s.%s' % (cq, c.func.value.attr))
    rep.ok('C11.GLOB', 'src/python_minifier', 'scan of %d reachable functions' % len(quals), '%d writes to shared state' % n_glob, cells=len(quals), key='C11.GLOB|scan')
    shared_escape(model, rep, cg, quals, control)

    # ---------------- ND
    n_nd = 0
    for q in quals:
        fi = model.funcs[q]
        for c in calls(fi.node):
            t = src(c.func)
            root = t.split('.')[0]
            base_mod = model.imports.get(fi.module, {}).get(root, root if root in ND_MODULES else None)
            bad = None
            if base_mod and base_mod.split('.')[0] in ND_MODULES and root not in cg.defs(fi):
                bad = t
            elif t in ND_CALLS and t not in cg.defs(fi):
                if t == 'hash' and fi.name == '__hash__':
                    continue
                bad = t
            if bad:
                n_nd += 1
                rep.violation('C11.ND', fi.loc(c), src(c)[:80], 'nondeterminism source %s is reachable from the API (%s)' % (bad, ' -> '.join(cg.paths_to(entries, q, 1)[0][-3:]) if cg.paths_to(entries, q, 1) else q),
                              key='C11.ND|%s|%s' % (q, bad))
        for n in walk_own(fi.node):
            if isinstance(n, ast.Attribute) and src(n) in ('os.environ', 'sys.argv', 'sys.flags', 'sys.hash_info'):
                n_nd += 1
                rep.violation('C11.ND', fi.loc(n), src(n), 'process state read on the API path', key='C11.ND|%s|%s' % (q, src(n)))
    rep.ok('C11.ND', 'src/python_minifier', 'scan of %d reachable functions' % len(quals), '%d nondeterminism sources reachable' % n_nd, cells=len(quals), key='C11.ND|scan')

    # ---------------- ORDR
    order_rule(model, rep, cg, E, quals, control)


# ---------------------------------------------------------------------- shared mutable objects must not leave their module-level name
READ_ONLY_BUILTINS = {'len', 'sorted', 'set', 'frozenset', 'tuple', 'list', 'dict', 'sum', 'min', 'max', 'any', 'all', 'enumerate', 'zip', 'isinstance', 'issubclass', 'repr', 'str', 'bool', 'reversed', 'filter', 'map'}
READ_ONLY_METHODS = {'get', 'items', 'keys', 'values', 'index', 'count', 'copy', 'join', 'format', 'startswith', 'endswith', 'union', 'intersection', 'difference', 'issubset', 'issuperset', 'isdisjoint',
                     'match', 'search', 'fullmatch', 'sub', 'split', 'findall', 'finditer', 'encode', 'decode', 'lower', 'upper', 'strip', 'replace', '__contains__'}
IMMUTABLE_CALLS = {'frozenset', 'tuple', 'object', 'str', 'bytes', 'int', 'float', 're.compile', 'namedtuple', 'collections.namedtuple', 'property', 'staticmethod', 'classmethod'}


def _stateless_class(model, module, func_expr):
    """The called name is a class of the package none of whose methods stores anything on self (a sentinel / marker object)."""
    q = model.resolve_expr(module, func_expr) if model is not None else None
    if q not in model.classes:
        return False
    for k in model.mro(q):
        for fq, fi in model.funcs.items():
            if fi.cls == k:
                for n in ast.walk(fi.node):
                    if isinstance(n, ast.Attribute) and isinstance(n.ctx, (ast.Store, ast.Del)) and isinstance(n.value, ast.Name) and n.value.id == 'self':
                        return False
    return True


def _mutable_value(v, model=None, module=None):
    if isinstance(v, (ast.List, ast.Dict, ast.Set, ast.ListComp, ast.DictComp, ast.SetComp, ast.GeneratorExp)):
        return True
    if isinstance(v, ast.Call):
        if src(v.func) in IMMUTABLE_CALLS or src(v.func) == 'type':
            return False
        if model is not None and module is not None and _stateless_class(model, module, v.func):
            return False
        return True
    if isinstance(v, ast.BinOp):
        return _mutable_value(v.left, model, module) or _mutable_value(v.right, model, module)
    return False


def _use_is_read_only(model, cg, fi, n, parent, depth=0):
    """The occurrence n (a Name load) of a shared object inside function fi only reads the object in place."""
    p = parent.get(id(n))
    if isinstance(p, (ast.For, ast.AsyncFor, ast.comprehension)) and p.iter is n:
        return True
    if isinstance(p, ast.Call) and p.func is n:
        return True        # a callable made at import time (a predicate built by a factory) is called, not shared
    if isinstance(p, ast.Compare) and (n in p.comparators or p.left is n):
        return True
    if isinstance(p, ast.Subscript) and p.value is n and isinstance(p.ctx, ast.Load):
        return True
    if isinstance(p, ast.Call) and (n in p.args or any(k.value is n for k in p.keywords)) and src(p.func) in READ_ONLY_BUILTINS:
        return True
    if isinstance(p, ast.Starred) and isinstance(parent.get(id(p)), ast.Call):
        return True
    if isinstance(p, ast.Attribute) and p.value is n and isinstance(parent.get(id(p)), ast.Call) and parent[id(p)].func is p and p.attr in READ_ONLY_METHODS:
        return True
    if isinstance(p, ast.Attribute) and p.value is n and isinstance(parent.get(id(p)), ast.Call) and parent[id(p)].func is p:
        # a method of an instance of a package class made at import time: fine when that method (and what it calls on self) never changes the object
        v = model.module_assigns.get(fi.module, {}).get(n.id)
        if v is None:
            t_ = model.imports.get(fi.module, {}).get(n.id)
            if t_ and '.' in t_:
                v = model.module_assigns.get(t_.rsplit('.', 1)[0], {}).get(t_.rsplit('.', 1)[1])
                mod_ = t_.rsplit('.', 1)[0]
            else:
                mod_ = fi.module
        else:
            mod_ = fi.module
        if isinstance(v, ast.Call):
            cq = model.resolve_expr(mod_, v.func)
            if cq in model.classes and _method_read_only(model, cq, p.attr, set()):
                return True
    if isinstance(p, ast.Call) and isinstance(p.func, ast.Attribute) and p.func.attr == 'join' and n in p.args:
        return True
    if isinstance(p, (ast.BinOp, ast.BoolOp, ast.UnaryOp)) or (isinstance(p, ast.IfExp) and p.test is n):
        return True
    if isinstance(p, ast.Tuple) and isinstance(parent.get(id(p)), ast.Call) and src(parent[id(p)].func) in ('isinstance', 'issubclass'):
        return True
    if isinstance(p, ast.Call) and n in p.args and depth < 3:
        # handed to a function of the package: read-only if that function only reads the parameter in place
        callees = [t for (t, _rc) in cg.resolve_call(fi, fi.cls, p)]
        idx = p.args.index(n)
        ok_all = bool(callees)
        for cf in callees:
            if cf is None:
                ok_all = False
                break
            params = list(cf.positional)
            if cf.cls is not None and params and params[0] in ('self', 'cls') and isinstance(p.func, ast.Attribute):
                params = params[1:]
            if idx >= len(params):
                ok_all = False
                break
            if not _param_read_only(model, cg, cf, params[idx], depth + 1):
                ok_all = False
                break
        return ok_all
    return False


def _method_read_only(model, cq, name, seen):
    """Method `name` of class cq, and every method it calls on self, stores nothing on self and calls no mutator on an attribute of self."""
    if (cq, name) in seen:
        return True
    seen.add((cq, name))
    fi = model.method(cq, name)
    if fi is None:
        return False
    for x in ast.walk(fi.node):
        if isinstance(x, ast.Attribute) and isinstance(x.ctx, (ast.Store, ast.Del)) and isinstance(x.value, ast.Name) and x.value.id == 'self':
            return False
        if isinstance(x, ast.Subscript) and isinstance(x.ctx, (ast.Store, ast.Del)) and isinstance(x.value, ast.Attribute) and isinstance(x.value.value, ast.Name) and x.value.value.id == 'self':
            return False
        if isinstance(x, ast.Call) and isinstance(x.func, ast.Attribute):
            recv = x.func.value
            if isinstance(recv, ast.Attribute) and isinstance(recv.value, ast.Name) and recv.value.id == 'self' and x.func.attr in MUTATORS:
                return False
            if isinstance(recv, ast.Name) and recv.id == 'self' and not _method_read_only(model, cq, x.func.attr, seen):
                return False
    return True


def _param_read_only(model, cg, fi, param, depth):
    parent = {}
    for x in ast.walk(fi.node):
        for c in ast.iter_child_nodes(x):
            parent[id(c)] = x
    for x in walk_own(fi.node):
        if isinstance(x, ast.Name) and x.id == param:
            if not isinstance(x.ctx, ast.Load):
                return False
            if not _use_is_read_only(model, cg, fi, x, parent, depth):
                return False
    return True


def shared_escape(model, rep, cg, quals, control):
    """A mutable object created at module level (list / dict / set display, the result of a call - an instance, a generator) lives as long as the
    process. Functions reachable from the API may only *read* it in place: iterate, test membership, index, hand it to a read-only builtin. Any
    other use - stored into an attribute or a variable, returned, passed on, advanced with next(), mutated - lets one call see what another
    call (or another thread) left there."""
    n_sites = 0
    for q in quals:
        fi = model.funcs[q]
        shared = {}
        for name, v in model.module_assigns.get(fi.module, {}).items():
            if _mutable_value(v, model, fi.module):
                shared[name] = (fi.module, v)
        for name, target in model.imports.get(fi.module, {}).items():
            if target and '.' in target:
                m_, n_ = target.rsplit('.', 1)
                v = model.module_assigns.get(m_, {}).get(n_)
                if v is not None and _mutable_value(v, model, m_):
                    shared[name] = (m_, v)
        if not shared:
            continue
        local = set(cg.defs(fi)) | set(fi.params)
        parent = {}
        for n in ast.walk(fi.node):
            for c in ast.iter_child_nodes(n):
                parent[id(c)] = n
        for n in walk_own(fi.node):
            if not (isinstance(n, ast.Name) and isinstance(n.ctx, ast.Load) and n.id in shared and n.id not in local):
                continue
            p = parent.get(id(n))
            ok = _use_is_read_only(model, cg, fi, n, parent)
            n_sites += 1
            if not ok:
                m_, v = shared[n.id]
                use = src(p)[:70] if p is not None else n.id
                rep.violation('C11.GLOB', fi.loc(n), '%s in `%s`' % (n.id, use),
                              'the module-level object %s (%s, created once per process by `%s`) leaves its name here: it is stored, returned, passed on, advanced or mutated, so that calls '
                              '(and threads) share its state' % (n.id, m_, src(v)[:50]), key='C11.GLOB|escape|%s|%s' % (q, n.id))
    rep.ok('C11.GLOB', 'src/python_minifier', 'uses of module-level mutable objects in reachable functions: %d' % n_sites, 'all read-only in place', cells=max(n_sites, 1), key='C11.GLOB|escape-scan')


# ---------------------------------------------------------------------- set typing and order-insensitive consumption
def is_set_expr(e, set_attrs, set_funcs, set_locals, model=None, mod=None):
    if isinstance(e, (ast.Set, ast.SetComp)):
        return True
    if isinstance(e, ast.Call):
        t = src(e.func)
        if t in SET_CTORS:
            return True
        if isinstance(e.func, ast.Name) and e.func.id in set_funcs:
            return True
        if isinstance(e.func, ast.Attribute) and e.func.attr in ('union', 'intersection', 'difference', 'symmetric_difference', 'copy') and \
                is_set_expr(e.func.value, set_attrs, set_funcs, set_locals):
            return True
        return False
    if isinstance(e, ast.Attribute):
        return e.attr in set_attrs
    if isinstance(e, ast.Name):
        return e.id in set_locals
    if isinstance(e, ast.BinOp) and isinstance(e.op, (ast.BitOr, ast.BitAnd, ast.Sub, ast.BitXor)):
        return is_set_expr(e.left, set_attrs, set_funcs, set_locals) or is_set_expr(e.right, set_attrs, set_funcs, set_locals)
    return False


def order_rule(model, rep, cg, E, quals, control):
    # set-typed attributes: assigned a set somewhere in the package
    set_attrs = set()
    for rel, tree in model.trees.items():
        for n in ast.walk(tree):
            if isinstance(n, ast.Assign):
                for t in n.targets:
                    if isinstance(t, ast.Attribute) and is_set_expr(n.value, (), (), ()):
                        set_attrs.add(t.attr)
    # functions returning sets, parameters receiving sets: iterate typing to a fix-point
    set_funcs = set()
    set_params = {}  # qual -> set of param names
    for _ in range(4):
        changed = False
        for q in quals:
            fi = model.funcs[q]
            sl = set_locals_of(fi, set_attrs, set_funcs, set_params.get(q, set()))
            rets = [n for n in walk_own(fi.node) if isinstance(n, ast.Return) and n.value is not None]
            if rets and all(is_set_expr(r.value, set_attrs, set_funcs, sl) for r in rets) and fi.name not in set_funcs:
                set_funcs.add(fi.name)
                changed = True
            for (call, t, rc) in cg.callees(fi, None):
                if not isinstance(call, ast.Call):
                    continue
                pos = t.positional
                for i, a in enumerate(call.args):
                    if i < len(pos) and is_set_expr(a, set_attrs, set_funcs, sl):
                        if pos[i] not in set_params.setdefault(t.qual, set()):
                            set_params[t.qual].add(pos[i])
                            changed = True
                for kw in call.keywords:
                    if kw.arg and is_set_expr(kw.value, set_attrs, set_funcs, sl) and kw.arg in t.params:
                        if kw.arg not in set_params.setdefault(t.qual, set()):
                            set_params[t.qual].add(kw.arg)
                            changed = True
        if not changed:
            break
    rep.count('set_typed_attributes', sorted(set_attrs))
    rep.count('set_returning_functions', sorted(set_funcs))
    n_sites = 0
    for q in quals:
        fi = model.funcs[q]
        sl = set_locals_of(fi, set_attrs, set_funcs, set_params.get(q, set()))
        isset = lambda e: is_set_expr(e, set_attrs, set_funcs, sl)
        for n in walk_own(fi.node):
            site = None
            if isinstance(n, (ast.For, ast.AsyncFor)) and isset(n.iter):
                site = ('for', n)
            elif isinstance(n, (ast.ListComp, ast.GeneratorExp, ast.DictComp)) and any(isset(g.iter) for g in n.generators):
                site = ('comp', n)
            elif isinstance(n, ast.Call):
                t = src(n.func)
                if t in ('list', 'tuple', 'enumerate', 'iter', 'next', 'zip', 'map', 'filter', 'reversed') and n.args and any(isset(a) for a in n.args):
                    site = ('conv', n)
                elif isinstance(n.func, ast.Attribute) and n.func.attr in ('extend', 'join', 'writelines') and n.args and isset(n.args[0]):
                    site = ('extend', n)
                elif isinstance(n.func, ast.Attribute) and n.func.attr == 'pop' and not n.args and isset(n.func.value):
                    site = ('pop', n)
            elif isinstance(n, ast.AugAssign) and isinstance(n.op, ast.Add) and isset(n.value):
                site = ('extend', n)
            elif isinstance(n, ast.Starred) and isset(n.value):
                site = ('conv', n)
            if site is None:
                continue
            n_sites += 1
            kind, node = site
            ok, why = consumer_ok(model, cg, E, fi, kind, node, isset)
            rep.check(ok, 'C11.ORDR', fi.loc(node), src(node).split('\n')[0][:90], why, 'hash-ordered iteration reaches an order-sensitive consumer: ' + why,
                      key='C11.ORDR|%s|%s' % (q, src(node).split('\n')[0][:90]))
    if not control:
        rep.floor('C11.ORDR', 3)


def set_locals_of(fi, set_attrs, set_funcs, params):
    sl = set(params)
    defs = local_defs(fi.node)
    for _ in range(3):
        for name, ds in defs.items():
            vals = [d for d in ds if isinstance(d, ast.AST)]
            if vals and len(vals) == len(ds) and all(is_set_expr(v, set_attrs, set_funcs, sl) for v in vals):
                sl.add(name)
    return sl


def body_insensitive(model, cg, fi, body, loopvars, depth=0, E=None):
    """Is a loop body an order-insensitive consumer?  Returns (bool, reason)."""
    for s in body:
        for n in [s] + [x for x in ast.walk(s) if x is not s]:
            if E is not None and isinstance(n, ast.Call):
                for (t, rc) in cg.resolve_call(fi, None, n):
                    if t.node is fi.node:
                        continue
                    cs = E.summary(t, rc)
                    if cs.seq_add:
                        return False, 'calls %s, which appends to the ordered container(s) %s: their element order follows the hash order' % (t.name, sorted(cs.seq_add)[:3])
            if isinstance(n, (ast.Yield, ast.YieldFrom)):
                # the order is handed on to whoever iterates this generator: fine when every such loop is itself an order-insensitive consumer
                ok_, why_ = _generator_consumers_insensitive(model, cg, fi, depth, E)
                if ok_ is None:
                    raise AnalysisError('UNDECIDED: %s yields elements in hash order and this rule cannot follow where they go (%s)' % (fi.qual, why_))
                if not ok_:
                    return False, 'yields inside the loop (%s)' % why_
                continue
            if isinstance(n, ast.Break):
                return False, 'break selects the first element in hash order'
            if isinstance(n, ast.Return) and n.value is not None and not isinstance(n.value, ast.Constant):
                return False, 'returns a value chosen by iteration order'
            if isinstance(n, ast.AugAssign) and not isinstance(n.op, (ast.BitOr, ast.BitAnd)):
                return False, 'accumulates with %s in iteration order' % type(n.op).__name__
            if isinstance(n, ast.Assign):
                for t in n.targets:
                    if isinstance(t, ast.Name) and t.id not in loopvars and not isinstance(n.value, ast.Constant):
                        # assignment to a variable that outlives the iteration: last writer wins
                        used_after = True
                        return False, 'assigns %s from the loop (last element in hash order wins)' % t.id
            if isinstance(n, ast.Call) and isinstance(n.func, ast.Attribute) and n.func.attr in ('append', 'extend', 'insert', 'write', 'appendleft'):
                return False, 'appends to a sequence in iteration order (%s)' % src(n)[:50]
    return True, 'loop body only adds to sets, pins, tests or raises'


def _generator_consumers_insensitive(model, cg, gen_fi, depth, E):
    if depth > 3:
        return None, 'generator chain too deep'
    found = 0
    for q, g in model.funcs.items():
        parent = None
        for n in walk_own(g.node):
            if isinstance(n, ast.Call) and any(t is gen_fi or (t is not None and t.node is gen_fi.node) for (t, _rc) in cg.resolve_call(g, g.cls, n)):
                found += 1
                if parent is None:
                    parent = {}
                    for x in ast.walk(g.node):
                        for c in ast.iter_child_nodes(x):
                            parent[id(c)] = x
                p = parent.get(id(n))
                if isinstance(p, (ast.For, ast.AsyncFor)) and p.iter is n:
                    lv = {x.id for x in ast.walk(p.target) if isinstance(x, ast.Name)}
                    ok_, why_ = body_insensitive(model, cg, g, p.body, lv, depth + 1, E)
                    if not ok_:
                        return False, 'consumed by %s: %s' % (g.qual, why_)
                elif isinstance(p, ast.Call) and src(p.func) in ('set', 'frozenset', 'any', 'all', 'sum', 'len', 'sorted', 'min', 'max'):
                    pass
                elif isinstance(p, ast.Call) and isinstance(p.func, ast.Attribute) and p.func.attr in ('append', 'extend') and depth < 3:
                    # pushed on a work list (an explicit stack of iterators): judged where the stack is drained - conservatively order-sensitive
                    return None, 'stored by %s' % g.qual
                else:
                    return None, 'consumed by %s through %s' % (g.qual, src(p)[:40] if p is not None else '?')
    if not found:
        return None, 'no consumer found'
    return True, ''


def consumer_ok(model, cg, E, fi, kind, node, isset):
    if kind == 'for':
        lv = {x.id for x in ast.walk(node.target) if isinstance(x, ast.Name)}
        # loop-local temporaries are fine
        for x in ast.walk(ast.Module(body=node.body, type_ignores=[])):
            if isinstance(x, ast.Assign):
                pass
        locals_in_body = {t.id for x in ast.walk(ast.Module(body=node.body, type_ignores=[])) if isinstance(x, ast.Assign) for t in x.targets if isinstance(t, ast.Name)}
        # a name assigned in the body and never used after the loop is a temporary
        after_use = set()
        seen_loop = False
        for x in walk_own(fi.node):
            if x is node:
                seen_loop = True
        end = getattr(node, 'end_lineno', node.lineno)
        for x in walk_own(fi.node):
            if isinstance(x, ast.Name) and isinstance(x.ctx, ast.Load) and getattr(x, 'lineno', 0) > end:
                after_use.add(x.id)
        temps = locals_in_body - after_use
        return body_insensitive(model, cg, fi, node.body, lv | temps, E=E)
    if kind == 'comp':
        par = model.parent(node)
        if isinstance(par, ast.Call) and src(par.func) in ('all', 'any', 'set', 'frozenset', 'sum', 'len', 'sorted', 'min', 'max'):
            return True, 'reduced by %s()' % src(par.func)
        if isinstance(node, ast.GeneratorExp) or isinstance(node, ast.ListComp):
            return False, 'comprehension materialises hash order (%s)' % type(node).__name__
        return False, 'comprehension over a set'
    if kind == 'conv':
        par = model.parent(node)
        t = src(node.func) if isinstance(node, ast.Call) else 'star-unpack'
        if isinstance(par, ast.Call) and src(par.func) in ('sorted', 'set', 'frozenset', 'len', 'sum', 'all', 'any', 'min', 'max'):
            return True, 'wrapped in %s()' % src(par.func)
        return False, '%s() materialises hash order' % t
    if kind == 'pop':
        return False, 'set.pop() returns an arbitrary element'
    if kind == 'extend':
        # the receiving list: are all its later uses membership tests / order-insensitive callee parameters, and is it invisible to the caller?
        tgt = node.func.value if isinstance(node, ast.Call) else node.target
        if not isinstance(tgt, ast.Name):
            return False, 'hash-ordered elements appended to %s' % src(tgt)
        name = tgt.id
        if name in fi.params:
            F = Facts(fi.node)
            st = node
            while st is not None and not isinstance(st, ast.stmt):
                st = model.parent(st)
            facts = F.facts_at(st)
            if facts is not None and ('<assigned:%s>' % name, True) not in facts:
                return False, 'hash-ordered elements are appended to the caller\'s list argument %r' % name
        ok, why = uses_insensitive(model, cg, fi, name, set(), 0)
        return ok, why
    return False, 'unclassified consumer'


def uses_insensitive(model, cg, fi, name, seen, depth):
    if (fi.qual, name) in seen or depth > 4:
        return True, 'recursive use'
    seen.add((fi.qual, name))
    for n in walk_own(fi.node):
        if isinstance(n, ast.Name) and n.id == name and isinstance(n.ctx, ast.Load):
            par = model.parent(n)
            if isinstance(par, ast.Compare) and any(isinstance(o, (ast.In, ast.NotIn)) for o in par.ops) and n in par.comparators:
                continue
            if isinstance(par, ast.Attribute) and par.attr in ('extend', 'append', 'add', 'update') and isinstance(model.parent(par), ast.Call):
                continue
            if isinstance(par, ast.Compare) and isinstance(par.ops[0], (ast.Is, ast.IsNot)):
                continue
            if isinstance(par, ast.Call) and src(par.func) in ('isinstance', 'len', 'sorted', 'set', 'frozenset', 'list'):
                if src(par.func) == 'list':
                    return False, 'copied in hash order by list()'
                continue
            if isinstance(par, (ast.Call, ast.keyword)):
                call = par if isinstance(par, ast.Call) else model.parent(par)
                targets = cg.resolve_call(fi, None, call)
                if not targets:
                    return False, '%s escapes to an unresolved call %s' % (name, src(call)[:50])
                for (t, rc) in targets:
                    pname = None
                    if isinstance(par, ast.keyword):
                        pname = par.arg
                    else:
                        idx = call.args.index(n) if n in call.args else None
                        pos = t.positional
                        if idx is not None and idx < len(pos):
                            pname = pos[idx]
                    if pname is None:
                        return False, '%s passed to %s in an unknown position' % (name, t.qual)
                    ok, why = uses_insensitive(model, cg, t, pname, seen, depth + 1)
                    if not ok:
                        return False, 'via %s(%s): %s' % (t.name, pname, why)
                continue
            if isinstance(par, (ast.For, ast.AsyncFor)) and par.iter is n:
                lv = {x.id for x in ast.walk(par.target) if isinstance(x, ast.Name)}
                ok, why = body_insensitive(model, cg, fi, par.body, lv)
                if not ok:
                    return False, 'list %s iterated: %s' % (name, why)
                continue
            if isinstance(par, ast.Assign) and par.value is n:
                continue  # alias; conservatively accepted (aliases inside one function keep the same uses)
            return False, '%s used order-sensitively in %s' % (name, src(par)[:60])
    return True, 'every use of %s is a membership test or an order-insensitive consumer' % name
