"""Literal hoisting evaluated end to end (C06.E2E).

A probe module is taken through the namespace mapper, the binder, the resolver, both permission gates with renaming *off* (so that only the
aliases the hoister introduces can get names), `rename_literals` and `rename` - all run by the abstract interpreter - and printed by the
repository's printer. The output is parsed and *de-hoisted* by the checker: every statement `NAME = <constant>` whose NAME does not occur in the
original program is removed and every load of NAME is replaced by that constant. The result must be exactly the original tree. On the way:
each alias is assigned exactly once, in a function or module body (never a class body), before its first use and after the docstring /
__future__ imports; literals that must not be hoisted (docstrings, f-string text, match patterns, __slots__) are untouched.
"""
import ast
import builtins
import copy

from ..absint import Interp, Obj
from ..model import AnalysisError

R = 'python_minifier.rename.'
MAPPER = R + 'mapper'

PROBES = {
    'repeated string in nested functions': '''
"""module docstring, module docstring, module docstring"""
from __future__ import print_function
def outer():
    """docstring of outer"""
    a = 'a long literal value'
    def inner(p='a long literal value'):
        return 'a long literal value', p
    return a, inner, 'a long literal value'
def other():
    return 'a long literal value' + 'a long literal value'
''',
    'literal that occurs only in a keyword-only default and in the body': '''
def outer():
    def inner(a, b='only in a default and the body', *, key='only in a keyword default and the body'):
        return key, 'only in a keyword default and the body', 'only in a keyword default and the body', b, 'only in a default and the body'
    return inner
''',
    'class body that binds the first generated names and uses the literal directly': '''
def make_paper_sizes():
    class Paper:
        A = 841
        B = 1000
        C = 1189
        unit = 'millimetres long'
        label = 'millimetres long'
        def describe(self):
            return 'millimetres long', 'millimetres long', self.A
    return Paper, 'millimetres long'
class Sheet:
    _A = 1
    _B = 2
    kind = 'a sheet of paper'
    other = 'a sheet of paper'
    def text(self):
        return 'a sheet of paper', 'a sheet of paper', 'a sheet of paper'
''',
    'bytes, and a literal used at module level too': '''
DATA = b'some binary payload'
def f():
    return b'some binary payload', b'some binary payload', b'some binary payload'
def g(x=b'some binary payload'):
    return x or b'some binary payload'
''',
    'class bodies and lambdas': '''
def make():
    class K:
        """docstring of K"""
        attr = 'repeated class text'
        other = 'repeated class text'
        def m(self, d='repeated class text'):
            return 'repeated class text', 'repeated class text'
    f = lambda v='repeated class text': ('repeated class text', v)
    return K, f, [('repeated class text', i) for i in range(3) if i != 'repeated class text']
''',
    'constants True False None': '''
def flags(a, b):
    x = True
    y = True
    z = [True, True, True, False, False, False, None, None, None, None]
    return x, y, z, (True if a else False), (None if b else True)
''',
    'things that must stay': '''
class S:
    __slots__ = ('slot_name_long', 'slot_name_long')
def h(v):
    match v:
        case 'pattern literal long':
            return f'{v} pattern literal long pattern literal long'
        case 'pattern literal long' | 'other':
            return 'pattern literal long'
    'pattern literal long'
    return 'pattern literal long', 'pattern literal long', 'pattern literal long'
''',
    '__slots__ in every statement form and under compound statements of the class body': '''
import sys
class Direct:
    __slots__ = ('coordinate_x', 'coordinate_y')
    def get(self):
        return getattr(self, 'coordinate_x'), getattr(self, 'coordinate_y'), 'coordinate_x', 'coordinate_y'
class Versioned:
    if sys.version_info >= (3, 8):
        __slots__ = ('coordinate_x', 'coordinate_y', 'cached_value')
    else:
        __slots__ = ('coordinate_x', 'coordinate_y')
    try:
        __slots__ = __slots__ + ('extra_slot_name',)
    except TypeError:
        __slots__ = ('extra_slot_name', 'coordinate_x')
    with sys.stdout:
        __slots__ = ('extra_slot_name', 'cached_value')
class Annotated:
    __slots__: tuple = ('annotated_slot', 'annotated_other')
    def get(self):
        return 'annotated_slot', 'annotated_other', 'annotated_slot', 'annotated_other'
class Augmented(Direct):
    __slots__ = ()
    __slots__ += ('augmented_slot', 'augmented_other')
    def get(self):
        return 'augmented_slot', 'augmented_other', 'augmented_slot', 'augmented_other', 'cached_value', 'extra_slot_name'
class Unpacked:
    __slots__, kind = ('unpacked_slot', 'unpacked_other'), 'unpacked_slot'
    def get(self):
        return 'unpacked_slot', 'unpacked_other', 'unpacked_slot', 'unpacked_other'
def not_a_class():
    __slots__ = ('coordinate_x', 'cached_value')
    return __slots__
''',
    'literals in every kind of pattern, in guards and in case bodies': '''
def route(event, fallback=b'payload bytes long'):
    match event:
        case {'notification_kind': 'created value', 'notification_payload': body}:
            return 'created value', body, 'notification_kind'
        case {'notification_kind': 'deleted value', **others} if others.get('notification_payload') == 'created value':
            return 'deleted value', others, 'notification_payload'
        case ['notification_kind', 'created value', *more] | ('deleted value', *more):
            return more, 'notification_kind', 'deleted value'
        case Point(label='notification_kind', tag=b'payload bytes long') | Point(label='created value'):
            return None
        case str() | bytes() | None | True:
            return True, None, None, None, True, True
        case b'payload bytes long' | 'notification_payload' as whole:
            return whole, b'payload bytes long', 'notification_payload'
    return 'notification_kind', 'notification_payload', 'created value', 'deleted value', b'payload bytes long', fallback
''',
    'numbers are not hoisted, mixed types stay apart': '''
def nums():
    return 123456789, 123456789, 123456789, 1.5, 1.5, 1.5, '1', '1', '1', '1', b'1', b'1', b'1', b'1', 1, True
''',
}


def run_pipeline(model, source, hoist=True):
    """minify() itself, evaluated with only hoist_literals on; the module it hands to the printer is printed by the repository's printer."""
    from ..absprint import print_obj
    from ..minrun import minify_tree
    kind, _tree, mod = minify_tree(model, source, {'hoist_literals': hoist})
    if kind != 'ok':
        raise AnalysisError('UNDECIDED: minify(hoist_literals=%s) on a probe -> %s %s' % (hoist, kind, _tree))
    kind, text = print_obj(model, mod)
    if kind != 'ok':
        raise AnalysisError('UNDECIDED: printing the hoisted probe: %s %s' % (kind, text))
    return text


def dehoist(original_source, text):
    """-> (problems, aliases)"""
    from ..absprint import same_tree
    problems = []
    orig = ast.parse(original_source)
    try:
        out = ast.parse(text)
    except SyntaxError as e:
        return ['the output does not parse: %s' % e], {}
    known = {n.id for n in ast.walk(orig) if isinstance(n, ast.Name)} | {n.arg for n in ast.walk(orig) if isinstance(n, ast.arg)} | \
        {n.name for n in ast.walk(orig) if isinstance(n, (ast.FunctionDef, ast.ClassDef))}
    aliases = {}     # name -> (constant node, owner scope node)

    def scan(scope):
        body = scope.body
        for i, st in enumerate(list(body)):
            if isinstance(st, ast.Assign) and len(st.targets) == 1 and isinstance(st.targets[0], ast.Name) and st.targets[0].id not in known and isinstance(st.value, ast.Constant):
                nm = st.targets[0].id
                if nm in aliases and aliases[nm][1] is not scope:
                    # another scope has an alias of the same spelling (siblings may share a name; a function may shadow an outer one it does not use):
                    # give this scope's alias a spelling of its own so that the rest of the oracle can identify aliases by name
                    fresh = '%s__%d' % (nm, len(aliases))
                    for x in ast.walk(scope):
                        if isinstance(x, ast.Name) and x.id == nm:
                            x.id = fresh
                    nm = fresh
                elif nm in aliases:
                    problems.append('alias %s is assigned more than once' % nm)
                aliases[nm] = (st.value, scope, i)
                if isinstance(scope, ast.ClassDef):
                    problems.append('alias %s is assigned in the body of class %s: it becomes a class attribute, invisible to the methods that use it' % (nm, scope.name))
                before = body[:i]
                allowed_before = all((isinstance(b, ast.Expr) and isinstance(b.value, ast.Constant) and isinstance(b.value.value, str)) or
                                     (isinstance(b, ast.ImportFrom) and b.module == '__future__') or
                                     (isinstance(b, ast.Assign) and isinstance(b.targets[0], ast.Name) and b.targets[0].id in aliases) for b in before)
                if not allowed_before:
                    problems.append('alias %s is assigned after other statements of its scope (%s): a use before that line is unbound' % (nm, type(before[-1]).__name__))
                if isinstance(scope, ast.Module) and not nm.startswith('_'):
                    problems.append('module-level alias %s does not start with an underscore' % nm)
            elif isinstance(st, ast.Assign) and len(st.targets) == 1 and isinstance(st.targets[0], ast.Name) and st.targets[0].id in aliases and aliases[st.targets[0].id][1] is scope:
                problems.append('alias %s is assigned again in the same scope' % st.targets[0].id)
        for st in ast.walk(scope):
            if st is not scope and isinstance(st, (ast.FunctionDef, ast.AsyncFunctionDef, ast.ClassDef)) and _direct_parent_scope(scope, st):
                scan(st)
    scan(out)
    # uses must be inside the scope that owns the alias
    for nm, (value, scope, _i) in aliases.items():
        if isinstance(scope, (ast.FunctionDef, ast.AsyncFunctionDef)):
            # defaults, decorators and annotations of a function are evaluated in the enclosing scope, before the body runs
            inside = {id(n) for st in scope.body for n in ast.walk(st)}
        else:
            inside = {id(n) for n in ast.walk(scope)}
        for n in ast.walk(out):
            if isinstance(n, ast.Name) and n.id == nm and id(n) not in inside:
                problems.append('alias %s is used outside the scope in which it is assigned' % nm)
                break

    # places where a name would mean something else than the literal
    def class_scope_statements(body):
        # every statement that runs in the class scope itself: also inside if / try / with / for / while / match of the class body
        for st in body:
            yield st
            if isinstance(st, (ast.FunctionDef, ast.AsyncFunctionDef, ast.ClassDef)):
                continue
            for f in ('body', 'orelse', 'finalbody', 'handlers', 'cases'):
                sub = getattr(st, f, None)
                if isinstance(sub, list):
                    for x in sub:
                        if isinstance(x, ast.stmt):
                            for y in class_scope_statements([x]):
                                yield y
                        elif hasattr(x, 'body'):
                            for y in class_scope_statements(x.body):
                                yield y
    for n in ast.walk(out):
        if isinstance(n, ast.ClassDef):
            for st in class_scope_statements(n.body):
                if isinstance(st, ast.Assign):
                    targets = st.targets
                elif isinstance(st, (ast.AnnAssign, ast.AugAssign)):
                    targets = [st.target]
                else:
                    continue
                if st.value is not None and any(isinstance(t, ast.Name) and t.id == '__slots__' for tg in targets for t in ast.walk(tg)):
                    used = sorted({x.id for x in ast.walk(st.value) if isinstance(x, ast.Name) and x.id in aliases})
                    if used:
                        problems.append('the strings of %s.__slots__ (%s) are replaced by the aliases %s' % (n.name, type(st).__name__, used))
    for a_, b_ in zip([x for x in ast.walk(orig) if isinstance(x, (ast.FunctionDef, ast.AsyncFunctionDef, ast.ClassDef, ast.Module))],
                      [x for x in ast.walk(out) if isinstance(x, (ast.FunctionDef, ast.AsyncFunctionDef, ast.ClassDef, ast.Module))]):
        if ast.get_docstring(a_, clean=False) != ast.get_docstring(b_, clean=False):
            problems.append('the docstring of %s is no longer the first statement of its body' % getattr(a_, 'name', 'the module'))

    # every use of an alias must resolve to the alias: no scope between the use and the scope that assigns the alias may bind the same name
    # (a class body binds for the statements directly in it, a function for everything below it)
    parents = {}
    for n in ast.walk(out):
        for c in ast.iter_child_nodes(n):
            parents[id(c)] = n

    def binds(scope_node, name):
        if isinstance(scope_node, (ast.FunctionDef, ast.AsyncFunctionDef, ast.Lambda)):
            a = scope_node.args
            if any(p.arg == name for p in a.posonlyargs + a.args + a.kwonlyargs + [x for x in (a.vararg, a.kwarg) if x is not None]):
                return True
        body = scope_node.body if isinstance(scope_node.body, list) else [scope_node.body]
        stack = list(body)
        while stack:
            x = stack.pop()
            if isinstance(x, (ast.FunctionDef, ast.AsyncFunctionDef, ast.ClassDef)):
                if x.name == name:
                    return True
                continue          # names bound inside it belong to it
            if isinstance(x, ast.Lambda):
                continue
            if isinstance(x, ast.Name) and x.id == name and isinstance(x.ctx, (ast.Store, ast.Del)):
                return True
            if isinstance(x, ast.alias) and (x.asname or x.name.split('.')[0]) == name:
                return True
            if isinstance(x, ast.ExceptHandler) and x.name == name:
                return True
            stack.extend(ast.iter_child_nodes(x))
        return False
    for n in ast.walk(out):
        if isinstance(n, ast.Name) and isinstance(n.ctx, ast.Load) and n.id in aliases:
            owner = aliases[n.id][1]
            cur, below_function = parents.get(id(n)), False
            while cur is not None and cur is not owner:
                if isinstance(cur, ast.ClassDef) and not below_function and binds(cur, n.id):
                    problems.append('alias %s is used in the body of class %s, which binds a name %s of its own: the use means the class attribute, not the hoisted constant' % (n.id, cur.name, n.id))
                    break
                if isinstance(cur, (ast.FunctionDef, ast.AsyncFunctionDef, ast.Lambda)):
                    if binds(cur, n.id):
                        problems.append('alias %s is used inside %s, which binds a name %s of its own' % (n.id, getattr(cur, 'name', 'a lambda'), n.id))
                        break
                    below_function = True
                cur = parents.get(id(cur))

    class Back(ast.NodeTransformer):
        def visit_Name(self, n):
            if n.id in aliases and isinstance(n.ctx, ast.Load):
                return copy.deepcopy(aliases[n.id][0])
            return n

        def generic_visit(self, node):
            node = super().generic_visit(node)
            if hasattr(node, 'body') and isinstance(node.body, list):
                node.body = [st for st in node.body if not (isinstance(st, ast.Assign) and isinstance(st.targets[0], ast.Name) and st.targets[0].id in aliases and isinstance(st.value, ast.Constant))]
            return node
    back = ast.fix_missing_locations(Back().visit(copy.deepcopy(out)))
    if not same_tree(orig, back):
        problems.append('after putting the hoisted constants back the program differs from the original: %r' % ast.unparse(back)[:200])
    return problems, aliases


def _direct_parent_scope(scope, node):
    """node is a def/class whose nearest enclosing def/class/module is `scope`."""
    def walk(n, owner):
        for c in ast.iter_child_nodes(n):
            if c is node:
                return owner is scope
            o2 = c if isinstance(c, (ast.FunctionDef, ast.AsyncFunctionDef, ast.ClassDef, ast.Lambda)) else owner
            r = walk(c, o2)
            if r is not None:
                return r
        return None
    return bool(walk(scope, scope))


def run(model, rep, rule='C06.E2E'):
    fi = model.func('python_minifier.minify')
    n_alias = 0
    for label, source in sorted(PROBES.items()):
        try:
            ast.parse(source)
        except SyntaxError:
            rep.note('%s: this interpreter cannot parse the probe %r' % (rule, label))
            continue
        text = run_pipeline(model, source)
        problems, aliases = dehoist(source, text)
        n_alias += len(aliases)
        rep.check(not problems, rule, fi.loc(), 'probe `%s`: %d aliases (%s)' % (label, len(aliases), ', '.join('%s=%s' % (k, ast.unparse(v[0])[:18]) for k, v in sorted(aliases.items()))[:120]),
                  'putting the constants back gives the original program; every alias assigned once, at the top of a function / module body',
                  '; '.join(problems[:3]) + ' -- output: %r' % text[:160], key='%s|%s' % (rule, label))
    rep.sensitive(n_alias >= 5, 'the hoisting probes produced only %d aliases: the enumeration does not reach the hoister' % n_alias)
    rep.floor(rule, 5)
