"""Shared analysis of src/python_minifier/__main__.py for C13-C16 (write sinks, payload provenance, open() calls)."""
import ast
import copy
import re

from ..astutil import calls, expanded_facts, local_defs, kwarg
from ..facts import Facts
from ..model import AnalysisError, src, walk_own

MAIN = 'python_minifier.__main__'
NOT_BENEFICIAL = 'MinificationNotBeneficialError'
WRITE_MODES = set('wax+')


class Sink(object):
    def __init__(self, kind, call, payload, facts, target=None, mode=None, func=None):
        self.kind = kind          # 'file', 'stdout-bytes', 'stdout-text'
        self.call = call
        self.payload = payload    # expr
        self.facts = facts
        self.target = target      # expr of the file path for 'file'
        self.mode = mode
        self.func = func


class MainAnalysis(object):
    def __init__(self, model):
        self.m = model
        self.main = model.func(MAIN + '.main')
        self.do_minify = model.func(MAIN + '.do_minify')
        self.parse_args = model.func(MAIN + '.parse_args')
        self.source_modules = model.func(MAIN + '.source_modules')
        self.exc = model.cls(MAIN + '.' + NOT_BENEFICIAL)
        self.facts = {}
        for fi in (self.main, self.do_minify, self.parse_args, self.source_modules):
            self.facts[fi.qual] = Facts(fi.node)
        self.defs = {fi.qual: local_defs(fi.node) for fi in (self.main, self.do_minify, self.parse_args, self.source_modules)}
        # helper functions of __main__ that write their argument to stdout (followed as wrappers)
        self.stdout_wrappers = {}
        for q, fi in model.funcs.items():
            if fi.module == MAIN and fi.outer is None and fi.cls is None and len(fi.positional) == 1:
                p = fi.positional[0]
                writes = [c for c in calls(fi.node) if isinstance(c.func, ast.Attribute) and c.func.attr == 'write'
                          and src(c.func.value) in ('sys.stdout', 'sys.stdout.buffer') and len(c.args) == 1]
                if writes and all(isinstance(c.args[0], ast.Name) and c.args[0].id == p for c in writes) and \
                        not [d for d in local_defs(fi.node).get(p, []) if d != '<param>']:
                    self.stdout_wrappers[fi.name] = fi

    # ------------------------------------------------------------------
    def open_calls(self, fi):
        """[(call, path expr, mode str or None, with-alias name or None)]"""
        out = []
        for n in walk_own(fi.node):
            if isinstance(n, ast.Call) and isinstance(n.func, ast.Name) and n.func.id == 'open':
                path = n.args[0] if n.args else kwarg(n, 'file')
                mode_e = kwarg(n, 'mode', 1)
                mode = 'r'
                if mode_e is not None:
                    mode = mode_e.value if isinstance(mode_e, ast.Constant) and isinstance(mode_e.value, str) else None
                alias = None
                par = self.m.parent(n)
                if isinstance(par, ast.withitem) and isinstance(par.optional_vars, ast.Name):
                    alias = par.optional_vars.id
                elif isinstance(par, ast.Assign) and len(par.targets) == 1 and isinstance(par.targets[0], ast.Name):
                    alias = par.targets[0].id
                out.append((n, path, mode, alias))
        return out

    def handle_of(self, fi, name, at_node):
        """The open() call that the with-alias `name` refers to at at_node (innermost enclosing with)."""
        cur = self.m.parent(at_node)
        while cur is not None and cur is not fi.node:
            if isinstance(cur, (ast.With, ast.AsyncWith)):
                for it in cur.items:
                    if isinstance(it.optional_vars, ast.Name) and it.optional_vars.id == name:
                        return it.context_expr
            cur = self.m.parent(cur)
        d = self.defs[fi.qual].get(name, [])
        if len(d) == 1 and isinstance(d[0], ast.AST):
            return d[0]
        return None

    def sinks(self, fi):
        F = self.facts[fi.qual]
        out = []
        for n in walk_own(fi.node):
            if not isinstance(n, ast.Call):
                continue
            f = n.func
            if isinstance(f, ast.Attribute) and f.attr in ('write', 'writelines'):
                base = src(f.value)
                if base in ('sys.stdout', 'sys.stdout.buffer', 'sys.__stdout__', 'sys.__stdout__.buffer'):
                    out.append(Sink('stdout-bytes' if base.endswith('.buffer') else 'stdout-text', n, n.args[0] if n.args else None, F.facts_at(n), func=fi))
                elif base in ('sys.stderr', 'sys.stderr.buffer'):
                    continue
                elif isinstance(f.value, ast.Name):
                    h = self.handle_of(fi, f.value.id, n)
                    if isinstance(h, ast.Call) and isinstance(h.func, ast.Name) and h.func.id == 'open':
                        path = h.args[0] if h.args else None
                        mode_e = kwarg(h, 'mode', 1)
                        mode = mode_e.value if isinstance(mode_e, ast.Constant) else ('r' if mode_e is None else None)
                        out.append(Sink('file', n, n.args[0] if n.args else None, F.facts_at(n), target=path, mode=mode, func=fi))
                    else:
                        out.append(Sink('unknown', n, n.args[0] if n.args else None, F.facts_at(n), func=fi))
                else:
                    out.append(Sink('unknown', n, n.args[0] if n.args else None, F.facts_at(n), func=fi))
            elif isinstance(f, ast.Name) and f.id in self.stdout_wrappers:
                out.append(Sink('stdout-bytes', n, n.args[0] if n.args else None, F.facts_at(n), func=fi))
            elif isinstance(f, ast.Name) and f.id == 'print':
                if kwarg(n, 'file') is not None and src(kwarg(n, 'file')).startswith('sys.stderr'):
                    continue
                out.append(Sink('stdout-text', n, n.args[0] if n.args else None, F.facts_at(n), func=fi))
            elif isinstance(f, ast.Attribute) and f.attr in ('write_bytes', 'write_text'):
                out.append(Sink('unknown', n, n.args[0] if n.args else None, F.facts_at(n), func=fi))
        return out

    def classify_payload(self, fi, e):
        """'minified' | 'source' | 'listing' | 'other' + explanation, by reaching definitions in fi."""
        if e is None:
            return 'other', 'no payload'
        if not isinstance(e, ast.Name):
            # path listing: <path var> + '\n'
            if isinstance(e, ast.BinOp) and isinstance(e.op, ast.Add) and isinstance(e.left, ast.Name) and isinstance(e.right, ast.Constant):
                return 'listing', src(e)
            return 'other', 'payload is not a plain variable: ' + src(e)
        ds = self.defs[fi.qual].get(e.id, [])
        if not ds:
            return 'other', 'no definition of %s' % e.id
        kinds = set()
        for d in ds:
            if isinstance(d, ast.Call) and isinstance(d.func, ast.Name) and self.m.resolve_name(fi.module, d.func.id) == self.do_minify.qual:
                kinds.add('minified')
            elif self.is_binary_read(fi, d):
                kinds.add('source')
            else:
                kinds.add('other:' + (src(d) if isinstance(d, ast.AST) else str(d)))
        if len(kinds) == 1:
            k = kinds.pop()
            if k.startswith('other:'):
                return 'other', k[6:]
            return k, ', '.join(src(d) if isinstance(d, ast.AST) else str(d) for d in ds)
        return 'other', 'mixed definitions: ' + ', '.join(sorted(kinds))

    def is_binary_read(self, fi, d):
        """d is `<binary handle>.read()`, or the version switch `sys.stdin.buffer.read() if sys.version_info >= (3,0) else sys.stdin.read()`."""
        if isinstance(d, ast.IfExp):
            t = src(d.test)
            if 'sys.version_info' in t:
                # the arm taken on Python 3 must be the binary read
                arm = d.body if ('>=' in t or '>' in t) else d.orelse
                return self.is_binary_read(fi, arm)
            return self.is_binary_read(fi, d.body) and self.is_binary_read(fi, d.orelse)
        if isinstance(d, ast.Call) and isinstance(d.func, ast.Attribute) and d.func.attr == 'read' and not d.args:
            base = d.func.value
            if src(base) == 'sys.stdin.buffer':
                return True
            if isinstance(base, ast.Name):
                h = self.handle_of(fi, base.id, d)
                if isinstance(h, ast.Call) and isinstance(h.func, ast.Name) and h.func.id == 'open':
                    mode_e = kwarg(h, 'mode', 1)
                    return isinstance(mode_e, ast.Constant) and isinstance(mode_e.value, str) and 'b' in mode_e.value and 'r' in mode_e.value
        return False

    def do_minify_calls(self, fi):
        return [c for c in calls(fi.node) if isinstance(c.func, ast.Name) and self.m.resolve_name(fi.module, c.func.id) == self.do_minify.qual]

    def minify_call(self):
        cs = [c for c in calls(self.do_minify.node) if isinstance(c.func, ast.Name) and self.m.resolve_name(MAIN, c.func.id) == 'python_minifier.minify']
        if len(cs) != 1:
            raise AnalysisError('expected exactly one call to python_minifier.minify in do_minify, found %d' % len(cs))
        return cs[0]


    # ------------------------------------------------------------------ helpers that wrap a sink: lifted to their call sites
    def main_functions(self):
        return [f for f in self.m.funcs.values() if f.module == MAIN and f.name not in self.stdout_wrappers]

    def ensure(self, fi):
        if fi.qual not in self.facts:
            self.facts[fi.qual] = Facts(fi.node)
            self.defs[fi.qual] = local_defs(fi.node)

    def call_sites(self, callee):
        out = []
        for g in self.main_functions():
            if g is callee:
                continue
            self.ensure(g)
            for c in calls(g.node):
                if isinstance(c.func, ast.Name) and self.m.resolve_name(MAIN, c.func.id) == callee.qual:
                    out.append((g, c))
        return out

    @staticmethod
    def _argmap(callee, call):
        m = {}
        pos = callee.positional
        for i, a in enumerate(call.args):
            if i < len(pos) and not isinstance(a, ast.Starred):
                m[pos[i]] = a
        for kw in call.keywords:
            if kw.arg:
                m[kw.arg] = kw.value
        return m

    @staticmethod
    def _subst(expr, amap):
        if expr is None:
            return None

        class R(ast.NodeTransformer):
            def visit_Name(self, n):
                if isinstance(n.ctx, ast.Load) and n.id in amap:
                    return copy.deepcopy(amap[n.id])
                return n
        return R().visit(copy.deepcopy(expr))

    def _lift_facts(self, facts, amap, params):
        out = set()
        for (k, p) in facts or ():
            if k.startswith('<'):
                if k.startswith('<did:') or k.startswith('<caught:') or k.startswith('<try-catches:') or k.startswith('<in-try:'):
                    continue  # events / handler context of the helper do not describe the caller
                continue
            names = set(re.findall(r'[A-Za-z_][A-Za-z0-9_]*', k))
            if names & set(params):
                try:
                    e = ast.parse(k, mode='eval').body
                except SyntaxError:
                    continue
                if not (set(params) & names) <= set(amap):
                    continue
                out.add((src(self._subst(e, amap)), p))
            else:
                out.add((k, p))
        return out

    def is_param(self, fi, e):
        return isinstance(e, ast.Name) and e.id in fi.params and self.defs[fi.qual].get(e.id) == ['<param>']

    def lifted_sinks(self, depth=3):
        """Every write sink of the CLI module, expressed in the function that owns the written value: a sink inside a helper whose
        payload (or target path) is a plain parameter is re-expressed at each call site of the helper, with the caller's facts."""
        result = []
        work = []
        for fi in self.main_functions():
            self.ensure(fi)
            for s in self.sinks(fi):
                if s.facts is not None:
                    work.append((s, 0))
        while work:
            s, d = work.pop()
            fi = s.func
            needs = (self.is_param(fi, s.payload) or (s.target is not None and any(self.is_param(fi, n) for n in ast.walk(s.target) if isinstance(n, ast.Name)))) and fi.name != 'main'
            sites = self.call_sites(fi) if needs else []
            if not needs or not sites or d >= depth:
                result.append(s)
                continue
            for (g, c) in sites:
                amap = self._argmap(fi, c)
                gf = self.facts[g.qual].facts_at(c)
                if gf is None:
                    continue
                facts = frozenset(set(gf) | self._lift_facts(s.facts, amap, fi.params))
                ns = Sink(s.kind, c, self._subst(s.payload, amap), facts, target=self._subst(s.target, amap), mode=s.mode, func=g)
                ns.via = getattr(s, 'via', []) + [fi.name]
                work.append((ns, d + 1))
        return result

    def lifted_opens(self, depth=3):
        """[(function, call node used for locations/facts, path expr, mode, facts)] for every open() in the CLI module, lifted like sinks."""
        out = []
        work = []
        for fi in self.main_functions():
            self.ensure(fi)
            for (c, path, mode, alias) in self.open_calls(fi):
                f = self.facts[fi.qual].facts_at(c)
                if f is not None:
                    work.append((fi, c, path, mode, f, 0))
        while work:
            fi, c, path, mode, f, d = work.pop()
            needs = path is not None and any(self.is_param(fi, n) for n in ast.walk(path) if isinstance(n, ast.Name)) and fi.name != 'main'
            sites = self.call_sites(fi) if needs else []
            if not needs or not sites or d >= depth:
                out.append((fi, c, path, mode, f))
                continue
            for (g, cc) in sites:
                amap = self._argmap(fi, cc)
                gf = self.facts[g.qual].facts_at(cc)
                if gf is None:
                    continue
                facts = frozenset(set(gf) | self._lift_facts(f, amap, fi.params))
                work.append((g, cc, self._subst(path, amap), mode, facts, d + 1))
        return out

    def payload_kinds(self, fi, e):
        """{kind: [definition nodes]} of a payload expression in fi: 'minified', 'source', 'none', 'listing', 'other:<text>'."""
        if e is None:
            return {'other:no payload': []}
        if not isinstance(e, ast.Name):
            if isinstance(e, ast.BinOp) and isinstance(e.op, ast.Add) and isinstance(e.left, ast.Name) and isinstance(e.right, ast.Constant):
                return {'listing': []}
            if isinstance(e, ast.Call) and isinstance(e.func, ast.Name) and self.m.resolve_name(fi.module, e.func.id) == self.do_minify.qual:
                return {'minified': [e]}
            return {'other:' + src(e): []}
        kinds = {}
        for n in walk_own(fi.node):
            vals = []
            if isinstance(n, ast.Assign) and any(isinstance(t, ast.Name) and t.id == e.id for t in n.targets):
                vals = [n.value]
            elif isinstance(n, (ast.AugAssign, ast.AnnAssign)) and isinstance(n.target, ast.Name) and n.target.id == e.id:
                vals = ['<aug>']
            elif isinstance(n, (ast.For, ast.AsyncFor)) and any(isinstance(x, ast.Name) and x.id == e.id for x in ast.walk(n.target)):
                vals = ['<iter>']
            for d in vals:
                if isinstance(d, ast.Call) and isinstance(d.func, ast.Name) and self.m.resolve_name(fi.module, d.func.id) == self.do_minify.qual:
                    kinds.setdefault('minified', []).append(n)
                elif isinstance(d, ast.AST) and self.is_binary_read(fi, d):
                    kinds.setdefault('source', []).append(n)
                elif isinstance(d, ast.Constant) and d.value is None:
                    kinds.setdefault('none', []).append(n)
                elif isinstance(d, ast.Name):
                    sub = self.payload_kinds(fi, d)
                    for k, v in sub.items():
                        kinds.setdefault(k, []).append(n)
                else:
                    kinds.setdefault('other:' + (src(d) if isinstance(d, ast.AST) else str(d)), []).append(n)
        if e.id in fi.params and not kinds:
            kinds['other:<param %s>' % e.id] = []
        if not kinds:
            kinds['other:undefined'] = []
        return kinds

    def _stable_fact(self, fi, k):
        """A condition over parameters only (e.g. args.in_place): it has the same value wherever it is evaluated in one call."""
        if k.startswith('<'):
            return False
        names = set(re.findall(r'(?<![.\w])[A-Za-z_][A-Za-z0-9_]*', k))
        single = {n for n, ds in self.defs[fi.qual].items() if len(ds) == 1}   # parameters and locals bound exactly once (args = parse_args())
        callish = {'len', 'isinstance', 'not', 'and', 'or', 'is', 'None', 'True', 'False', 'in'}
        return bool(names - callish) and (names - callish) <= single

    def prune_kinds(self, fi, kinds, facts):
        """Drop definitions whose path conditions contradict the sink's (they cannot reach it within one call)."""
        F = self.facts[fi.qual]
        out = {}
        for k, nodes in kinds.items():
            keep = []
            for dn in nodes:
                f2 = F.facts_at(dn)
                if f2 is None:
                    continue
                contradiction = any((kk, not pp) in facts and self._stable_fact(fi, kk) for (kk, pp) in f2)
                if not contradiction:
                    # (A and B, False) on one side against A, B both true on the other (and the dual for `or`)
                    for (one, other) in ((f2, facts), (facts, f2)):
                        for (kk, pp) in one:
                            if kk.startswith('<') or not self._stable_fact(fi, kk):
                                continue
                            try:
                                e = ast.parse(kk, mode='eval').body
                            except SyntaxError:
                                continue
                            if isinstance(e, ast.BoolOp):
                                want = isinstance(e.op, ast.And)
                                if pp is (not want) and all((src(v), want) in other for v in e.values):
                                    contradiction = True
                if not contradiction:
                    keep.append(dn)
            if keep or not nodes:
                out[k] = keep
        return out

    def judge_sink(self, s):
        """(ok, kind label, explanation) for one (lifted) sink according to the payload rule shared by C13.OUT and C14.SINKS."""
        fi = s.func
        facts = s.facts
        kinds = self.prune_kinds(fi, self.payload_kinds(fi, s.payload), facts)
        in_handler = ('<caught:%s>' % NOT_BENEFICIAL, True) in facts
        others = [k for k in kinds if k.startswith('other:')]
        if 'listing' in kinds:
            return None, 'listing', ''
        if others:
            return False, 'other', 'written payload is neither the do_minify result nor the bytes read: ' + others[0][6:]
        name = s.payload.id if isinstance(s.payload, ast.Name) else None
        # freshness: inside a loop the variable must have been (re)assigned during this iteration on every path to the sink
        loops = []
        cur = self.m.parent(s.call)
        while cur is not None and cur is not fi.node:
            if isinstance(cur, (ast.For, ast.AsyncFor, ast.While)):
                loops.append(cur)
            cur = self.m.parent(cur)
        if name and loops:
            L = loops[-1].lineno
            if ('<assigned@%d:%s>' % (L, name), True) not in facts:
                return False, 'stale', 'inside the loop over the source files the written variable %r is not assigned on every path of the current iteration: a value left over from an earlier file can be written' % name
        real = set(kinds) - {'none'}
        if 'none' in kinds and name and not ((name, True) in facts or ('%s is None' % name, False) in facts):
            return False, 'none', 'the written variable %r may still be None here' % name
        if real == {'minified'}:
            # a variable whose every reaching definition is a do_minify call holds a value only once that call has returned
            ok = not in_handler
            return ok, 'minified', 'writes the do_minify result' if ok else 'the minified payload is written inside the not-beneficial handler'
        if real == {'source'}:
            return in_handler, 'source', 'writes the bytes read, inside the not-beneficial handler' if in_handler else 'writes the unminified source outside the not-beneficial handler'
        if real == {'minified', 'source'}:
            # every definition from the bytes read must itself sit in the not-beneficial handler
            F = self.facts[fi.qual]
            for dn in kinds['source']:
                f2 = F.facts_at(dn)
                if f2 is not None and ('<caught:%s>' % NOT_BENEFICIAL, True) not in f2:
                    return False, 'mixed', 'the written variable is assigned the unminified source outside the not-beneficial handler (%s)' % src(dn)[:60]
            return True, 'mixed', 'written variable holds the do_minify result, or the bytes read when assigned in the not-beneficial handler'
        return False, 'other', 'payload kinds %s' % sorted(kinds)
