"""Shared analysis of src/python_minifier/__main__.py for C13-C16 (write sinks, payload provenance, open() calls)."""
import ast

from ..astutil import calls, expanded_facts, local_defs, kwarg
from ..facts import Facts
from ..model import AnalysisError, src, walk_own

MAIN = 'python_minifier.__main__'
NOT_BENEFICIAL = 'MinificationNotBeneficialError'
WRITE_MODES = set('wax+')


class Sink(object):
    def __init__(self, kind, call, payload, facts, target=None, mode=None, func=None):
        self.kind = kind          # 'file', 'stdout-bytes', 'stdout-text'
        self.call = call
        self.payload = payload    # expr
        self.facts = facts
        self.target = target      # expr of the file path for 'file'
        self.mode = mode
        self.func = func


class MainAnalysis(object):
    def __init__(self, model):
        self.m = model
        self.main = model.func(MAIN + '.main')
        self.do_minify = model.func(MAIN + '.do_minify')
        self.parse_args = model.func(MAIN + '.parse_args')
        self.source_modules = model.func(MAIN + '.source_modules')
        self.exc = model.cls(MAIN + '.' + NOT_BENEFICIAL)
        self.facts = {}
        for fi in (self.main, self.do_minify, self.parse_args, self.source_modules):
            self.facts[fi.qual] = Facts(fi.node)
        self.defs = {fi.qual: local_defs(fi.node) for fi in (self.main, self.do_minify, self.parse_args, self.source_modules)}
        # helper functions of __main__ that write their argument to stdout (followed as wrappers)
        self.stdout_wrappers = {}
        for q, fi in model.funcs.items():
            if fi.module == MAIN and fi.outer is None and fi.cls is None and len(fi.positional) == 1:
                p = fi.positional[0]
                writes = [c for c in calls(fi.node) if isinstance(c.func, ast.Attribute) and c.func.attr == 'write'
                          and src(c.func.value) in ('sys.stdout', 'sys.stdout.buffer') and len(c.args) == 1]
                if writes and all(isinstance(c.args[0], ast.Name) and c.args[0].id == p for c in writes) and \
                        not [d for d in local_defs(fi.node).get(p, []) if d != '<param>']:
                    self.stdout_wrappers[fi.name] = fi

    # ------------------------------------------------------------------
    def open_calls(self, fi):
        """[(call, path expr, mode str or None, with-alias name or None)]"""
        out = []
        for n in walk_own(fi.node):
            if isinstance(n, ast.Call) and isinstance(n.func, ast.Name) and n.func.id == 'open':
                path = n.args[0] if n.args else kwarg(n, 'file')
                mode_e = kwarg(n, 'mode', 1)
                mode = 'r'
                if mode_e is not None:
                    mode = mode_e.value if isinstance(mode_e, ast.Constant) and isinstance(mode_e.value, str) else None
                alias = None
                par = self.m.parent(n)
                if isinstance(par, ast.withitem) and isinstance(par.optional_vars, ast.Name):
                    alias = par.optional_vars.id
                elif isinstance(par, ast.Assign) and len(par.targets) == 1 and isinstance(par.targets[0], ast.Name):
                    alias = par.targets[0].id
                out.append((n, path, mode, alias))
        return out

    def handle_of(self, fi, name, at_node):
        """The open() call that the with-alias `name` refers to at at_node (innermost enclosing with)."""
        cur = self.m.parent(at_node)
        while cur is not None and cur is not fi.node:
            if isinstance(cur, (ast.With, ast.AsyncWith)):
                for it in cur.items:
                    if isinstance(it.optional_vars, ast.Name) and it.optional_vars.id == name:
                        return it.context_expr
            cur = self.m.parent(cur)
        d = self.defs[fi.qual].get(name, [])
        if len(d) == 1 and isinstance(d[0], ast.AST):
            return d[0]
        return None

    def sinks(self, fi):
        F = self.facts[fi.qual]
        out = []
        for n in walk_own(fi.node):
            if not isinstance(n, ast.Call):
                continue
            f = n.func
            if isinstance(f, ast.Attribute) and f.attr in ('write', 'writelines'):
                base = src(f.value)
                if base in ('sys.stdout', 'sys.stdout.buffer', 'sys.__stdout__', 'sys.__stdout__.buffer'):
                    out.append(Sink('stdout-bytes' if base.endswith('.buffer') else 'stdout-text', n, n.args[0] if n.args else None, F.facts_at(n), func=fi))
                elif base in ('sys.stderr', 'sys.stderr.buffer'):
                    continue
                elif isinstance(f.value, ast.Name):
                    h = self.handle_of(fi, f.value.id, n)
                    if isinstance(h, ast.Call) and isinstance(h.func, ast.Name) and h.func.id == 'open':
                        path = h.args[0] if h.args else None
                        mode_e = kwarg(h, 'mode', 1)
                        mode = mode_e.value if isinstance(mode_e, ast.Constant) else ('r' if mode_e is None else None)
                        out.append(Sink('file', n, n.args[0] if n.args else None, F.facts_at(n), target=path, mode=mode, func=fi))
                    else:
                        out.append(Sink('unknown', n, n.args[0] if n.args else None, F.facts_at(n), func=fi))
                else:
                    out.append(Sink('unknown', n, n.args[0] if n.args else None, F.facts_at(n), func=fi))
            elif isinstance(f, ast.Name) and f.id in self.stdout_wrappers:
                out.append(Sink('stdout-bytes', n, n.args[0] if n.args else None, F.facts_at(n), func=fi))
            elif isinstance(f, ast.Name) and f.id == 'print':
                if kwarg(n, 'file') is not None and src(kwarg(n, 'file')).startswith('sys.stderr'):
                    continue
                out.append(Sink('stdout-text', n, n.args[0] if n.args else None, F.facts_at(n), func=fi))
            elif isinstance(f, ast.Attribute) and f.attr in ('write_bytes', 'write_text'):
                out.append(Sink('unknown', n, n.args[0] if n.args else None, F.facts_at(n), func=fi))
        return out

    def classify_payload(self, fi, e):
        """'minified' | 'source' | 'listing' | 'other' + explanation, by reaching definitions in fi."""
        if e is None:
            return 'other', 'no payload'
        if not isinstance(e, ast.Name):
            # path listing: <path var> + '\n'
            if isinstance(e, ast.BinOp) and isinstance(e.op, ast.Add) and isinstance(e.left, ast.Name) and isinstance(e.right, ast.Constant):
                return 'listing', src(e)
            return 'other', 'payload is not a plain variable: ' + src(e)
        ds = self.defs[fi.qual].get(e.id, [])
        if not ds:
            return 'other', 'no definition of %s' % e.id
        kinds = set()
        for d in ds:
            if isinstance(d, ast.Call) and isinstance(d.func, ast.Name) and self.m.resolve_name(fi.module, d.func.id) == self.do_minify.qual:
                kinds.add('minified')
            elif self.is_binary_read(fi, d):
                kinds.add('source')
            else:
                kinds.add('other:' + (src(d) if isinstance(d, ast.AST) else str(d)))
        if len(kinds) == 1:
            k = kinds.pop()
            if k.startswith('other:'):
                return 'other', k[6:]
            return k, ', '.join(src(d) if isinstance(d, ast.AST) else str(d) for d in ds)
        return 'other', 'mixed definitions: ' + ', '.join(sorted(kinds))

    def is_binary_read(self, fi, d):
        """d is `<binary handle>.read()`, or the version switch `sys.stdin.buffer.read() if sys.version_info >= (3,0) else sys.stdin.read()`."""
        if isinstance(d, ast.IfExp):
            t = src(d.test)
            if 'sys.version_info' in t:
                # the arm taken on Python 3 must be the binary read
                arm = d.body if ('>=' in t or '>' in t) else d.orelse
                return self.is_binary_read(fi, arm)
            return self.is_binary_read(fi, d.body) and self.is_binary_read(fi, d.orelse)
        if isinstance(d, ast.Call) and isinstance(d.func, ast.Attribute) and d.func.attr == 'read' and not d.args:
            base = d.func.value
            if src(base) == 'sys.stdin.buffer':
                return True
            if isinstance(base, ast.Name):
                h = self.handle_of(fi, base.id, d)
                if isinstance(h, ast.Call) and isinstance(h.func, ast.Name) and h.func.id == 'open':
                    mode_e = kwarg(h, 'mode', 1)
                    return isinstance(mode_e, ast.Constant) and isinstance(mode_e.value, str) and 'b' in mode_e.value and 'r' in mode_e.value
        return False

    def do_minify_calls(self, fi):
        return [c for c in calls(fi.node) if isinstance(c.func, ast.Name) and self.m.resolve_name(fi.module, c.func.id) == self.do_minify.qual]

    def minify_call(self):
        cs = [c for c in calls(self.do_minify.node) if isinstance(c.func, ast.Name) and self.m.resolve_name(MAIN, c.func.id) == 'python_minifier.minify']
        if len(cs) != 1:
            raise AnalysisError('expected exactly one call to python_minifier.minify in do_minify, found %d' % len(cs))
        return cs[0]
