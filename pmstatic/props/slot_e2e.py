"""The printer's (syntactic slot x child) table as probe modules for the renaming and hoisting pipelines.

The slot templates of C02 (`props/c02.SLOTS`: every place of the grammar an expression can stand in - statement slots, operator operands, call and
subscript positions, comprehension clauses, defaults, annotations, decorators, class headers, patterns' guards, f-string fields, type parameters)
are each turned into one small module per child form:

* rename: the slot holds an expression that mentions names in every way an expression can (plain, lambda parameters of all five kinds, lambda
  defaults, comprehension targets one and two levels deep, assignment expressions, call keywords and stars, attributes, f-string fields with a
  nested spec); every free name of the statement becomes a positional-only parameter of the enclosing function (so it is renamed in place) and
  is mentioned once more at the end; attribute and keyword identifiers that look like those names are parameters too, so a renamer that touches
  an identifier it must not touch is seen. The real minify(rename_locals=True) is evaluated and the output judged by the rename oracle (O10).
* hoist: the slot holds a repeated literal (str, bytes, inside tuples, as dictionary key, as keyword value, as subscript, next to f-string text, as
  lambda body and default, in a comprehension); the statement stands three times in the function; minify(hoist_literals=True) is judged by the
  de-hoisting oracle (O11).
Nothing here knows how the repository renames or hoists; a cell is a module, an option and an oracle.
"""
import ast
import builtins
import multiprocessing
import os

from ..model import AnalysisError, Model
from . import c02

RCHILD = {
    'Name': 'u', 'Lambda': 'lambda: u', 'LambdaArgs': 'lambda q_x, *q_y, q_k=w, **q_z: (u, q_x, q_y, q_k, q_z)', 'LambdaDefault': 'lambda r_a=u, *, r_b=w: r_a + r_b + z',
    'ListComp': '[i_c + u for i_c in w]', 'GeneratorExp': '(j_c for j_c in w if u)', 'DictComp': '{k_c: u for k_c in z}', 'NestedComp': '[[m_c for m_c in n_c if u] for n_c in w]',
    'NamedExpr': 'w_n := w', 'Call': 'u(w, *x_a, k=z, **x_b)', 'Attribute': 'u.w', 'Subscript': 'u[w]', 'JoinedStr': "f'{u!r:>{w}}'", 'Starred': '*u', 'Dict': '{u: w, **z}',
    'IfExp': 'u if w else z', 'Yield': 'yield u', 'Await': 'await u', 'Compare': 'u < w < z', 'Tuple': 'u, w', 'StarTuple': '*u, w', 'Slice': 'u:w',
}
RCHILD_QUICK = ['Name', 'LambdaArgs', 'LambdaDefault', 'ListComp', 'NestedComp', 'DictComp', 'NamedExpr', 'Call', 'Attribute', 'JoinedStr']
S = "'hoisted literal text'"
HCHILD = {
    'Str': S, 'Bytes': "b'hoisted bytes text'", 'StrPair': '(%s, %s)' % (S, S), 'TextNextToField': "f'{u}hoisted literal text{w}' + " + S, 'Method': S + '.join(u)', 'Key': 'u[%s]' % S,
    'Constants': '(None, True, None, True, None, False, False)', 'KeywordValue': 'u(k=%s)' % S, 'DictKey': '{%s: %s}' % (S, S), 'LambdaBody': 'lambda: ' + S, 'LambdaDefault': 'lambda r_a=%s: r_a' % S,
    'Comp': '[%s for i_c in %s]' % (S, S), 'Mixed': "(%s, b'hoisted literal text', %s)" % (S, S),
}
# slots whose scopes the symbol-table oracle does not model (annotation scopes of type aliases and type parameters): structure and consistency only
LIGHT_SLOTS = ('TypeAlias.value', 'TypeVar.bound')


def _child_kind(cname):
    return cname if cname in c02.CHILD_CONTEXT else 'X'


def rename_probe(tpl, cname):
    tree = c02.build_program(tpl, RCHILD[cname], _child_kind(cname))
    if tree is None or not c02.representable(tree):
        return None
    fn = tree.body[0]
    mentioned, bound = set(), set()
    for n in ast.walk(fn):
        if isinstance(n, ast.Name):
            mentioned.add(n.id)
            if not isinstance(n.ctx, ast.Load):
                bound.add(n.id)
        elif isinstance(n, ast.Attribute):
            mentioned.add(n.attr)
        elif isinstance(n, ast.keyword) and n.arg:
            mentioned.add(n.arg)
        elif isinstance(n, ast.arg):
            bound.add(n.arg)
        elif isinstance(n, (ast.FunctionDef, ast.ClassDef, ast.AsyncFunctionDef)) and n is not fn:
            bound.add(n.name)
        elif isinstance(n, ast.ExceptHandler) and n.name:
            bound.add(n.name)
        elif isinstance(n, (ast.MatchAs, ast.MatchStar)) and n.name:
            bound.add(n.name)
        elif isinstance(n, ast.alias):
            bound.add((n.asname or n.name).split('.')[0])
        elif isinstance(n, ast.TypeVar):
            bound.add(n.name)
    params = sorted(x for x in mentioned if x not in bound and x not in dir(builtins))
    fn.args.posonlyargs = [ast.arg(arg=x) for x in params]
    fn.body.append(ast.Expr(value=ast.Tuple(elts=[ast.Name(id=x, ctx=ast.Load()) for x in params] or [ast.Constant(value=0)], ctx=ast.Load())))
    ast.fix_missing_locations(tree)
    return _source(tree)


def hoist_probe(tpl, cname):
    tree = c02.build_program(tpl, HCHILD[cname], _child_kind(cname))
    if tree is None or not c02.representable(tree):
        return None
    fn = tree.body[0]
    import copy
    fn.body = fn.body + copy.deepcopy(fn.body) + copy.deepcopy(fn.body)
    ast.fix_missing_locations(tree)
    return _source(tree)


def _source(tree):
    import warnings
    try:
        src = ast.unparse(tree) + '\n'
        with warnings.catch_warnings():
            warnings.simplefilter('ignore')
            compile(src, 'slot probe', 'exec', dont_inherit=True)
    except (SyntaxError, ValueError, RecursionError):
        return None
    return src


_MODEL = None


def _init(root, overlay):
    global _MODEL
    _MODEL = Model(root=root, overlay=overlay)


def eval_cell(cell):
    """(kind, slot name, child name) -> (label, status, detail)"""
    from . import hoist_e2e, rename_e2e
    kind, sname, cname = cell
    label = '%s slot %s <- %s' % (kind, sname, cname)
    try:
        if kind == 'rename':
            src = rename_probe(c02.SLOTS[sname], cname)
            if src is None:
                return (label, 'skip', 'not a program')
            try:
                text = rename_e2e.run_pipeline(_MODEL, src, rename_locals=True)
            except rename_e2e.MinifyRaises as ex:
                return (label, 'bad', 'minify(rename_locals=True) fails on %r: %s' % (src[:120], ex))
            problems = rename_e2e.judge(src, text, light=sname in LIGHT_SLOTS)
            if problems:
                return (label, 'bad', '%s -- source %r -- output %r' % ('; '.join(problems[:2]), src[:150], text[:150]))
            return (label, 'ok' if text.strip() != src.strip() else 'same', text)
        src = hoist_probe(c02.SLOTS[sname], cname)
        if src is None:
            return (label, 'skip', 'not a program')
        from ..absprint import print_obj
        from ..minrun import minify_tree
        k, tree, mod = minify_tree(_MODEL, src, {'hoist_literals': True})
        if k != 'ok':
            return (label, 'bad', 'minify(hoist_literals=True) raises %s on %r' % (tree, src[:120]))
        k, text = print_obj(_MODEL, mod)
        if k == 'raise':
            return (label, 'bad', 'printing the hoisted module raises %s -- source %r' % (text, src[:120]))
        if k != 'ok':
            return (label, 'undecided', '%s %s' % (k, text))
        problems, aliases = hoist_e2e.dehoist(src, text)
        if problems:
            return (label, 'bad', '%s -- source %r -- output %r' % ('; '.join(problems[:2]), src[:150], text[:150]))
        return (label, 'ok' if aliases else 'same', text)
    except AnalysisError as e:
        return (label, 'undecided', str(e))
    except RecursionError:
        return (label, 'undecided', 'recursion limit')


def cells(kind, tier):
    quick = tier != 'thorough'
    children = (RCHILD_QUICK if quick else list(RCHILD)) if kind == 'rename' else list(HCHILD)
    return [(kind, sname, cname) for sname in c02.SLOTS for cname in children]


def run(model, rep, rule, kind, floor, active_floor):
    """Evaluates every cell; one obligation per slot. `active_floor`: the least number of cells in which the pipeline must actually have changed the module."""
    todo = cells(kind, rep.tier)
    jobs = int(os.environ.get('PMSTATIC_JOBS', '0')) or (1 if multiprocessing.current_process().daemon else min(8, os.cpu_count() or 1))
    if jobs <= 1:
        _init(model.root, model.overlay)
        results = [eval_cell(c) for c in todo]
    else:
        with multiprocessing.get_context('fork').Pool(jobs, initializer=_init, initargs=(model.root, model.overlay)) as pool:
            results = pool.map(eval_cell, todo, chunksize=max(1, len(todo) // (jobs * 8)))
    where = 'src/python_minifier/__init__.py'
    undecided = [(l, d) for (l, s, d) in results if s == 'undecided']
    if undecided:
        raise AnalysisError('UNDECIDED: %d %s cells could not be evaluated, e.g. %s: %s' % (len(undecided), rule, undecided[0][0], undecided[0][1]))
    groups = {}
    active = 0
    for (label, status, detail) in results:
        g = label.split(' <- ')[0]
        d = groups.setdefault(g, {'ok': 0, 'bad': []})
        if status in ('ok', 'same'):
            d['ok'] += 1
            active += status == 'ok'
        elif status == 'bad':
            d['bad'].append((label, detail))
    n = 0
    for g in sorted(groups):
        d = groups[g]
        n += d['ok'] + len(d['bad'])
        if d['bad']:
            for i_, (label, detail) in enumerate(d['bad'][:4]):
                more = '' if i_ or len(d['bad']) <= 4 else ' (+%d more cells of this slot)' % (len(d['bad']) - 4)
                rep.violation(rule, where, label, detail + more, key='%s|%s' % (rule, label), cells=(d['ok'] + len(d['bad'])) if i_ == 0 else 1)
        elif d['ok']:
            rep.ok(rule, where, g, '%d child forms: the %s' % (d['ok'], 'renamed module is alpha-equivalent to the original' if kind == 'rename' else 'hoisted module de-hoists to the original'),
                   cells=d['ok'], key='%s|%s' % (rule, g))
    rep.count(rule + '_cells', {'evaluated': n, 'changed_by_the_pipeline': active})
    rep.sensitive(active >= active_floor, '%s: the pipeline changed only %d of %d probe modules: the slot table has lost its sensitivity' % (rule, active, n))
    rep.floor(rule, floor)
