"""E9: obligations, verdicts, evidence files, known findings, replay files."""
import hashlib
import json
import os
import re
import time

from .model import AnalysisError

VERIF = os.path.dirname(os.path.dirname(os.path.abspath(__file__)))

OK = 'discharged'
VIOL = 'violated'
INFO = 'info'


class Obligation(object):
    __slots__ = ('prop', 'rule', 'where', 'construct', 'status', 'detail', 'key', 'cells', 'trivial')

    def __init__(self, prop, rule, where, construct, status, detail='', key=None, cells=1, trivial=False):
        self.prop = prop
        self.rule = rule
        self.where = where
        self.construct = construct
        self.status = status
        self.detail = detail
        # key identifies the obligation independent of line numbers: rule + function/construct text
        self.key = key or ('%s|%s' % (rule, re.sub(r'\s+', ' ', construct)))
        self.cells = cells
        self.trivial = trivial

    def as_dict(self):
        return {'rule': self.rule, 'where': self.where, 'construct': self.construct, 'status': self.status,
                'detail': self.detail, 'key': self.key}


class Report(object):
    """Collects the obligations of one property check."""

    def __init__(self, prop, tier='quick'):
        self.prop = prop
        self.tier = tier
        self.obligations = []
        self.notes = []
        self.insensitive = []
        self.not_evaluated = []    # white-box rules whose internal anchors do not exist in this tree: {rules, reason, decided_by}
        self.floors = []   # (rule, expected minimum, seen)
        self.analysed = {}
        self.t0 = time.time()
        self.explanation = ''
        self.assumptions = []
        self.trusted = []
        self.rules = {}

    # -- recording
    def ok(self, rule, where, construct, detail='', cells=1, key=None, trivial=False):
        self.obligations.append(Obligation(self.prop, rule, where, construct, OK, detail, key, cells, trivial))

    def violation(self, rule, where, construct, detail='', key=None, cells=1):
        self.obligations.append(Obligation(self.prop, rule, where, construct, VIOL, detail, key, cells))

    def check(self, cond, rule, where, construct, detail_ok='', detail_bad='', key=None, cells=1):
        if cond:
            self.ok(rule, where, construct, detail_ok, cells, key)
        else:
            self.violation(rule, where, construct, detail_bad or detail_ok, key, cells)
        return cond

    def note(self, text):
        self.notes.append(text)

    def rule(self, rule_id, text):
        self.rules[rule_id] = text

    def floor(self, rule, expected, seen=None):
        """The rule must have matched at least `expected` instances (counted from the obligations unless given)."""
        if seen is None:
            seen = sum(1 for o in self.obligations if o.rule == rule)
        self.floors.append((rule, expected, seen))

    def sensitive(self, ok, message):
        """A probe-based rule must have exercised the behaviour it judges (names renamed, aliases created, outputs shortened ...). Checked at the
        end of the run like a floor: with violations reported the violations are the verdict, otherwise an insensitive run is no verdict (exit 2)."""
        if not ok:
            self.insensitive.append(message)

    def optional(self, rules, decided_by, fn):
        """Run a white-box rule. If the internal names it is written against are gone (LostAnchor) the rule is reported as not evaluated - the
        behaviour it sharpens is decided by the end-to-end rules `decided_by`, which must have run - instead of failing the whole check."""
        from .model import LostAnchor
        mark = len(self.obligations)
        try:
            fn()
        except LostAnchor as e:
            del self.obligations[mark:]
            self.not_evaluated.append({'rules': list(rules), 'reason': str(e), 'decided_by': list(decided_by)})
            self.notes.append('NOT-EVALUATED %s: %s; the behaviour is decided end to end by %s' % (', '.join(rules), e, ', '.join(decided_by)))

    def check_floors(self):
        """A rule that matched fewer instances than were confirmed by reading has lost its anchors: no verdict (exit 2) - unless the
        run already reports violations, which then are the verdict."""
        if self.violations():
            return
        if self.insensitive:
            raise AnalysisError(self.insensitive[0])
        skipped = {r for ne in self.not_evaluated for r in ne['rules']}
        for ne in self.not_evaluated:
            for r in ne['decided_by']:
                if r in skipped or not any(o.rule == r for o in self.obligations):
                    raise AnalysisError('rule(s) %s could not be evaluated (%s) and the end-to-end rule %s that decides the same behaviour did not run either'
                                        % (', '.join(ne['rules']), ne['reason'], r))
        for (rule, expected, seen) in self.floors:
            if rule in skipped:
                continue
            if seen < expected:
                raise AnalysisError('rule %s matched %d instance(s), fewer than the %d confirmed by reading: the rule has lost its '
                                    'anchors (vacuous pass refused)' % (rule, seen, expected))

    def count(self, what, n):
        self.analysed[what] = n

    # -- results
    def violations(self):
        return [o for o in self.obligations if o.status == VIOL]


def load_known():
    path = os.path.join(VERIF, 'known_findings.json')
    if not os.path.exists(path):
        return []
    with open(path) as f:
        data = json.load(f)
    return data.get('findings', [])


def finish(rep, seed=0, write=True, quiet=False):
    """Print verdict lines, write evidence and replay files, return the exit status."""
    known = [k for k in load_known() if k.get('status') == 'known' and k.get('property') == rep.prop]
    viols = rep.violations()
    unlisted = []
    listed = []
    for v in viols:
        m = [k for k in known if k.get('key') == v.key]
        if m:
            listed.append((v, m[0]))
        else:
            unlisted.append(v)
    out = []
    for v, k in listed:
        out.append('KNOWN-FINDING: property=%s %s %s: %s' % (rep.prop, v.rule, v.where, k.get('what', v.detail)))
    replay_dir = os.path.join(VERIF, 'replay')
    for v in unlisted:
        h = hashlib.sha1(v.key.encode()).hexdigest()[:10]
        path = os.path.join(replay_dir, '%s-%s.json' % (rep.prop, h))
        if write:
            os.makedirs(replay_dir, exist_ok=True)
            with open(path, 'w') as f:
                json.dump({'property': rep.prop, 'obligation': v.as_dict(), 'replay': './check %s --only-key %r' % (rep.prop, v.key)}, f, indent=1)
        out.append('VIOLATION property=%s replay=%s' % (rep.prop, path))
        out.append('  %s %s %s -- %s' % (v.where, v.rule, v.construct, v.detail))
    n_ob = len(rep.obligations)
    n_ok = sum(1 for o in rep.obligations if o.status == OK)
    cells = sum(o.cells for o in rep.obligations)
    distinct = len({o.key for o in rep.obligations if not o.trivial})
    wall = time.time() - rep.t0
    if not quiet:
        for line in out:
            print(line)
        print('%s [%s]: %d obligations, %d discharged, %d violated (%d known), %d cells evaluated, rules=%s, %.2fs' % (
            rep.prop, rep.tier, n_ob, n_ok, len(viols), len(listed), cells, ','.join(sorted({o.rule for o in rep.obligations})), wall))
        for n in rep.notes[:40]:
            print('  note: ' + n)
    if write:
        samples = []
        seen_rules = set()
        for o in rep.obligations:
            if o.rule not in seen_rules or o.status == VIOL:
                seen_rules.add(o.rule)
                samples.append(o.as_dict())
        ev = {
            'property_id': rep.prop,
            'tier': rep.tier,
            'seed': int(seed),
            'level': 'other',
            'coverage': {
                'explanation': rep.explanation or 'structural obligations decided by static analysis of the source tree',
                'obligations': n_ob,
                'discharged': n_ok,
                'evaluations': max(cells, 1),
                'distinct_nontrivial': distinct,
                'rule': 'one obligation per (rule, construct) instance found in the current source; an obligation is non-trivial when the '
                        'rule matched a real construct of the repository (not a synthetic control); distinct by rule + normalised construct text',
                'rules': rep.rules,
                'samples': samples[:60],
                'floors': [{'rule': r, 'expected_min': e, 'seen': s} for (r, e, s) in rep.floors],
                'analysed': rep.analysed,
                'checker_cmd': './check %s --tier %s' % (rep.prop, rep.tier),
                'trusted_base': rep.trusted or ["CPython's own ast / tokenize / symtable / argparse used as reference tables", 'probe templates written by hand (listed in DESIGN.md)'],
                'known_findings_matched': [v.key for v, _ in listed],
                'notes': rep.notes[:60],
                'not_evaluated': rep.not_evaluated,
                'exhaustive': True,
            },
            'assumptions': rep.assumptions or ['a discharged obligation is a necessary condition of the property, not the property itself'],
            'wall_s': round(wall, 3),
            'violations': len(unlisted),
        }
        os.makedirs(os.path.join(VERIF, 'evidence'), exist_ok=True)
        with open(os.path.join(VERIF, 'evidence', rep.prop + '.json'), 'w') as f:
            json.dump(ev, f, indent=1, sort_keys=True)
    return 1 if unlisted else 0
