"""Small AST helpers shared by the rules."""
import ast

from .model import src, walk_own


def calls(node, own=True):
    it = walk_own(node) if own and isinstance(node, (ast.FunctionDef, ast.AsyncFunctionDef)) else ast.walk(node)
    return [n for n in it if isinstance(n, ast.Call)]


def callee_text(call):
    return src(call.func)


def is_call_to(call, *names):
    """Call whose callee expression unparses to one of names, or whose last attribute is one of '.name' entries."""
    t = callee_text(call)
    for n in names:
        if n.startswith('.'):
            if isinstance(call.func, ast.Attribute) and call.func.attr == n[1:]:
                return True
        elif t == n:
            return True
    return False


def local_defs(fnode):
    """name -> list of value expressions assigned to it inside the function (own body); parameters map to ['<param>'].
    For/with/except targets and augmented assignments map to '<other>'."""
    out = {}
    a = fnode.args
    for p in getattr(a, 'posonlyargs', []) + a.args + a.kwonlyargs + ([a.vararg] if a.vararg else []) + ([a.kwarg] if a.kwarg else []):
        out.setdefault(p.arg, []).append('<param>')
    for n in walk_own(fnode):
        if isinstance(n, ast.Assign):
            for t in n.targets:
                if isinstance(t, ast.Name):
                    out.setdefault(t.id, []).append(n.value)
                elif isinstance(t, (ast.Tuple, ast.List)):
                    for x in ast.walk(t):
                        if isinstance(x, ast.Name):
                            out.setdefault(x.id, []).append('<other>')
        elif isinstance(n, ast.AnnAssign) and isinstance(n.target, ast.Name) and n.value is not None:
            out.setdefault(n.target.id, []).append(n.value)
        elif isinstance(n, ast.AugAssign) and isinstance(n.target, ast.Name):
            out.setdefault(n.target.id, []).append('<other>')
        elif isinstance(n, (ast.For, ast.AsyncFor)):
            for x in ast.walk(n.target):
                if isinstance(x, ast.Name):
                    out.setdefault(x.id, []).append(('<iter>', n.iter))
        elif isinstance(n, ast.comprehension):
            for x in ast.walk(n.target):
                if isinstance(x, ast.Name):
                    out.setdefault(x.id, []).append(('<iter>', n.iter))
        elif isinstance(n, (ast.With, ast.AsyncWith)):
            for it in n.items:
                if it.optional_vars is not None:
                    for x in ast.walk(it.optional_vars):
                        if isinstance(x, ast.Name):
                            out.setdefault(x.id, []).append(('<with>', it.context_expr))
        elif isinstance(n, ast.ExceptHandler) and n.name:
            out.setdefault(n.name, []).append('<other>')
        elif isinstance(n, ast.NamedExpr) and isinstance(n.target, ast.Name):
            out.setdefault(n.target.id, []).append(n.value)
        elif isinstance(n, (ast.FunctionDef, ast.AsyncFunctionDef, ast.ClassDef)):
            out.setdefault(n.name, []).append('<def>')
    return out


def single_def(defs, name):
    """The unique defining expression of a local, or None."""
    d = defs.get(name)
    if d and len(d) == 1 and isinstance(d[0], ast.AST):
        return d[0]
    return None


class _Subst(ast.NodeTransformer):
    def __init__(self, defs, depth):
        self.defs = defs
        self.depth = depth

    def visit_Name(self, n):
        if isinstance(n.ctx, ast.Load):
            d = single_def(self.defs, n.id)
            if d is not None and self.depth > 0 and not isinstance(d, (ast.Lambda,)):
                import copy
                return _Subst(self.defs, self.depth - 1).visit(copy.deepcopy(d))
        return n


def expand(expr, defs, depth=4):
    """Substitute single-assignment locals by their definitions (alias expansion) and return the new expression."""
    import copy
    return _Subst(defs, depth).visit(copy.deepcopy(expr))


def expand_text(text, defs, depth=4):
    try:
        e = ast.parse(text, mode='eval').body
    except SyntaxError:
        return text
    return src(expand(e, defs, depth))


def expanded_facts(facts, defs):
    """Set of (expanded text, polarity) for branch facts (event/marker facts are kept as they are)."""
    if facts is None:
        return None
    out = set()
    for (k, p) in facts:
        out.add((k, p))
        if not k.startswith('<'):
            out.add((expand_text(k, defs), p))
    return frozenset(out)


def literal(e, consts=None):
    """Evaluate a display of constants (E3). consts: name -> expr for module constants."""
    consts = consts or {}
    if isinstance(e, ast.Constant):
        return e.value
    if isinstance(e, ast.Name) and e.id in consts:
        return literal(consts[e.id], consts)
    if isinstance(e, (ast.List, ast.Tuple, ast.Set)):
        vals = [literal(x, consts) for x in e.elts]
        return vals if isinstance(e, ast.List) else (tuple(vals) if isinstance(e, ast.Tuple) else set(vals))
    if isinstance(e, ast.Dict):
        return {literal(k, consts): literal(v, consts) for k, v in zip(e.keys, e.values)}
    if isinstance(e, ast.BinOp) and isinstance(e.op, ast.Add):
        return literal(e.left, consts) + literal(e.right, consts)
    if isinstance(e, ast.UnaryOp) and isinstance(e.op, ast.USub):
        return -literal(e.operand, consts)
    raise ValueError('not a literal display: ' + src(e))


def attr_chain(e):
    """['a','b','c'] for a.b.c ; None if not a pure chain"""
    parts = []
    while isinstance(e, ast.Attribute):
        parts.append(e.attr)
        e = e.value
    if isinstance(e, ast.Name):
        parts.append(e.id)
        return list(reversed(parts))
    return None


def root_name(e):
    while isinstance(e, (ast.Attribute, ast.Subscript, ast.Call)):
        e = e.value if not isinstance(e, ast.Call) else e.func
    return e.id if isinstance(e, ast.Name) else None


def kwarg(call, name, pos=None):
    for kw in call.keywords:
        if kw.arg == name:
            return kw.value
    if pos is not None and len(call.args) > pos and not any(isinstance(a, ast.Starred) for a in call.args[:pos + 1]):
        return call.args[pos]
    return None


def stmts_of(fnode):
    return [n for n in walk_own(fnode) if isinstance(n, ast.stmt)]


def enclosing_stmt(model, node):
    cur = node
    while cur is not None and not isinstance(cur, ast.stmt):
        cur = model.parent(cur)
    return cur


def ancestors(model, node):
    cur = model.parent(node)
    while cur is not None:
        yield cur
        cur = model.parent(cur)


def const_value(model, fi, e, depth=0):
    try:
        return _const_value(model, fi, e, depth)
    except (ValueError, TypeError):
        if depth:
            raise
    # not a plain display: let the abstract interpreter compute the value of the expression (dict(... for ...), tuple arithmetic, ...)
    from .absint import Interp, Obj, TOP, Closure, ClassRef, LazyGen
    mod = fi.module if fi is not None else None
    I = Interp(model, mod, {})
    try:
        env = {}

        def thunk():
            if fi is not None and getattr(fi, 'cls', None):
                # `self.<table>`: the instance is built by the class's own constructor (tables filled in by a loop in __init__ are then complete)
                env['self'] = I.construct(ClassRef(fi.cls.rsplit('.', 1)[1], fi.cls), [], {})
            return I.materialise(I.ev(e, env))
        res = I.explore(thunk)
    except Exception:
        raise ValueError('not a constant display: ' + src(e))
    if len(res) != 1 or res[0][0][0] != 'return':
        raise ValueError('not a constant display: ' + src(e))
    v = res[0][0][1]

    def plain(x, d=0):
        if d > 6:
            return False
        if isinstance(x, (str, bytes, int, float, bool, type(None), type, ClassRef)):
            return True   # (types and node classes are part of the program, not of its input)
        if isinstance(x, (list, tuple, set, frozenset)):
            return all(plain(y, d + 1) for y in x)
        if isinstance(x, dict):
            return all(plain(k, d + 1) and plain(y, d + 1) for k, y in x.items())
        return False
    if not plain(v):
        raise ValueError('not a constant display: ' + src(e))
    return list(v) if type(v).__name__ == 'OneShot' else v


def _const_value(model, fi, e, depth=0):
    """Value of a display of constants wherever the repository keeps it: written in place, in a local of `fi`, in `self.<name>` (class-level
    assignment or an assignment in __init__ of the class hierarchy), or in a module-level name. Raises ValueError when it is not such a display."""
    if depth > 6:
        raise ValueError('too deep')
    if isinstance(e, ast.Constant):
        return e.value
    if isinstance(e, (ast.List, ast.Tuple, ast.Set)):
        vals = [_const_value(model, fi, x, depth + 1) for x in e.elts]
        return vals if isinstance(e, ast.List) else (tuple(vals) if isinstance(e, ast.Tuple) else set(vals))
    if isinstance(e, ast.Dict):
        return {const_value(model, fi, k, depth + 1): (src(v) if not isinstance(v, (ast.Constant, ast.List, ast.Tuple, ast.Set, ast.Dict)) else const_value(model, fi, v, depth + 1)) for k, v in zip(e.keys, e.values)}
    if isinstance(e, ast.BinOp) and isinstance(e.op, (ast.Add, ast.BitOr)):
        a, b = const_value(model, fi, e.left, depth + 1), const_value(model, fi, e.right, depth + 1)
        return (a + b) if isinstance(e.op, ast.Add) else (set(a) | set(b))
    if isinstance(e, ast.Call) and isinstance(e.func, ast.Name) and e.func.id in ('set', 'frozenset', 'tuple', 'list', 'sorted') and len(e.args) == 1 and not e.keywords:
        v = const_value(model, fi, e.args[0], depth + 1)
        return {'set': set, 'frozenset': set, 'tuple': tuple, 'list': list, 'sorted': sorted}[e.func.id](v)
    if isinstance(e, ast.Name):
        d = single_def(local_defs(fi.node), e.id) if fi is not None else None
        if d is not None:
            return const_value(model, fi, d, depth + 1)
        v = model.module_assigns.get(fi.module if fi is not None else None, {}).get(e.id)
        if v is not None:
            return const_value(model, fi, v, depth + 1)
        raise ValueError('name %s is not a constant display' % e.id)
    if isinstance(e, ast.Attribute) and isinstance(e.value, ast.Name) and e.value.id in ('self', 'cls') and fi is not None and fi.cls:
        for k in model.mro(fi.cls):
            ci = model.classes.get(k)
            if ci is None:
                continue
            for st in ci.node.body:
                if isinstance(st, ast.Assign) and any(isinstance(t, ast.Name) and t.id == e.attr for t in st.targets):
                    return const_value(model, _ModuleOnly(ci.module), st.value, depth + 1)
            init = model.funcs.get(k + '.__init__')
            if init is not None:
                stores = [n for n in walk_own(init.node) if isinstance(n, ast.Assign) and any(isinstance(t, ast.Attribute) and src(t.value) == 'self' and t.attr == e.attr for t in n.targets)]
                touched = [n for n in walk_own(init.node) if (isinstance(n, ast.Subscript) and src(n.value) == 'self.' + e.attr and isinstance(n.ctx, (ast.Store, ast.Del))) or
                           (isinstance(n, ast.Call) and isinstance(n.func, ast.Attribute) and src(n.func.value) == 'self.' + e.attr and n.func.attr in ('update', 'append', 'add', 'extend', 'setdefault', 'pop'))]
                if len(stores) == 1 and not touched:
                    return const_value(model, init, stores[0].value, depth + 1)
                if stores:
                    raise ValueError('self.%s is filled in by statements' % e.attr)
        raise ValueError('self.%s is not a constant display' % e.attr)
    raise ValueError('not a constant display: ' + src(e))


class _ModuleOnly(object):
    """Stand-in for a FuncInfo when a class-level expression is evaluated: only module-level names are visible."""

    def __init__(self, module):
        import ast as _ast
        self.module = module
        self.cls = None
        self.node = _ast.parse('def _(): pass').body[0]
