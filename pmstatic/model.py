"""E1/E2: source model of the package under analysis and call resolution.

The model is built from source text only (ast.parse of every *.py below src/python_minifier).
An in-memory overlay {relative path: text} replaces files, which is how the sensitivity battery
analyses variants without touching /repo.
"""
import ast
import glob
import hashlib
import os

PKG = 'python_minifier'
PKG_DIR = os.path.join('src', PKG)


class AnalysisError(Exception):
    """The analysis cannot give a verdict (vanished anchor, undecided predicate, floor not met). Exit status 2."""


class LostAnchor(AnalysisError):
    """A named internal function / class / method a white-box rule is written against does not exist in this tree. A rule that is marked
    optional (its behaviour is also decided end to end through the public interface) is then reported as not evaluated; anywhere else this
    is an analysis error like any other."""


def repo_root():
    return os.environ.get('PMSTATIC_REPO', '/repo')


def src(node):
    if node is None:
        return 'None'
    if isinstance(node, str):
        return node
    try:
        return ast.unparse(node)
    except Exception:  # pragma: no cover
        return '<%s>' % type(node).__name__


class FuncInfo(object):
    def __init__(self, qual, node, module, cls, path, outer=None):
        self.qual = qual
        self.node = node
        self.module = module
        self.cls = cls          # qualified class name or None
        self.path = path
        self.outer = outer      # FuncInfo of the enclosing function for nested defs
        self.name = node.name

    @property
    def params(self):
        a = self.node.args
        return [x.arg for x in getattr(a, 'posonlyargs', []) + a.args] + ([a.vararg.arg] if a.vararg else []) + \
            [x.arg for x in a.kwonlyargs] + ([a.kwarg.arg] if a.kwarg else [])

    @property
    def positional(self):
        a = self.node.args
        ps = [x.arg for x in getattr(a, 'posonlyargs', []) + a.args]
        if self.cls and ps and ps[0] in ('self', 'cls') and not self.is_static:
            ps = ps[1:]
        return ps

    @property
    def is_static(self):
        return any(isinstance(d, ast.Name) and d.id == 'staticmethod' for d in self.node.decorator_list)

    def defaults(self):
        """param name -> default expr"""
        a = self.node.args
        pos = getattr(a, 'posonlyargs', []) + a.args
        out = {}
        for p, d in zip(pos[len(pos) - len(a.defaults):], a.defaults):
            out[p.arg] = d
        for p, d in zip(a.kwonlyargs, a.kw_defaults):
            if d is not None:
                out[p.arg] = d
        return out

    def loc(self, node=None):
        n = node if node is not None else self.node
        return '%s:%d' % (self.path, getattr(n, 'lineno', 0))

    def __repr__(self):
        return '<func %s>' % self.qual


class ClassInfo(object):
    def __init__(self, qual, node, module, path):
        self.qual = qual
        self.node = node
        self.module = module
        self.path = path
        self.name = node.name
        self.bases = []  # resolved qualified names (package classes) or dotted externals

    def __repr__(self):
        return '<class %s>' % self.qual


class Model(object):
    def __init__(self, root=None, overlay=None, extra_files=()):
        self.root = root or repo_root()
        self.overlay = dict(overlay or {})
        self.files = {}
        self.trees = {}
        self.modules = {}   # module name -> relpath
        self.modpath = {}   # relpath -> module name
        self.funcs = {}
        self.classes = {}
        self.imports = {}
        self.module_assigns = {}  # module -> {name: value expr} for simple top-level assignments
        self._parents = {}
        pkg_abs = os.path.join(self.root, PKG_DIR)
        if not os.path.isdir(pkg_abs):
            raise AnalysisError('package directory %s not found' % pkg_abs)
        paths = sorted(glob.glob(os.path.join(pkg_abs, '**', '*.py'), recursive=True))
        rels = [os.path.relpath(p, self.root) for p in paths]
        for rel in self.overlay:
            if rel.endswith('.py') and rel.startswith(PKG_DIR) and rel not in rels:
                rels.append(rel)
        for rel in sorted(rels):
            if rel in self.overlay:
                text = self.overlay[rel]
                if text is None:
                    continue
            else:
                with open(os.path.join(self.root, rel), encoding='utf-8') as f:
                    text = f.read()
            self.files[rel] = text
            try:
                tree = ast.parse(text, rel)
            except SyntaxError as e:
                raise AnalysisError('%s does not parse: %s' % (rel, e))
            self.trees[rel] = tree
            mod = rel[len('src') + 1:-3].replace(os.sep, '.')
            if mod.endswith('.__init__'):
                mod = mod[:-9]
            self.modules[mod] = rel
            self.modpath[rel] = mod
        if not self.trees:
            raise AnalysisError('no source units found below %s' % pkg_abs)
        for rel, tree in self.trees.items():
            self._index(rel, tree)
        self._resolve_reexports()
        for c in self.classes.values():
            for b in c.node.bases:
                q = self.resolve_expr(c.module, b)
                c.bases.append(q if q else src(b))

    # ------------------------------------------------------------------ indexing
    def _index(self, rel, tree):
        mod = self.modpath[rel]
        imp = self.imports.setdefault(mod, {})
        assigns = self.module_assigns.setdefault(mod, {})
        for parent in ast.walk(tree):
            for child in ast.iter_child_nodes(parent):
                self._parents[id(child)] = parent
        is_pkg = rel.endswith('__init__.py')

        def add_import(n):
            if isinstance(n, ast.ImportFrom):
                base = n.module or ''
                if n.level:
                    parts = mod.split('.')
                    up = parts if is_pkg else parts[:-1]
                    up = up[:len(up) - (n.level - 1)]
                    base = '.'.join(up + ([n.module] if n.module else []))
                for a in n.names:
                    imp[a.asname or a.name] = base + '.' + a.name
            elif isinstance(n, ast.Import):
                for a in n.names:
                    if a.asname:
                        imp[a.asname] = a.name
                    else:
                        imp[a.name.split('.')[0]] = a.name.split('.')[0]

        def index_func(n, prefix, cls, outer):
            q = prefix + '.' + n.name
            fi = FuncInfo(q, n, mod, cls, rel, outer)
            self.funcs[q] = fi
            for x in ast.walk(n):
                pass
            for x in _direct_defs(n.body):
                if isinstance(x, (ast.FunctionDef, ast.AsyncFunctionDef)):
                    index_func(x, q, None, fi)

        def index_body(body, prefix):
            for n in body:
                if isinstance(n, (ast.FunctionDef, ast.AsyncFunctionDef)):
                    index_func(n, prefix, None, None)
                elif isinstance(n, ast.ClassDef):
                    cq = prefix + '.' + n.name
                    self.classes[cq] = ClassInfo(cq, n, mod, rel)
                    for x in n.body:
                        if isinstance(x, (ast.FunctionDef, ast.AsyncFunctionDef)):
                            index_func(x, cq, cq, None)
                        elif isinstance(x, ast.Assign) and isinstance(x.value, ast.Name) and cq + '.' + x.value.id in self.funcs:
                            # class-level alias of a method: `visit_AsyncFor = visit_For`
                            tgt = self.funcs[cq + '.' + x.value.id]
                            for t in x.targets:
                                if isinstance(t, ast.Name):
                                    al = FuncInfo(cq + '.' + t.id, tgt.node, mod, cq, rel, None)
                                    al.name = t.id
                                    al.alias_of = tgt.qual
                                    self.funcs[al.qual] = al
                elif isinstance(n, (ast.Import, ast.ImportFrom)):
                    add_import(n)
                elif isinstance(n, ast.Assign) and len(n.targets) == 1 and isinstance(n.targets[0], ast.Name):
                    assigns[n.targets[0].id] = n.value
                elif isinstance(n, (ast.If, ast.Try)):
                    # version switches / optional imports at module level
                    for sub in ('body', 'orelse', 'finalbody'):
                        index_body(getattr(n, sub, []) or [], prefix)
                    for h in getattr(n, 'handlers', []) or []:
                        index_body(h.body, prefix)

        index_body(tree.body, mod)
        # function-level imports (e.g. `import python_minifier.f_string` inside a method) are recorded too
        for n in ast.walk(tree):
            if isinstance(n, (ast.Import, ast.ImportFrom)) and self._parents.get(id(n)) is not tree:
                add_import(n)

    def _resolve_reexports(self):
        changed = True
        rounds = 0
        while changed and rounds < 10:
            changed = False
            rounds += 1
            for m, imp in self.imports.items():
                for k, q in list(imp.items()):
                    if q in self.funcs or q in self.classes:
                        continue
                    mod, _, name = q.rpartition('.')
                    # `from pkg import name`: an explicit import of `name` in pkg/__init__ shadows a sub-module of that name
                    if mod in self.imports and mod != m and name in self.imports[mod] and self.imports[mod][name] != q:
                        imp[k] = self.imports[mod][name]
                        changed = True

    # ------------------------------------------------------------------ lookup
    def parent(self, node):
        return self._parents.get(id(node))

    def func(self, qual):
        fi = self.funcs.get(qual)
        if fi is None:
            raise LostAnchor('anchor function %s not found' % qual)
        return fi

    def cls(self, qual):
        ci = self.classes.get(qual)
        if ci is None:
            raise LostAnchor('anchor class %s not found' % qual)
        return ci

    def tree(self, mod):
        if mod not in self.modules:
            raise LostAnchor('anchor module %s not found' % mod)
        return self.trees[self.modules[mod]]

    def path(self, mod):
        if mod not in self.modules:
            raise LostAnchor('anchor module %s not found' % mod)
        return self.modules[mod]

    def methods(self, cq, own_only=False):
        """name -> FuncInfo visible on class cq (through the MRO)."""
        out = {}
        for k in (self.mro(cq) if not own_only else [cq]):
            for q, fi in self.funcs.items():
                if fi.cls == k and fi.name not in out:
                    out[fi.name] = fi
        return out

    def mro(self, cq):
        """C3 linearisation over the classes of the repository (bases outside it are left out)."""
        cache = self.__dict__.setdefault('_mro_cache', {})
        if cq in cache:
            return cache[cq]
        if cq not in self.classes:
            cache[cq] = []
            return cache[cq]
        cache[cq] = [cq]       # guard against cycles while computing
        bases = [b for b in self.classes[cq].bases if b in self.classes]
        seqs = [list(self.mro(b)) for b in bases] + [list(bases)]
        out = [cq]
        while True:
            seqs = [s_ for s_ in seqs if s_]
            if not seqs:
                break
            for s_ in seqs:
                head = s_[0]
                if not any(head in t[1:] for t in seqs):
                    break
            else:
                head = seqs[0][0]      # inconsistent hierarchy: fall back to depth first
            out.append(head)
            for s_ in seqs:
                if s_ and s_[0] == head:
                    del s_[0]
        cache[cq] = out
        return out

    def subclasses(self, cq):
        return [q for q in self.classes if cq in self.mro(q)[1:]]

    def require_names(self, *names):
        """Internal helper names a white-box rule answers with hooks (functions or methods, by short name) must exist somewhere in the package."""
        have = self.__dict__.get('_short_names')
        if have is None:
            have = self.__dict__['_short_names'] = {q.rsplit('.', 1)[1] for q in self.funcs}
        names = [n for n in names if not n.startswith('ast.') and n not in ('iter_child_nodes', 'iter_fields', 'get_parent', 'set_parent', 'dir')]
        missing = [n for n in names if n.lstrip('.').split('.')[-1] not in have]
        if missing:
            raise LostAnchor('internal helper(s) %s no longer exist under that name' % ', '.join(missing))

    def undecided(self, hook_names, message):
        """An abstract run over a synthetic world did not come to a verdict. When some of the internal helpers the world answers by name are
        gone, that is why (a lost anchor); otherwise it is an undecided evaluation."""
        try:
            self.require_names(*hook_names)
        except LostAnchor as e:
            raise LostAnchor('%s -- %s' % (e, message[:160]))
        raise AnalysisError(message)

    def require_attrs(self, cq, *attrs):
        """A white-box rule builds objects of class cq by hand, with its state in the named instance attributes: the class (or a base / subclass of it in
        the package) must still assign those attributes on self."""
        if cq not in self.classes:
            raise LostAnchor('anchor class %s not found' % cq)
        have = set()
        family = set(self.mro(cq)) | set(self.subclasses(cq))
        for q, fi in self.funcs.items():
            if fi.cls in family:
                for n in ast.walk(fi.node):
                    if isinstance(n, ast.Attribute) and isinstance(n.value, ast.Name) and n.value.id == 'self':
                        have.add(n.attr)
        missing = [a for a in attrs if a not in have]
        if missing:
            raise LostAnchor('class %s no longer keeps its state in the attribute(s) %s' % (cq.rsplit('.', 1)[1], ', '.join(missing)))

    def require_method(self, cq, name):
        fi = self.method(cq, name) if cq in self.classes else None
        if fi is None:
            raise LostAnchor('anchor method %s.%s not found' % (cq, name))
        return fi

    def method(self, cq, name):
        cache = self.__dict__.setdefault('_method_cache', {})
        key = (cq, name)
        if key not in cache:
            cache[key] = self._method(cq, name)
        return cache[key]

    def _method(self, cq, name):
        for k in self.mro(cq):
            fi = self.funcs.get(k + '.' + name)
            if fi is not None:
                return fi
        return None

    def resolve_name(self, mod, name):
        """Qualified name of a package function/class/module that `name` refers to in module `mod`, else the
        dotted external name (e.g. 'ast.parse', 'os'), else None."""
        q = mod + '.' + name
        if q in self.funcs or q in self.classes:
            return q
        q = self.imports.get(mod, {}).get(name)
        return q

    def resolve_expr(self, mod, e):
        """Resolve Name / dotted Attribute chains to a qualified name."""
        if isinstance(e, ast.Name):
            return self.resolve_name(mod, e.id)
        if isinstance(e, ast.Attribute):
            base = self.resolve_expr(mod, e.value)
            if base is None:
                return None
            q = base + '.' + e.attr
            if base in self.modules:
                # attribute of a package module: may itself be an import there
                if q in self.funcs or q in self.classes or q in self.modules:
                    return q
                tgt = self.imports.get(base, {}).get(e.attr)
                return tgt or q
            return q
        return None

    def is_ast_alias(self, mod, name):
        """Is `name` in module `mod` the repo's ast shim or the stdlib ast module?"""
        q = self.imports.get(mod, {}).get(name)
        return q in ('python_minifier.ast_compat', 'ast')

    def enclosing_function(self, rel, node):
        cur = self.parent(node)
        while cur is not None and not isinstance(cur, (ast.FunctionDef, ast.AsyncFunctionDef)):
            cur = self.parent(cur)
        if cur is None:
            return None
        for fi in self.funcs.values():
            if fi.node is cur:
                return fi
        return None

    def func_of_node(self, fnode):
        idx = self.__dict__.get('_by_node')
        if idx is None:
            idx = self._by_node = {id(fi.node): fi for fi in self.funcs.values()}
        return idx.get(id(fnode))

    def digest(self):
        if self.__dict__.get('_digest'):
            return self._digest
        self._digest = self._compute_digest()
        return self._digest

    def _compute_digest(self):
        h = hashlib.sha256()
        for rel in sorted(self.files):
            h.update(rel.encode())
            h.update(self.files[rel].encode())
        return h.hexdigest()[:16]

    def units(self):
        return sorted(self.files)


def _direct_defs(body):
    """Function definitions nested in a body, not descending into other defs/classes."""
    out = []
    stack = list(body)
    while stack:
        n = stack.pop(0)
        if isinstance(n, (ast.FunctionDef, ast.AsyncFunctionDef)):
            out.append(n)
            continue
        if isinstance(n, ast.ClassDef):
            continue
        for c in ast.iter_child_nodes(n):
            if isinstance(c, ast.stmt) or isinstance(c, ast.ExceptHandler) or isinstance(c, getattr(ast, 'match_case', ())):
                stack.append(c)
    return out


def walk_own(fnode):
    """Pre-order, source-order walk over a function body without descending into nested function/class definitions
    (lambdas are part of the body)."""
    stack = list(reversed(fnode.body)) if isinstance(fnode, (ast.FunctionDef, ast.AsyncFunctionDef)) else [fnode]
    while stack:
        n = stack.pop()
        yield n
        if isinstance(n, (ast.FunctionDef, ast.AsyncFunctionDef, ast.ClassDef)):
            continue
        stack.extend(reversed(list(ast.iter_child_nodes(n))))
