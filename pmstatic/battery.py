"""Sensitivity battery: variants of the repository built as in-memory overlays (nothing is written to disk, /repo is untouched).

MUST_FIRE  variants break one structural obligation while staying syntactically valid; the named rule must report a violation.
MUST_STAY_SILENT variants are behaviour-preserving edits; the property's check must report nothing.
A variant whose `old` text no longer occurs exactly once in the current tree is skipped with a note (the tree has moved on);
a variant that applies and is not reported means the checker lost sensitivity -> ANALYSIS-ERROR, never a pass.
"""
S = 'src/python_minifier/'

MUST_FIRE = [
    # ---- regressions of the defects D21-D26 (each fix undone)
    ('C02', 'NUL in a string nested in a replacement field refused again (D28)', S + 'f_string.py', "        if not self.pep701 and ('\\0' in self._s or '\\\\' in self._s):", "        if '\\0' in self._s or ('\\\\' in self._s and not self.pep701):", 'C02.NUM'),
    ('C05', 'object bases removed although the module binds the name object (D27)', S + 'transforms/remove_object_base.py', "        if self.binds_object(node):", "        if False:", 'C05.OBJ'),
    ('C03', 'global / nonlocal statement rewritten by value again (D21)', S + 'rename/binding.py', "                names = list(node.names)\n                if self._name in names:\n                    names[names.index(self._name)] = new_name\n                node.names = names\n", "                node.names = [new_name if n == self._name else n for n in node.names]\n", 'C03.E2E'),
    ('C03', 'a global statement binds the name again (D22)', S + 'rename/bind_names.py', "        # It is resolved later, to the module binding if one exists, or as a builtin / unbound name otherwise\n        pass\n", "        for name in node.names:\n            self.get_binding(name, node.namespace).add_reference(node)\n", 'C03.E2E'),
    ('C03', 'parenthesised annotated name without value bound as a local again (D23)', S + 'rename/bind_names.py', "        if node.value is None and not node.simple and isinstance(node.target, ast.Name):", "        if False:", 'C03.E2E'),
    ('C03', 'class body store no longer pins the global of that name (D24)', S + 'rename/resolve_names.py', "            get_binding(node.id, get_global_namespace(node)).disallow_rename()\n", "", 'C03.E2E'),
    ('C06', 'annotated / augmented __slots__ hoisted again (D25)', S + 'rename/rename_literals.py', "            if isinstance(node.target, ast.Name) and node.target.id == '__slots__':", "            if False:", 'C06.VAL'),
    ('C05', 'positional-only marker removed next to **kwargs again (D26)', S + 'transforms/remove_posargs.py', "hasattr(node, 'posonlyargs') and node.kwarg is None:", "hasattr(node, 'posonlyargs'):", 'C05.POS'),
    # ---- C01
    ('C01', 'default of remove_asserts flipped', S + '__init__.py', '    remove_asserts=False,\n', '    remove_asserts=True,\n', 'C01.DEF'),
    ('C01', 'default of combine_imports flipped', S + '__init__.py', '    combine_imports=True,\n', '    combine_imports=False,\n', 'C01.DEF'),
    ('C01', 'class attribute annotations removed by default', S + 'transforms/remove_annotations_options.py', 'remove_argument_annotations=True, remove_class_attribute_annotations=False):', 'remove_argument_annotations=True, remove_class_attribute_annotations=True):', 'C01.DEF'),
    ('C01', 'resolve_names before bind_names', S + '__init__.py', '    bind_names(module)\n    resolve_names(module)\n', '    resolve_names(module)\n    bind_names(module)\n', 'C01.PIPE'),
    ('C01', 'allow_rename_globals after rename', S + '__init__.py', "    allow_rename_globals(module, rename_globals, preserve_globals)\n\n    if hoist_literals:\n        rename_literals(module)\n\n    rename(module, prefix_globals=not rename_globals, preserved_globals=preserve_globals)\n",
     "    if hoist_literals:\n        rename_literals(module)\n\n    rename(module, prefix_globals=not rename_globals, preserved_globals=preserve_globals)\n    allow_rename_globals(module, rename_globals, preserve_globals)\n", 'C01.PIPE'),
    ('C01', 'transform result dropped', S + '__init__.py', '        module = RemovePass()(module)', '        RemovePass()(ast.parse(source))', 'C01.PIPE'),
    ('C01', 'self check removed from unparse', S + '__init__.py', "    try:\n        compare_ast(module, minified_module)\n    except CompareError as compare_error:\n        raise UnstableMinification(compare_error, '', printer.code)\n", '', 'C01.SELF'),
    ('C01', 'transform reads bindings before they exist', S + 'transforms/remove_pass.py', "    def __call__(self, node):\n        return self.visit(node)\n", "    def __call__(self, node):\n        if node.bindings:\n            return node\n        return self.visit(node)\n", 'C01.ANNOT'),
    # ---- C02
    ('C02', 'visit_Starred deleted', S + 'expression_printer.py', "    def visit_Starred(self, node):\n", "    def visit_StarredX(self, node):\n", 'C02.EX1'),
    ('C02', 'Match dropped from compound_statements', S + 'module_printer.py', "            'Match',\n            'match_case'\n", "            'match_case'\n", 'C02.TAB1'),
    ('C02', 'TryStar dropped from statement dispatch', S + 'module_printer.py', "            'TryStar': self.visit_TryStar,\n", '', 'C02.EX2'),
    ('C02', '_rhs loses left-associativity', S + 'expression_printer.py', "            or (op_precedence == right_precedence and self._is_left_associative(op_node))\n        ):\n            self.printer.delimiter('(')\n            self._expression(right_node)", "        ):\n            self.printer.delimiter('(')\n            self._expression(right_node)", 'C02.ENUM1'),
    ('C02', 'BitXor and BitAnd precedence swapped', S + 'expression_printer.py', "            'BitXor': 9,\n            'BitAnd': 10,", "            'BitXor': 10,\n            'BitAnd': 9,", 'C02.ENUM1'),
    ('C02', 'NamedExpr not parenthesised by _expression', S + 'expression_printer.py', "        elif isinstance(expression, ast.NamedExpr):\n            self.printer.delimiter('(')\n            self.visit_NamedExpr(expression)\n            self.printer.delimiter(')')\n        else:\n            self.visit(expression)\n\n    def _testlist", "        else:\n            self.visit(expression)\n\n    def _testlist", 'C02.ENUM1'),
    ('C02', 'float trailing zero strip too greedy', S + 'token_printer.py', "        elif s.endswith('.0'):\n            s = s[:-1]", "        elif s.endswith('.0'):\n            s = s[:-2]", 'C02.NUM'),
    ('C02', 'soft keyword set shrunk', S + 'token_printer.py', "        if kw in ['_', 'case', 'match', 'type']:", "        if kw in ['_', 'case', 'match']:", 'C02.KEYW'),
    ('C02', 'single element tuple loses its comma', S + 'expression_printer.py', "        if len(node.elts) == 1:\n            self.printer.delimiter(',')\n\n    def visit_Set", "        if len(node.elts) == 1:\n            pass\n\n    def visit_Set", 'C02.ENUM1'),
    ('C02', 'generator argument parentheses always omitted', S + 'expression_printer.py', "            if single_call and isinstance(arg, ast.GeneratorExp):", "            if isinstance(arg, ast.GeneratorExp):", 'C02.ENUM1'),
    ('C02', 'MatchOr alternatives not parenthesised', S + 'module_printer.py', "            if isinstance(pattern, (ast.MatchAs, ast.MatchOr)):", "            if isinstance(pattern, (ast.MatchOr,)):", 'C02.PAT'),
    # ---- C03
    ('C03', 'decorators resolved in the function namespace', S + 'rename/mapper.py', "    for node in functiondef.decorator_list:\n        add_parent(node, namespace=functiondef.namespace)", "    for node in functiondef.decorator_list:\n        add_parent(node, namespace=functiondef)", 'C03.TAB'),
    ('C03', 'first comprehension iterable resolved inside the comprehension', S + 'rename/mapper.py', "    iter_namespace = namespace\n    for generator in node.generators:", "    iter_namespace = node\n    for generator in node.generators:", 'C03.TAB'),
    ('C03', 'class keywords resolved in the class', S + 'rename/mapper.py', "        for node in classdef.keywords:\n            add_parent(node, namespace=classdef.namespace)", "        for node in classdef.keywords:\n            add_parent(node, namespace=classdef)", 'C03.TAB'),
    ('C03', 'MatchStar rename arm deleted', S + 'rename/binding.py', "            elif isinstance(node, ast.MatchStar):\n                node.name = new_name\n", "", 'C03.EX'),
    ('C03', 'ExceptHandler binder arm disabled', S + 'rename/bind_names.py', "            if isinstance(node.name, str) and node.name not in node.namespace.nonlocal_names:\n                # python 3\n                self.get_binding(node.name, node.namespace).add_reference(node)", "            if isinstance(node.name, str) and node.name not in node.namespace.nonlocal_names:\n                # python 3\n                pass", 'C03.RESOLVE'),
    ('C03', 'name generator unfiltered', S + 'rename/name_generator.py', "    for name in name_generator():\n        if name not in reserved:\n            yield name", "    for name in name_generator():\n        yield name", 'C03.FLOW'),
    ('C03', 'builtins not excluded from generated names', S + 'rename/name_generator.py', "    reserved = keyword.kwlist + dir(builtins)", "    reserved = keyword.kwlist", 'C03.FLOW'),
    ('C03', 'is_available is existential', S + 'rename/renamer.py', "        return all(name not in namespace.assigned_names for namespace in reservation_scope)", "        return any(name not in namespace.assigned_names for namespace in reservation_scope)", 'C03.RES'),
    ('C03', 'reservation scope stops at the first reference', S + 'rename/renamer.py', "        while node is not namespace:\n            namespaces.add(node.namespace)\n            node = node.namespace\n", "        while node is not namespace:\n            namespaces.add(node.namespace)\n            node = node.namespace\n        break\n", 'C03.RES'),
    ('C03', 'kept names not reserved', S + 'rename/renamer.py', "            if binding.name is not None:\n                reserve_name(binding.name, scope)", "            if binding.name is not None and binding.allow_rename:\n                reserve_name(binding.name, scope)", 'C03.RES'),
    ('C03', 'global statement printed from a different field', S + 'module_printer.py', "        self.printer.keyword('nonlocal')\n        delimiter = Delimiter(self.printer)\n        for n in node.names:", "        self.printer.keyword('nonlocal')\n        delimiter = Delimiter(self.printer)\n        for n in node.idents:", 'C03.SIB'),
    # ---- C04
    ('C04', 'keyword-only parameters renamed in the signature', S + 'rename/util.py', "    if hasattr(func.args, 'posonlyargs') and node in func.args.posonlyargs:\n        return True\n\n    return False", "    if hasattr(func.args, 'posonlyargs') and node in func.args.posonlyargs:\n        return True\n\n    return node in func.args.kwonlyargs", 'C04.ARG'),
    ('C04', 'decorated methods rename their first parameter', S + 'rename/util.py', "            if len(func.decorator_list) == 0:\n                # rename 'self'\n                return True", "            if len(func.decorator_list) >= 0:\n                # rename 'self'\n                return True", 'C04.ARG'),
    ('C04', 'class namespace pin removed', S + 'rename/bind_names.py', "        if isinstance(namespace, ast.ClassDef):\n            # This name will become an attribute of the class, so it can't be renamed\n            binding.disallow_rename()\n", "", 'C04.PIN'),
    ('C04', 'dunder pin requires single underscore only', S + 'rename/binding.py', "        if name.startswith('__') and name.endswith('__'):", "        if name.startswith('___') and name.endswith('__'):", 'C04.PIN'),
    ('C04', 'unresolved globals renamable', S + 'rename/resolve_names.py', "            binding = NameBinding(name)\n            binding.disallow_rename()\n            namespace.bindings.append(binding)", "            binding = NameBinding(name)\n            namespace.bindings.append(binding)", 'C04.PIN'),
    ('C04', 'prefix_globals passed unnegated', S + '__init__.py', "prefix_globals=not rename_globals", "prefix_globals=rename_globals", 'C04.GLOB'),
    ('C04', 'attribute names rewritten', S + 'rename/binding.py', "            elif isinstance(node, ast.ExceptHandler):\n                node.name = new_name\n            elif isinstance(node, (ast.Global", "            elif isinstance(node, ast.Attribute):\n                node.attr = new_name\n            elif isinstance(node, ast.ExceptHandler):\n                node.name = new_name\n            elif isinstance(node, (ast.Global", 'C04.OWN1'),
    ('C04', 'dotted import root renamable', S + 'rename/bind_names.py', "                if '.' in node.name:\n                    binding.disallow_rename()\n\n    def visit_arguments", "                if '.' in node.name:\n                    pass\n\n    def visit_arguments", 'C04.PIN'),
    # ---- C05
    ('C05', 'RemoveAsserts gated by remove_pass', S + '__init__.py', "    if remove_asserts:\n        module = RemoveAsserts()(module)", "    if remove_pass:\n        module = RemoveAsserts()(module)", 'C05.GATE'),
    ('C05', 'RemoveObject ungated', S + '__init__.py', "    if remove_object_base:\n        module = RemoveObject()(module)", "    module = RemoveObject()(module)", 'C05.GATE'),
    ('C05', 'empty-suite guard dropped in RemoveAsserts', S + 'transforms/remove_asserts.py', "        if len(without_assert) == 0:\n            if isinstance(parent, ast.Module):\n                return []\n            else:\n                return [self.add_child(ast.Expr(value=ast.Num(0)), parent=parent)]\n\n", "", 'C05.SUITE'),
    ('C05', 'RemovePass also drops Ellipsis statements', S + 'transforms/remove_pass.py', "filter(lambda n: not isinstance(n, ast.Pass), node_list)", "filter(lambda n: not isinstance(n, (ast.Pass, ast.Expr)), node_list)", 'C05.SUITE'),
    ('C05', 'brackets removed for every builtin, not only exceptions', S + 'transforms/remove_exception_brackets.py', "        if binding.name in builtin_exceptions:", "        if binding.name:", 'C05.EXC'),
    ('C05', 'raise-statement test dropped from the bracket removal', S + 'transforms/remove_exception_brackets.py', "        if not isinstance(get_parent(call_node), ast.Raise):\n            # This is not a raise statement\n            continue\n", "", 'C05.EXC'),
    ('C05', 'brackets removed from calls with keywords', S + 'transforms/remove_exception_brackets.py', "        if len(call_node.args) > 0 or len(call_node.keywords) > 0:", "        if len(call_node.args) > 0:", 'C05.EXC'),
    ('C05', 'argument annotations removed under the return option', S + 'transforms/remove_annotations.py', "    def visit_arg(self, node):\n        if self._options.remove_argument_annotations:", "    def visit_arg(self, node):\n        if self._options.remove_return_annotations:", 'C05.ANN'),
    ('C05', 'TypedDict no longer protected', S + 'transforms/remove_annotations.py', "            tricky_types = ['NamedTuple', 'TypedDict']", "            tricky_types = ['NamedTuple']", 'C05.ANN'),
    ('C05', 'value-less annotation dropped entirely', S + 'transforms/remove_annotations.py', "            node.annotation = self.add_child(ast.Num(0), parent=get_parent(node), namespace=node.namespace)\n            return node", "            return self.add_child(ast.Expr(value=node.target), parent=get_parent(node), namespace=node.namespace)", 'C05.ANN'),
    ('C05', 'return False rewritten to bare return', S + 'transforms/remove_explicit_return_none.py', "is_constant_node(node.value, ast.NameConstant) and node.value.value is None:", "is_constant_node(node.value, ast.NameConstant) and not node.value.value:", 'C05.RET'),
    ('C05', 'attribute bases named object removed', S + 'transforms/remove_object_base.py', "            b for b in node.bases if not isinstance(b, ast.Name) or (isinstance(b, ast.Name) and b.id != 'object')", "            b for b in node.bases if not (isinstance(b, ast.Name) and b.id == 'object') and not (isinstance(b, ast.Attribute) and b.attr == 'object')", 'C05.OBJ'),
    ('C05', 'from-imports merged across levels', S + 'transforms/combine_imports.py', "            if statement.module == prev_import.module and statement.level == prev_import.level:", "            if statement.module == prev_import.module:", 'C05.IMP'),
    ('C05', 'star imports merged', S + 'transforms/combine_imports.py', "            if len(statement.names) == 1 and statement.names[0].name == '*':\n                return False\n", "", 'C05.IMP'),
    ('C05', 'match case bodies not routed', S + 'transforms/suite_transformer.py', "            node.guard = self.visit(node.guard)\n\n        node.body = self.suite(node.body, parent=node)\n        return node", "            node.guard = self.visit(node.guard)\n\n        node.body = [self.visit(n) for n in node.body]\n        return node", 'C05.SUITE'),
    ('C05', 'remove_debug accepts any left operand again', S + 'transforms/remove_debug.py', "        if not isinstance(node.test.left, ast.Name) or node.test.left.id != '__debug__':\n            return False\n", "", 'C05.DEBUG'),
    ('C05', 'remove_debug also removes `is not True`', S + 'transforms/remove_debug.py', "isinstance(node.test.ops[0], ast.IsNot) and self.constant_value(node.test.comparators[0]) is False:", "isinstance(node.test.ops[0], ast.IsNot) and self.constant_value(node.test.comparators[0]) is not None:", 'C05.DEBUG'),
    ('C05', 'posonly arguments appended instead of prepended', S + 'transforms/remove_posargs.py', "        node.args = node.posonlyargs + node.args", "        node.args = node.args + node.posonlyargs", 'C05.POS'),
    ('C05', 'bind_names rewrites the tree', S + 'rename/bind_names.py', "        module.tainted = False\n", "        module.tainted = False\n        module.body = list(module.body)\n", 'C05.EFF'),
    # ---- C06
    ('C06', 'insert ignores __future__ imports', S + 'rename/util.py', "            if (isinstance(node, ast.ImportFrom) and node.module == '__future__') or (\n                isinstance(node, ast.Expr) and is_constant_node(node.value, ast.Str)\n            ):", "            if (\n                isinstance(node, ast.Expr) and is_constant_node(node.value, ast.Str)\n            ):", 'C06.INS'),
    ('C06', 'insert treats bytes statements as docstrings', S + 'rename/util.py', "isinstance(node, ast.Expr) and is_constant_node(node.value, ast.Str)\n            ):", "isinstance(node, ast.Expr) and is_constant_node(node.value, (ast.Str, ast.Num))\n            ):", 'C06.INS'),
    ('C06', 'type conjunct dropped from HoistedValue.__eq__', S + 'rename/rename_literals.py', "        return type(self._value) == type(other._value) and self._value == other._value", "        return self._value == other._value", 'C06.KEY'),
    ('C06', 'match patterns visited by the hoister', S + 'rename/rename_literals.py', "        # Can't hoist literals in a pattern\n", "        # Can't hoist literals in a pattern\n        self.visit(node.pattern)\n", 'C06.EXCL'),
    ('C06', 'f-string text hoisted', S + 'rename/rename_literals.py', "            if is_constant_node(v, ast.Str):\n                # Can't hoist this!\n                continue\n", "", 'C06.EXCL'),
    ('C06', 'literal statements hoisted', S + 'rename/rename_literals.py', "        if isinstance(get_parent(node), ast.Expr):", "        if isinstance(get_parent(node), ast.Module):", 'C06.EXCL'),
    ('C06', 'hoisted bindings placed in class namespaces', S + 'rename/rename_literals.py', "        if isinstance(node.namespace, (ast.FunctionDef, ast.Module, ast.AsyncFunctionDef)):\n            return node.namespace\n        return self.nearest_function_namespace(node.namespace)", "        if isinstance(node.namespace, (ast.FunctionDef, ast.Module, ast.AsyncFunctionDef, ast.ClassDef)):\n            return node.namespace\n        return self.nearest_function_namespace(node.namespace)", 'C06.PLACE'),
    ('C06', 'binding placed in the first use\'s namespace', S + 'rename/rename_literals.py', "                    namespace_path = self.common_path(namespace_path, self.namespace_path(node))", "                    pass", 'C06.PLACE'),
    ('C06', 'assignment value is a copy with another value', S + 'rename/rename_literals.py', "ast.Assign(targets=[ast.Name(id=new_name, ctx=ast.Store())], value=self._value_node),", "ast.Assign(targets=[ast.Name(id=new_name, ctx=ast.Store())], value=ast.Str(str(self.value))),", 'C06.VAL'),
    # ---- C07
    ('C07', 'non-shorter folds kept', S + 'transforms/constant_folding.py', "        if len(folded_expression) >= len(original_expression):", "        if len(folded_expression) > len(original_expression):", 'C07.ENUM'),
    ('C07', 'type test dropped', S + 'transforms/constant_folding.py', "    if type(a) != type(b):\n        return False\n", "", 'C07.TYPE'),
    ('C12', 'operand guard widened to names', S + 'transforms/constant_folding.py', "        if not is_constant_node(node.left, (ast.Num, ast.NameConstant)):", "        if not is_constant_node(node.left, (ast.Num, ast.NameConstant, ast.Name)):", 'C12.FOLD'),
    ('C12', 'NaN guard removed: the text nan reaches eval', S + 'transforms/constant_folding.py', "        if isinstance(original_value, float) and math.isnan(original_value):\n            # There is no nan literal.\n            # we could use float('nan'), but that complicates folding as it's not a Constant\n            return node\n        elif isinstance(original_value, bool):", "        if isinstance(original_value, bool):", 'C12.FOLD'),
    ('C07', 'Div folded', S + 'transforms/constant_folding.py', "        if isinstance(node.op, ast.Div):", "        if isinstance(node.op, ast.MatMult):", 'C07.ENUM'),
    ('C07', 'narrow handler around the evaluation', S + 'transforms/constant_folding.py', "            original_value = safe_eval(original_expression)\n        except Exception:", "            original_value = safe_eval(original_expression)\n        except ZeroDivisionError:", 'C07.ENUM'),
    # ---- C08
    ('C08', 'ast.parse wrapped in try', S + '__init__.py', "    module = ast.parse(source, filename)\n", "    try:\n        module = ast.parse(source, filename)\n    except SyntaxError:\n        raise ValueError('bad source')\n", 'C08.PASS'),
    ('C08', 'f-string candidate generation unprotected', S + 'f_string.py', "                    try:\n                        candidates = [x + self.str_for(v.s, quote) for x in candidates]\n                    except Exception:\n                        continue", "                    candidates = [x + self.str_for(v.s, quote) for x in candidates]", 'C08.ERRD'),
    ('C08', 'integer fallback removed', S + 'token_printer.py', "        try:\n            s = repr(v)\n        except ValueError:\n            # The decimal representation exceeds the interpreter's int to str conversion limit\n            s = h\n", "        s = repr(v)\n", 'C08.CELLS'),
    ('C08', 'visit_TypeAlias deleted', S + 'module_printer.py', "    def visit_TypeAlias(self, node):", "    def visit_TypeAliasX(self, node):", 'C08.EX1'),
    # ---- C09
    ('C09', 'vars dropped from the trigger list', S + 'rename/resolve_names.py', "['exec', 'eval', 'locals', 'globals', 'vars']", "['exec', 'eval', 'locals', 'globals']", 'C09.TRIG'),
    ('C09', 'taint override removed for rename_locals', S + '__init__.py', "        rename_globals = False\n        rename_locals = False\n", "        rename_globals = False\n", 'C09.GATE'),
    ('C09', 'hoisting runs when tainted', S + '__init__.py', "        rename_locals = False\n        hoist_literals = False\n", "        rename_locals = False\n", 'C09.GATE'),
    ('C09', 'star import no longer taints', S + 'rename/bind_names.py', "        if node.name == '*':\n            get_global_namespace(node).tainted = True\n", "", 'C09.TRIG'),
    ('C09', 'taint recomputed for every builtin that is resolved', S + 'rename/resolve_names.py', "            if name in ['exec', 'eval', 'locals', 'globals', 'vars']:\n                namespace.tainted = True\n", "            namespace.tainted = name in ['exec', 'eval', 'locals', 'globals', 'vars']\n", 'C09.'),
    ('C09', 'exception brackets removed when tainted', S + '__init__.py', "    if remove_builtin_exception_brackets and not module.tainted:", "    if remove_builtin_exception_brackets:", 'C09.GATE'),
    ('C09', 'allow_rename_locals ignores the switch', S + 'rename/util.py', "            if rename_locals is False:\n                binding.disallow_rename()\n            elif binding.name in preserve_locals:", "            if binding.name in preserve_locals:", 'C09.GATE'),
    # ---- C10
    ('C10', 'preserve lists swapped at the call', S + '__init__.py', "    allow_rename_locals(module, rename_locals, preserve_locals)", "    allow_rename_locals(module, rename_locals, preserve_globals)", 'C10.FLOW'),
    ('C10', 'find__all__ call removed', S + 'rename/util.py', "    preserve_globals.extend(find__all__(module))\n", "", 'C10.GUARD'),
    ('C10', 'str normalisation removed', S + '__init__.py', "    elif isinstance(preserve_locals, str):\n        preserve_locals = [preserve_locals]\n", "", 'C10.FLOW'),
    ('C10', 'preserved globals not forwarded to the renamer', S + '__init__.py', "preserved_globals=preserve_globals)", "preserved_globals=None)", 'C10.FLOW'),
    ('C10', 'awslambda forgets the entrypoint', S + '__init__.py', "rename_globals=rename_globals, preserve_globals=[entrypoint],", "rename_globals=rename_globals, preserve_globals=[],", 'C10.FLOW'),
    ('C10', '__all__ only from plain assignments', S + 'rename/util.py', "        elif isinstance(node, (ast.AugAssign, ast.AnnAssign)):\n            if isinstance(node.target, ast.Name) and node.target.id == '__all__':\n                return True\n", "", 'C10.FLOW'),
    ('C10', 'preserved globals not reserved', S + 'rename/renamer.py', "            for name in reserved_globals:\n                module.assigned_names.add(name)", "            for name in reserved_globals:\n                pass", 'C10.GUARD'),
    ('C10', 'membership test inverted for locals', S + 'rename/util.py', "            elif binding.name in preserve_locals:\n                binding.disallow_rename()", "            elif binding.name not in preserve_locals:\n                binding.disallow_rename()", 'C10.GUARD'),
    # ---- C11
    ('C11', 'caller list sorted in place', S + '__init__.py', "    # Don't modify the caller's lists\n", "    if preserve_locals: preserve_locals.sort()\n", 'C11.MUT'),
    ('C11', 'module level cache', S + 'rename/name_generator.py', "def name_filter():\n", "_seen = []\n\n\ndef name_filter():\n    _seen.append(1)\n", 'C11.GLOB'),
    ('C11', 'preserved set feeds output order', S + '__init__.py', "    preserve_locals = list(preserve_locals) + sorted(module.preserved)", "    preserve_locals = list(preserve_locals) + list(module.preserved)", 'C11.ORDR'),
    ('C11', 'random suffix for new names', S + 'rename/renamer.py', "    def available_name(self, reservation_scope, prefix=''):\n", "    def available_name(self, reservation_scope, prefix=''):\n        import random\n        random.random()\n", 'C11.ND'),
    ('C11', 'options object mutated', S + '__init__.py', "        remove_annotations_options = remove_annotations\n", "        remove_annotations_options = remove_annotations\n        remove_annotations.remove_class_attribute_annotations = False\n", 'C11.'),
    # ---- C12
    ('C12', 'backslash removed from the escape table', S + 'ministring.py', "            '\\n': BACKSLASH + 'n',\n            '\\\\': BACKSLASH + BACKSLASH,\n            '\\a': BACKSLASH + 'a',", "            '\\n': BACKSLASH + 'n',\n            '\\a': BACKSLASH + 'a',", 'C12.ESC'),
    ('C12', 'eval with the caller\'s globals', S + 'transforms/constant_folding.py', "    return eval(expression, empty_globals, empty_locals)", "    return eval(expression, globals(), empty_locals)", 'C12.SINK'),
    ('C12', 'new __import__ of a name from the input', S + 'rename/bind_names.py', "        root_module = node.name.split('.')[0]\n\n        if root_module == 'timeit':", "        root_module = node.name.split('.')[0]\n        __import__(root_module)\n\n        if root_module == 'timeit':", 'C12.SINK'),
    ('C12', 'quote clash no longer refused', S + 'f_string.py', "        if c == self.current_quote[0]:\n            return False\n\n        return True\n\n    def _get_quote(self, c):\n        for quote in self.allowed_quotes:\n            if not self.pep701", "        return True\n\n    def _get_quote(self, c):\n        for quote in self.allowed_quotes:\n            if not self.pep701", 'C12.ESC'),
    ('C12', 'file read outside the CLI', S + 'rename/util.py', "def find__all__(module):\n\n    names = []\n", "def find__all__(module):\n\n    names = []\n    open('/etc/hostname').close()\n", 'C12.IO'),
    ('C12', 'folding evaluates names', S + 'transforms/constant_folding.py', "        if not is_constant_node(node.right, (ast.Num, ast.NameConstant)):\n            return node\n", "", 'C12.FOLD'),
    # ---- C13
    ('C13', 'dest of two flags swapped', S + '__main__.py', "        help='Enable removing assert statements',\n        dest='remove_asserts',", "        help='Enable removing assert statements',\n        dest='remove_debug_',", 'C13.'),
    ('C13', 'store_false turned into store_true', S + '__main__.py', "        '--no-hoist-literals',\n        action='store_false',", "        '--no-hoist-literals',\n        action='store_true',", 'C13.'),
    ('C13', 'keyword dropped from the forwarding call', S + '__main__.py', "        remove_debug=minification_args.remove_debug,\n", "", 'C13.FLAGS'),
    ('C13', 'keywords crossed in the forwarding call', S + '__main__.py', "        remove_asserts=minification_args.remove_asserts,\n        remove_debug=minification_args.remove_debug,", "        remove_asserts=minification_args.remove_debug,\n        remove_debug=minification_args.remove_asserts,", 'C13.'),
    ('C13', 'preserve list split on semicolon', S + '__main__.py', "    preserve_locals = []\n    if minification_args.preserve_locals:\n        for arg in minification_args.preserve_locals:\n            names = [name.strip() for name in arg.split(',') if name]", "    preserve_locals = []\n    if minification_args.preserve_locals:\n        for arg in minification_args.preserve_locals:\n            names = [name.strip() for name in arg.split(';') if name]", 'C13.FLAGS'),
    ('C13', 'only the last --preserve-globals used', S + '__main__.py', "        for arg in minification_args.preserve_globals:\n", "        for arg in minification_args.preserve_globals[-1:]:\n", 'C13.'),
    ('C13', 'validation of stdin + in-place removed', S + '__main__.py', "    if '-' in args.path and args.in_place:\n        sys.stderr.write('error: reading from stdin, --in-place is not valid\\n')\n        sys.exit(1)\n", "", 'C13.VAL'),
    ('C13', 'invalid combination exits zero', S + '__main__.py', "        sys.stderr.write('error: multiple path arguments, --in-place required\\n')\n        sys.exit(1)", "        sys.stderr.write('error: multiple path arguments, --in-place required\\n')\n        sys.exit(0)", 'C13.VAL'),
    ('C13', '--no-remove-annotations leaves sub options on', S + '__main__.py', "            remove_variable_annotations=False,\n            remove_return_annotations=False,", "            remove_variable_annotations=False,\n            remove_return_annotations=minification_args.remove_return_annotations,", 'C13.FLAGS'),
    ('C13', 'output encoded as latin-1', S + '__main__.py', "minified_result.encode('utf-8')", "minified_result.encode('latin-1')", 'C13.OUT'),
    ('C13', 'default of a store_false flag set False', S + '__main__.py', "        '--no-remove-pass',\n        action='store_false',\n        default=True,", "        '--no-remove-pass',\n        action='store_false',\n        default=False,", 'C13.FLAGS'),
    # ---- C14
    ('C14', 'comparison in characters', S + '__main__.py', "    if len(minified_bytes) > len(source):", "    if len(minified_result) > len(source):", 'C14.SIZE'),
    ('C14', 'handler writes the minified result', S + '__main__.py', "                    # Write original source to stdout\n                    stdout_write_bytes(source)\n                continue", "                    # Write original source to stdout\n                    stdout_write_bytes(do_minify(source, path, args))\n                continue", 'C14.'),
    ('C14', 'comparison removed', S + '__main__.py', "    if len(minified_bytes) > len(source):\n        raise MinificationNotBeneficialError(\"Minified output is longer than original\")\n", "", 'C14.SIZE'),
    ('C14', 'second override variable', S + '__main__.py', "    if os.environ.get('PYMINIFY_FORCE_BEST_EFFORT'):", "    if os.environ.get('PYMINIFY_FORCE_BEST_EFFORT') or os.environ.get('PYMINIFY_DEBUG'):", 'C14.'),
    ('C14', 'stdin path not protected', S + '__main__.py', "        try:\n            minified = do_minify(source, 'stdin', args)\n        except MinificationNotBeneficialError:", "        try:\n            minified = do_minify(source, 'stdin', args)\n        except KeyError:", 'C14.SIZE'),
    ('C14', 'compares against a stripped source', S + '__main__.py', "    minified_result = minify(\n        source,", "    minified_result = minify(\n        source.strip(),", 'C14.SIZE'),
    # ---- C15
    ('C15', 'suffix test removed', S + '__main__.py', "                    if file.endswith(('.py', '.pyw')):\n                        yield os.path.join(root, file)", "                    if file:\n                        yield os.path.join(root, file)", 'C15.SEL'),
    ('C15', 'suffix test admits .pyi', S + '__main__.py', "file.endswith(('.py', '.pyw'))", "file.endswith(('.py', '.pyw', '.pyi'))", 'C15.SEL'),
    ('C15', 'destination opened before minification', S + '__main__.py', "            try:\n                minified = do_minify(source, path, args)\n            except MinificationNotBeneficialError:", "            if args.in_place:\n                open(path, 'wb').close()\n            try:\n                minified = do_minify(source, path, args)\n            except MinificationNotBeneficialError:", 'C15.'),
    ('C15', 'errors swallowed and the walk continues', S + '__main__.py', "            except MinificationNotBeneficialError:\n                # Use original source when minification isn't beneficial\n                if args.in_place:", "            except SyntaxError:\n                continue\n            except MinificationNotBeneficialError:\n                # Use original source when minification isn't beneficial\n                if args.in_place:", 'C15.ERR'),
    ('C15', 'walk errors ignored', S + '__main__.py', "os.walk(path_arg, onerror=error, followlinks=True)", "os.walk(path_arg, followlinks=True)", 'C15.ERR'),
    ('C15', 'backup file written next to the source', S + '__main__.py', "            if args.in_place:\n                with open(path, 'wb') as f:\n                    f.write(minified)", "            if args.in_place:\n                with open(path + '.bak', 'wb') as f:\n                    f.write(source)\n                with open(path, 'wb') as f:\n                    f.write(minified)", 'C1'),
    # ---- C16
    ('C16', 'file opened in text mode', S + '__main__.py', "            with open(path, 'rb') as f:\n                source = f.read()", "            with open(path, 'r') as f:\n                source = f.read()", 'C16.BYTES'),
    ('C16', 'decode before parse', S + '__init__.py', "    module = ast.parse(source, filename)\n", "    if isinstance(source, bytes):\n        source = source.decode('utf-8')\n    module = ast.parse(source, filename)\n", 'C16.BYTES'),
    ('C16', 'different patterns in the two shebang arms', S + '__init__.py', "        shebang = re.match(br'^#![^\\r\\n]*(?:\\r(?=\\n))?', source)", "        shebang = re.match(br'^#!\\S*', source)", 'C16.SHEB'),
    ('C16', 'shebang attached regardless of the option', S + '__init__.py', "    if preserve_shebang is True:\n        shebang_line", "    if True:\n        shebang_line", 'C16.SHEB'),
    ('C16', 'shebang joined without newline', S + '__init__.py', "            return shebang_line + '\\n' + minified", "            return shebang_line + minified", 'C16.SHEB'),
    ('C16', 'string literals printed with ascii()', S + 'token_printer.py', "        \"\"\"Add a string literal to the output code.\"\"\"\n        s = repr(value)", "        \"\"\"Add a string literal to the output code.\"\"\"\n        s = ascii(value).lower()", 'C16.REPR'),
    # ---- C17
    ('C17', 'rename when more expensive', S + 'rename/binding.py', "        return rename_cost <= current_cost\n\n    def disallow_rename", "        return rename_cost >= current_cost\n\n    def disallow_rename", 'C17.COST'),
    ('C17', 'ascending mention count', S + 'rename/renamer.py', "    return sorted(all_bindings(module), key=comp, reverse=True)", "    return sorted(all_bindings(module), key=comp)", 'C17.SORT'),
    ('C17', 'equality based classifier', S + 'transforms/suite_transformer.py', "        if node.value is None or node.value is True or node.value is False:\n            method = 'visit_NameConstant'", "        if node.value in [None, True, False]:\n            method = 'visit_NameConstant'", 'C17.K1'),
    ('C17', 'profitability test skipped', S + 'rename/renamer.py', "                if should_rename(binding, name, scope):\n                    binding.rename(name)", "                if True:\n                    binding.rename(name)", 'C17.GATE'),
    ('C17', 'hoisting cost ignores the assignment', S + 'rename/rename_literals.py', "        rename_cost = (self.old_mention_count() * len(repr(self.value))) + ((self.new_mention_count()) * len(new_name)) + self.additional_byte_cost()\n\n        return rename_cost <= current_cost", "        rename_cost = (self.old_mention_count() * len(repr(self.value))) + ((self.new_mention_count()) * len(new_name)) + self.additional_byte_cost()\n\n        return current_cost <= rename_cost", 'C17.HOIST'),
    ('C17', 'helper forces renames', S + 'rename/renamer.py', "                if binding.reserved == binding.name:\n                    # We already reserved it (this is probably an arg)\n                    return False", "                if binding.reserved == binding.name:\n                    # We already reserved it (this is probably an arg)\n                    return True", 'C17.GATE'),
]

MUST_STAY_SILENT = [
    # whole-file variants (old=None): the three copies of the output branches in main() de-duplicated into a write_result(data, path, args) helper,
    # with the per-file result variable reset at the top of each iteration (the correct form of seeded change C15a)
    ('C13', 'main() refactored around a write_result helper', S + '__main__.py', None, 'pmstatic/battery_files/main_write_result_helper.py.txt'),
    ('C14', 'main() refactored around a write_result helper', S + '__main__.py', None, 'pmstatic/battery_files/main_write_result_helper.py.txt'),
    ('C15', 'main() refactored around a write_result helper', S + '__main__.py', None, 'pmstatic/battery_files/main_write_result_helper.py.txt'),
    ('C16', 'main() refactored around a write_result helper', S + '__main__.py', None, 'pmstatic/battery_files/main_write_result_helper.py.txt'),
    ('C02', 'Pow special case removed', S + 'expression_printer.py', "        if isinstance(op_node, ast.Pow) and right_precedence == 14:\n            op_precedence = right_precedence\n", ''),
    ('C02', 'identifier after number not separated', S + 'token_printer.py', "        if self.previous_token in [TokenTypes.Identifier, TokenTypes.Keyword, TokenTypes.SoftKeyword, TokenTypes.NumberLiteral]:\n            self.delimiter(' ')\n\n        self._code += name", "        if self.previous_token in [TokenTypes.Identifier, TokenTypes.Keyword, TokenTypes.SoftKeyword]:\n            self.delimiter(' ')\n\n        self._code += name"),
    ('C02', 'elif printed as else-if on one line', S + 'module_printer.py', "            if len(node.orelse) == 1 and isinstance(node.orelse[0], ast.If):\n                # elif\n                self.visit_If(node.orelse[0], el=True)\n                self.printer.newline()\n            else:", "            if False:\n                pass\n            else:"),
    ('C02', 'precedence table renumbered, same order', S + 'expression_printer.py', "            'Lambda': 2,  # Lambda\n            'IfExp': 3,  # IfExp\n            'comprehension': 3.5,", "            'Lambda': 1,  # Lambda\n            'IfExp': 2.5,  # IfExp\n            'comprehension': 3.25,"),
    ('C02', 'redundant parentheses around lambda bodies', S + 'expression_printer.py', "        self.printer.delimiter(':')\n\n        self._expression(node.body)\n\n    def visit_arguments", "        self.printer.delimiter(':')\n\n        self.printer.delimiter('(')\n        self._expression(node.body)\n        self.printer.delimiter(')')\n\n    def visit_arguments"),
    ('C05', 'guard written as nested if', S + 'transforms/remove_exception_brackets.py', "        if binding.is_redefined():\n            continue\n\n        if binding.name in builtin_exceptions:\n            # We can remove any calls to builtin exceptions\n            _remove_empty_call(binding)", "        if not binding.is_redefined():\n            if binding.name in builtin_exceptions:\n                # We can remove any calls to builtin exceptions\n                _remove_empty_call(binding)"),
    ('C05', 'transform calls re-ordered where order is immaterial', S + '__init__.py', "    if remove_pass:\n        module = RemovePass()(module)\n\n    if remove_object_base:\n        module = RemoveObject()(module)\n", "    if remove_object_base:\n        module = RemoveObject()(module)\n\n    if remove_pass:\n        module = RemovePass()(module)\n"),
    ('C05', 'suite filter written as a loop', S + 'transforms/remove_asserts.py', "        without_assert = [self.visit(a) for a in filter(lambda n: not isinstance(n, ast.Assert), node_list)]\n", "        without_assert = []\n        for a in node_list:\n            if isinstance(a, ast.Assert):\n                continue\n            without_assert.append(self.visit(a))\n"),
    # unobservable for C07: the printer round-trips numbers (C02.NUM), and eval('nan') raises NameError, which is caught: both guards are shortcuts
    ('C07', 'value comparison dropped', S + 'transforms/constant_folding.py', "        if not equal_value_and_type(folded_value, original_value):\n            return node\n", ""),
    ('C07', 'NaN guard removed', S + 'transforms/constant_folding.py', "        if isinstance(original_value, float) and math.isnan(original_value):\n            # There is no nan literal.\n            # we could use float('nan'), but that complicates folding as it's not a Constant\n            return node\n        elif isinstance(original_value, bool):", "        if isinstance(original_value, bool):"),
    ('C07', 'helper extracted around eval', S + 'transforms/constant_folding.py', "    # This will return the value, or could raise an exception\n    return eval(expression, empty_globals, empty_locals)", "    # This will return the value, or could raise an exception\n    result = eval(expression, empty_globals, empty_locals)\n    return result"),
    ('C07', 'shorter test written the other way round', S + 'transforms/constant_folding.py', "        if len(folded_expression) >= len(original_expression):", "        if not len(folded_expression) < len(original_expression):"),
    ('C12', 'helper extracted around eval', S + 'transforms/constant_folding.py', "    # This will return the value, or could raise an exception\n    return eval(expression, empty_globals, empty_locals)", "    # This will return the value, or could raise an exception\n    result = eval(expression, empty_globals, empty_locals)\n    return result"),
    ('C11', 'defensive copy added', S + 'rename/util.py', "    if preserve_locals is None:\n        preserve_locals = []\n\n    if not isinstance(node, ast.Module)", "    if preserve_locals is None:\n        preserve_locals = []\n    preserve_locals = list(preserve_locals)\n\n    if not isinstance(node, ast.Module)"),
    ('C11', 'local variables renamed', S + '__init__.py', "    minified = unparse(module)\n\n    if preserve_shebang is True:\n        shebang_line = _find_shebang(source)\n        if shebang_line is not None:\n            return shebang_line + '\\n' + minified\n\n    return minified", "    text = unparse(module)\n\n    if preserve_shebang is True:\n        first_line = _find_shebang(source)\n        if first_line is not None:\n            return first_line + '\\n' + text\n\n    return text"),
    ('C16', 'local variables renamed', S + '__init__.py', "    minified = unparse(module)\n\n    if preserve_shebang is True:\n        shebang_line = _find_shebang(source)\n        if shebang_line is not None:\n            return shebang_line + '\\n' + minified\n\n    return minified", "    text = unparse(module)\n\n    if preserve_shebang is True:\n        first_line = _find_shebang(source)\n        if first_line is not None:\n            return first_line + '\\n' + text\n\n    return text"),
    ('C01', 'local variables renamed', S + '__init__.py', "    minified = unparse(module)\n\n    if preserve_shebang is True:\n        shebang_line = _find_shebang(source)\n        if shebang_line is not None:\n            return shebang_line + '\\n' + minified\n\n    return minified", "    text = unparse(module)\n\n    if preserve_shebang is True:\n        first_line = _find_shebang(source)\n        if first_line is not None:\n            return first_line + '\\n' + text\n\n    return text"),
    ('C08', 'new explicit TypeError for a bad argument type', S + '__init__.py', "    filename = filename or 'python_minifier.minify source'\n", "    filename = filename or 'python_minifier.minify source'\n    if not isinstance(filename, str):\n        raise TypeError('filename must be a string')\n"),
    ('C13', 'help text changed', S + '__main__.py', "help='Enable removing assert statements',", "help='Remove assert statements',"),
    ('C13', 'docstring changed', S + '__main__.py', '"""Minify Python source code with size-based fallback.', '"""Minify source code; fall back to the original when that is smaller.'),
    ('C14', 'comparison written with <=', S + '__main__.py', "    if len(minified_bytes) > len(source):\n        raise MinificationNotBeneficialError(\"Minified output is longer than original\")\n\n    return minified_bytes", "    if len(minified_bytes) <= len(source):\n        return minified_bytes\n\n    raise MinificationNotBeneficialError(\"Minified output is longer than original\")"),
    ('C14', 'stricter comparison (>=) still never larger', S + '__main__.py', "    if len(minified_bytes) > len(source):", "    if len(minified_bytes) >= len(source):"),
    ('C15', 'suffix test with early continue', S + '__main__.py', "                    if file.endswith(('.py', '.pyw')):\n                        yield os.path.join(root, file)", "                    if not file.endswith(('.py', '.pyw')):\n                        continue\n                    yield os.path.join(root, file)"),
    ('C09', 'trigger list as a tuple in another order', S + 'rename/resolve_names.py', "['exec', 'eval', 'locals', 'globals', 'vars']", "('vars', 'globals', 'locals', 'eval', 'exec')"),
    ('C10', 'normalisation with tuple check first', S + '__init__.py', "    if preserve_locals is None:\n        preserve_locals = []\n    elif isinstance(preserve_locals, str):\n        preserve_locals = [preserve_locals]", "    if isinstance(preserve_locals, str):\n        preserve_locals = [preserve_locals]\n    elif preserve_locals is None:\n        preserve_locals = []"),
    ('C03', 'cost functions as dict dispatch is out of scope; comment edits', S + 'rename/renamer.py', "        Search for the first name that is not in reservation scope", "        Find the first generated name that is free in the whole reservation scope"),
    ('C04', 'pin written with early return', S + 'rename/resolve_names.py', "    binding = get_binding(name, namespace)\n\n    if isinstance(namespace, ast.ClassDef):\n        # This name will become an attribute of a class, so it can't be renamed\n        binding.disallow_rename()\n\n    return binding", "    binding = get_binding(name, namespace)\n\n    if not isinstance(namespace, ast.ClassDef):\n        return binding\n\n    # This name will become an attribute of a class, so it can't be renamed\n    binding.disallow_rename()\n    return binding"),
    ('C06', 'insert written with an index', S + 'rename/util.py', "    inserted = False\n    for node in suite:\n\n        if not inserted:\n            if (isinstance(node, ast.ImportFrom) and node.module == '__future__') or (\n                isinstance(node, ast.Expr) and is_constant_node(node.value, ast.Str)\n            ):\n                pass\n            else:\n                yield new_node\n                inserted = True\n\n        yield node\n\n    if not inserted:\n        yield new_node",
     "    suite = list(suite)\n    index = 0\n    while index < len(suite) and ((isinstance(suite[index], ast.ImportFrom) and suite[index].module == '__future__') or (\n            isinstance(suite[index], ast.Expr) and is_constant_node(suite[index].value, ast.Str))):\n        index += 1\n    for node in suite[:index]:\n        yield node\n    yield new_node\n    for node in suite[index:]:\n        yield node"),
    ('C17', 'profitability written as not (a > b)', S + 'rename/binding.py', "        return rename_cost <= current_cost\n\n    def disallow_rename", "        return not rename_cost > current_cost\n\n    def disallow_rename"),
]


# Behaviour-preserving refactorings of whole modules (written by independent agents, each verified by its author with a differential run against
# the original on thousands of inputs; the full file contents live under pmstatic/battery_files/<dir>). Every listed property must stay silent.
ALL = ['C%02d' % i for i in range(1, 18)]
REFACTORINGS = [
    ('refactoring R1: printers (helpers for token separation, literal emitters, tables as module constants)', 'refactor_r1', ['C02', 'C03', 'C08', 'C12', 'C16']),
    ('refactoring R2: module printer, f-string and string quoting (class-level tables, literal joining helper)', 'refactor_r2', ['C02', 'C03', 'C08', 'C12', 'C16']),
    ('refactoring R3: namespace mapper, binder, resolver (shared helpers, method aliases)', 'refactor_r3', ['C01', 'C03', 'C04', 'C05', 'C06', 'C09', 'C10', 'C11', 'C12']),
    ('refactoring R4: bindings, renamer, literal hoisting (node class tables, should_rename as a method, loops instead of recursion)', 'refactor_r4', ['C03', 'C04', 'C06', 'C09', 'C10', 'C11', 'C17']),
    ('refactoring R5: every transform (shared suite helpers, folding split into helper methods, debug table)', 'refactor_r5', ['C01', 'C05', 'C07', 'C08', 'C09', 'C12', 'C17']),
    ('refactoring R6: minify() and the command line module (normalisation helpers, write_result, build_parser / validate_args)', 'refactor_r6', ['C01', 'C05', 'C09', 'C10', 'C11', 'C13', 'C14', 'C15', 'C16']),
    # second wave, written by independent sessions that saw only the repository (not the checker): every property is run on each of them
    ('refactoring R7: the three printers rewritten (dispatch tables, helper methods, renamed internals)', 'refactor_r7', ALL),
    ('refactoring R8: the whole rename package rewritten (iterative walks, tables, helpers renamed and moved)', 'refactor_r8', ALL),
    ('refactoring R9: every transform and util rewritten (shared helpers, reference implementations restructured)', 'refactor_r9', ALL),
    ('refactoring R10: minify(), the command line module, parent annotation and tree comparison rewritten', 'refactor_r10', ALL),
    ('refactoring R11: f-string and string quoting rewritten', 'refactor_r11', ALL),
    ('refactoring R12: 30 modules rewritten at once (4000-line patch: internals renamed, inlined, split, moved between modules)', 'refactor_r12', ALL),
    # third wave
    ('refactoring R13: rename package - recursion to explicit stacks, isinstance chains to dispatch tables walked by MRO, classes split into mixins, private attributes renamed', 'refactor_r13', ALL),
    ('refactoring R14: minify() as a table of (option, stage factory) pairs run by a loop, suite filters by delegation to a SuiteFilter walker, exception whitelist as a version table', 'refactor_r14', ALL),
    ('refactoring R15: printers - token separation as a table, precedence levels as a table with one binds_looser predicate, operator visitors generated from tables, shared base class for nested literals, private attributes renamed', 'refactor_r15', ALL),
    ('refactoring R16: command line module - parser built from tables, os.walk replaced by os.scandir, per-file processing in a class, streams through variables', 'refactor_r16', ALL),
    ('refactoring R18: 30 modules modernised mechanically (formatting, comprehensions vs loops, merged branches, early returns, generated operator visitors, shared helpers)', 'refactor_r18', ALL),
    ('refactoring R19: visitor machinery - table-driven visit() with a per-instance handler cache, compound-statement visitors generated from field tables, class-level aliases of factory-built methods, StatementRemover base', 'refactor_r19', ALL),
    # R17: C11 (a generator yields in set order onto an explicit stack of iterators) and C12 (an attribute name of the ast module looked up through a TypeTable
    # object) end as UNDECIDED - exit 2, not a violation - on this one; the other fifteen properties are decided
    ('refactoring R17: support modules - recursion to explicit stacks of resumable iterators, TypeTable look-up objects instead of isinstance chains, plan generators in the mapper', 'refactor_r17',
     [p_ for p_ in ALL if p_ not in ('C11', 'C12')]),
]


def refactoring_overlay(model_files, dirname):
    """rel -> text for a stored refactoring, or None when the tree is no longer the one it was written against."""
    import hashlib
    import json
    import os
    base = os.path.join(os.path.dirname(os.path.abspath(__file__)), 'battery_files', dirname)
    with open(os.path.join(base, 'ORIGIN.json')) as f:
        origin = json.load(f)
    out = {}
    for rel, digest in origin.items():
        cur = model_files.get(rel)
        if cur is None or hashlib.sha256(cur.encode()).hexdigest() != digest:
            return None
        with open(os.path.join(base, rel + '.txt'), encoding='utf-8') as f:
            out[rel] = f.read()
    return out


def apply(model_files, rel, old, new):
    """Returns the overlay text or None when the variant no longer applies."""
    text = model_files.get(rel)
    if old is None:
        import os
        path = os.path.join(os.path.dirname(os.path.dirname(os.path.abspath(__file__))), new)
        with open(path, encoding='utf-8') as f:
            return f.read()
    if text is None or text.count(old) != 1:
        return None
    return text.replace(old, new)
