"""E2/E6: receiver-class-sensitive call resolution, reachability and effect summaries."""
import ast

from .astutil import local_defs, single_def
from .model import AnalysisError, src, walk_own

MUTATORS = {'append', 'extend', 'insert', 'pop', 'remove', 'sort', 'clear', 'reverse', 'update', 'add', 'discard', 'setdefault', 'popitem',
            'difference_update', 'intersection_update', 'symmetric_difference_update', 'appendleft', 'popleft', '__setitem__', '__delitem__'}

SEQ_MUTATORS = {'append', 'extend', 'insert', 'pop', 'remove', 'sort', 'reverse', 'appendleft', 'popleft'}

ASDL_FIELDS = set()
for _c in vars(ast).values():
    if isinstance(_c, type) and issubclass(_c, ast.AST):
        ASDL_FIELDS |= set(getattr(_c, '_fields', ()))
# legacy (python 2 / <3.8) fields the repository still supports
ASDL_FIELDS |= {'starargs', 'kwargs', 'varargannotation', 'kwargannotation', 'n', 's', 'dest', 'nl', 'inst', 'tback', 'dims', 'locals', 'globals', 'docstring', 'type'}


class CallGraph(object):
    def __init__(self, model):
        self.m = model
        self._callees = {}
        self._defs = {}
        self._attr_cls = {}
        self.unresolved = []
        self.resolved = 0

    # ------------------------------------------------------------------ helpers
    def defs(self, fi):
        d = self._defs.get(fi.qual)
        if d is None:
            d = self._defs[fi.qual] = local_defs(fi.node)
        return d

    def attr_class(self, cq, attr):
        """Class of `self.<attr>` when every assignment to it in the class hierarchy is a constructor call of one package class."""
        key = (cq, attr)
        if key in self._attr_cls:
            return self._attr_cls[key]
        found = set()
        for k in self.m.mro(cq):
            for fi in self.m.methods(k, own_only=True).values():
                for n in walk_own(fi.node):
                    if isinstance(n, ast.Assign) and len(n.targets) == 1 and isinstance(n.targets[0], ast.Attribute) and \
                            isinstance(n.targets[0].value, ast.Name) and n.targets[0].value.id == 'self' and n.targets[0].attr == attr:
                        v = n.value
                        if isinstance(v, ast.Call):
                            q = self.m.resolve_expr(fi.module, v.func)
                            found.add(q if q in self.m.classes else None)
                        else:
                            found.add(None)
        res = found.pop() if len(found) == 1 else None
        self._attr_cls[key] = res
        return res

    def class_of_expr(self, fi, recv, e):
        """Package class of the value of expression e inside fi, if evident."""
        if isinstance(e, ast.Name):
            if e.id == 'self' and fi.cls:
                return recv or fi.cls
            d = single_def(self.defs(fi), e.id)
            if isinstance(d, ast.Call):
                q = self.m.resolve_expr(fi.module, d.func)
                if q in self.m.classes:
                    return q
            return None
        if isinstance(e, ast.Attribute) and isinstance(e.value, ast.Name) and e.value.id == 'self' and fi.cls:
            return self.attr_class(recv or fi.cls, e.attr)
        if isinstance(e, ast.Call):
            q = self.m.resolve_expr(fi.module, e.func)
            if q in self.m.classes:
                return q
        return None

    def _nested(self, fi, name):
        cur = fi
        while cur is not None:
            q = cur.qual + '.' + name
            if q in self.m.funcs:
                return self.m.funcs[q]
            cur = cur.outer
        return None

    def _arity_ok(self, target, call):
        n = len(call.args)
        pos = target.positional
        a = target.node.args
        if any(isinstance(x, ast.Starred) for x in call.args) or a.vararg:
            return True
        required = len(pos) - len(a.defaults)
        kws = {k.arg for k in call.keywords}
        return n <= len(pos) and n + len(kws & set(pos)) >= required

    def methods_named(self, name, call=None):
        out = []
        for q, fi in self.m.funcs.items():
            if fi.cls and fi.name == name and (call is None or self._arity_ok(fi, call)):
                out.append(fi)
        return out

    # ------------------------------------------------------------------ resolution
    def resolve_call(self, fi, recv, call):
        """[(FuncInfo callee, receiver class or None)] for one call expression."""
        m = self.m
        f = call.func
        outs = []

        def add(t, r=None):
            if t is not None and (t, r) not in outs:
                outs.append((t, r))

        def add_ctor(cq, also_call=False):
            add(m.method(cq, '__init__'), cq)
            if also_call:
                add(m.method(cq, '__call__'), cq)

        if isinstance(f, ast.Call) and isinstance(f.func, ast.Name) and f.func.id == 'getattr' and len(f.args) >= 2:
            # getattr(self, <name>)(...) called directly
            return self._getattr_fanout(fi, recv, f)
        if isinstance(f, ast.Name):
            nested = self._nested(fi, f.id)
            if nested is not None:
                add(nested, recv if nested.outer is not None else None)
                return outs
            d = self.defs(fi).get(f.id)
            if d and d != ['<param>']:
                # local variable holding a callable
                for v in d:
                    if isinstance(v, ast.Call) and isinstance(v.func, ast.Name) and v.func.id == 'getattr' and len(v.args) >= 2:
                        outs += self._getattr_fanout(fi, recv, v)
                    elif isinstance(v, ast.Attribute) and isinstance(v.value, ast.Name) and v.value.id == 'self' and fi.cls:
                        add(m.method(recv or fi.cls, v.attr), recv or fi.cls)
                    elif isinstance(v, ast.Lambda):
                        pass
                    elif isinstance(v, ast.Call):
                        cq = m.resolve_expr(fi.module, v.func)
                        if cq in m.classes:
                            add(m.method(cq, '__call__'), cq)
                if outs:
                    return outs
            q = m.resolve_name(fi.module, f.id)
            if q in m.funcs:
                add(m.funcs[q])
            elif q in m.classes:
                add_ctor(q)
            return outs
        if isinstance(f, ast.Call):
            # Cls(...)(x)
            q = m.resolve_expr(fi.module, f.func)
            if q in m.classes:
                add(m.method(q, '__call__'), q)
            return outs
        if isinstance(f, ast.Subscript) and isinstance(f.value, ast.Name):
            d = single_def(self.defs(fi), f.value.id)
            if isinstance(d, ast.Dict):
                for v in d.values:
                    if isinstance(v, ast.Attribute) and isinstance(v.value, ast.Name) and v.value.id == 'self' and fi.cls:
                        add(m.method(recv or fi.cls, v.attr), recv or fi.cls)
            return outs
        if isinstance(f, ast.Attribute):
            base = f.value
            # super().m()
            if isinstance(base, ast.Call) and isinstance(base.func, ast.Name) and base.func.id == 'super' and fi.cls:
                mro = m.mro(recv or fi.cls)
                if fi.cls in mro:
                    for k in mro[mro.index(fi.cls) + 1:]:
                        t = m.funcs.get(k + '.' + f.attr)
                        if t is not None:
                            add(t, recv or fi.cls)
                            break
                return outs
            # module.function
            q = m.resolve_expr(fi.module, f)
            if q in m.funcs:
                add(m.funcs[q])
                return outs
            if q in m.classes:
                add_ctor(q)
                return outs
            cq = self.class_of_expr(fi, recv, base)
            if cq is not None:
                t = m.method(cq, f.attr)
                if t is not None:
                    add(t, cq)
                    if isinstance(base, ast.Name) and base.id == 'self' and recv is None:
                        # class-hierarchy analysis: overriding subclasses
                        for sub in m.subclasses(cq):
                            t2 = m.method(sub, f.attr)
                            if t2 is not None and t2 is not t:
                                add(t2, sub)
                return outs
            # unknown receiver: every package method of that name with a compatible arity
            if isinstance(base, ast.Name) and (m.imports.get(fi.module, {}).get(base.id) or base.id in ('os', 'sys', 're', 'ast', 'math', 'copy', 'itertools', 'string', 'keyword', 'random')) \
                    and base.id not in self.defs(fi):
                return outs  # attribute of an imported external module
            for t in self.methods_named(f.attr, call):
                add(t, t.cls)
            return outs
        return outs

    def _getattr_fanout(self, fi, recv, g):
        """getattr(self, 'visit_' + name, default) -> every method with that prefix on the receiver's class (and subclasses when the
        receiver is unknown) plus the default."""
        m = self.m
        outs = []
        if not (isinstance(g.args[0], ast.Name) and g.args[0].id == 'self' and fi.cls):
            return outs
        name_e = g.args[1]
        prefix = ''
        d = single_def(self.defs(fi), name_e.id) if isinstance(name_e, ast.Name) else name_e
        if isinstance(d, ast.BinOp) and isinstance(d.op, ast.Add) and isinstance(d.left, ast.Constant) and isinstance(d.left.value, str):
            prefix = d.left.value
        elif isinstance(d, ast.Constant) and isinstance(d.value, str):
            prefix = d.value
        else:
            # method = 'visit_X' constants assigned in branches
            vals = [v for v in self.defs(fi).get(name_e.id, []) if isinstance(v, ast.AST)] if isinstance(name_e, ast.Name) else []
            consts = [v.value for v in vals if isinstance(v, ast.Constant) and isinstance(v.value, str)]
            if consts and len(consts) == len(vals):
                cands = [recv] if recv else [fi.cls] + m.subclasses(fi.cls)
                for cq in cands:
                    for c in consts:
                        t = m.method(cq, c)
                        if t is not None and (t, cq) not in outs:
                            outs.append((t, cq))
                prefix = None
        if prefix is not None:
            cands = [recv] if recv else [fi.cls] + m.subclasses(fi.cls)
            for cq in cands:
                for name, t in m.methods(cq).items():
                    if name.startswith(prefix) and (t, cq) not in outs:
                        outs.append((t, cq))
        if len(g.args) >= 3:
            dflt = g.args[2]
            if isinstance(dflt, ast.Attribute) and isinstance(dflt.value, ast.Name) and dflt.value.id == 'self':
                cands = [recv] if recv else [fi.cls] + m.subclasses(fi.cls)
                for cq in cands:
                    t = m.method(cq, dflt.attr)
                    if t is not None and (t, cq) not in outs:
                        outs.append((t, cq))
        return outs

    def callees(self, fi, recv=None):
        """[(call node, FuncInfo, receiver)] for every call in fi's own body (nested defs are separate functions)."""
        key = (fi.qual, recv)
        r = self._callees.get(key)
        if r is None:
            r = []
            for n in walk_own(fi.node):
                if isinstance(n, ast.Call):
                    for (t, rc) in self.resolve_call(fi, recv, n):
                        r.append((n, t, rc))
            # nested functions defined here are considered called (closures passed around / used as generators)
            for q, g in self.m.funcs.items():
                if g.outer is fi:
                    r.append((g.node, g, recv))
            # bound methods passed as values (filter(self.is_correct_ast, ...)) and properties read from objects of evident class
            for n in walk_own(fi.node):
                if isinstance(n, ast.Attribute) and isinstance(n.ctx, ast.Load) and not (isinstance(self.m.parent(n), ast.Call) and self.m.parent(n).func is n):
                    cq = self.class_of_expr(fi, recv, n.value)
                    if cq is not None:
                        t = self.m.method(cq, n.attr)
                        if t is not None:
                            r.append((n, t, cq))
                    elif not (isinstance(n.value, ast.Name) and n.value.id == 'self'):
                        for t in self.methods_named(n.attr):
                            if any(isinstance(d, ast.Name) and d.id == 'property' for d in t.node.decorator_list):
                                r.append((n, t, t.cls))
            # properties accessed on self
            if fi.cls:
                for n in walk_own(fi.node):
                    if isinstance(n, ast.Attribute) and isinstance(n.value, ast.Name) and n.value.id == 'self' and isinstance(n.ctx, ast.Load):
                        t = self.m.method(recv or fi.cls, n.attr)
                        if t is not None and any(isinstance(d, ast.Name) and d.id == 'property' for d in t.node.decorator_list):
                            r.append((n, t, recv or fi.cls))
            self._callees[key] = r
        return r

    def reachable(self, entries, with_recv=False):
        seen = set()
        work = []
        for e in entries:
            fi = self.m.func(e)
            work.append((fi, None))
        while work:
            fi, recv = work.pop()
            k = (fi.qual, recv)
            if k in seen:
                continue
            seen.add(k)
            for (_n, t, rc) in self.callees(fi, recv):
                if (t.qual, rc) not in seen:
                    work.append((t, rc))
            # special methods invoked implicitly by the interpreter on package objects
            if fi.name == '__init__' and fi.cls:
                for special in ('__str__', '__eq__', '__hash__', '__ne__', '__repr__', '__enter__', '__exit__', '__bool__', '__nonzero__'):
                    t = self.m.method(recv or fi.cls, special)
                    if t is not None and (t.qual, recv or fi.cls) not in seen:
                        work.append((t, recv or fi.cls))
        if with_recv:
            return seen
        return {q for (q, _r) in seen}

    def paths_to(self, entries, target_qual, limit=3):
        """A few call paths (lists of quals) from entries to target for diagnostics."""
        from collections import deque
        out = []
        for e in entries:
            start = (self.m.func(e), None)
            dq = deque([[start]])
            seen = {(start[0].qual, None)}
            while dq and len(out) < limit:
                p = dq.popleft()
                fi, recv = p[-1]
                if fi.qual == target_qual:
                    out.append([x[0].qual for x in p])
                    break
                for (_n, t, rc) in self.callees(fi, recv):
                    if (t.qual, rc) not in seen:
                        seen.add((t.qual, rc))
                        dq.append(p + [(t, rc)])
        return out


class Summary(object):
    __slots__ = ('asdl', 'builds', 'ann_w', 'ann_r', 'ann_add', 'mut', 'globals_w', 'sites', 'seq_add')

    def __init__(self):
        self.asdl = set()       # ASDL field names stored / mutated on non-self objects
        self.builds = set()     # AST classes constructed
        self.ann_w = set()      # non-ASDL attributes assigned on non-self objects
        self.ann_add = set()    # non-ASDL container attributes that get elements added (x.attr.append/add/update, x.attr = non-empty)
        self.ann_r = set()      # non-ASDL attributes read on non-self objects
        self.mut = set()        # own parameters mutated in place (possibly through callees)
        self.globals_w = set()  # module/class level names written
        self.seq_add = set()    # attributes holding ordered containers (lists) that get elements appended / inserted / removed
        self.sites = {}         # effect -> [(qual, lineno, text)]

    def merge(self, o):
        ch = False
        for a in ('asdl', 'builds', 'ann_w', 'ann_r', 'ann_add', 'globals_w', 'seq_add'):
            s, t = getattr(self, a), getattr(o, a)
            if not t <= s:
                s |= t
                ch = True
        for k, v in o.sites.items():
            cur = self.sites.setdefault(k, [])
            for x in v:
                if x not in cur and len(cur) < 6:
                    cur.append(x)
        return ch


EMPTY_INITS = ('[]', 'set()', 'False', 'None', '{}', 'dict()', 'list()', '0', "''")


class Effects(object):
    """Effect summaries propagated over the call graph to a fix-point."""

    def __init__(self, model, cg=None):
        self.m = model
        self.cg = cg or CallGraph(model)
        self.memo = {}
        self._facts_cache = {}

    def local(self, fi, recv):
        S = Summary()
        params = set(fi.params) - {'self'}
        defs = self.cg.defs(fi)
        lazy = {}

        def still_original(pname, at):
            """May the parameter still be the caller's object at node `at`?  (not re-bound on every path to it)"""
            if defs.get(pname) == ['<param>']:
                return True
            if 'F' not in lazy:
                from .facts import Facts
                lazy['F'] = Facts(fi.node)
            cur = at
            while cur is not None and not isinstance(cur, ast.stmt):
                cur = self.m.parent(cur)
            facts = lazy['F'].facts_at(cur) if cur is not None else None
            if facts is None:
                return False
            return ('<assigned:%s>' % pname, True) not in facts

        def site(kind, n):
            S.sites.setdefault(kind, []).append((fi.qual, getattr(n, 'lineno', 0), src(n)[:100]))

        def root_param(e):
            """(param name, attribute path from it) when expression e is rooted at a parameter (through single-def aliases)."""
            path = []
            cur = e
            hops = 0
            while hops < 12:
                hops += 1
                if isinstance(cur, ast.Attribute):
                    path.append(cur.attr)
                    cur = cur.value
                elif isinstance(cur, ast.Subscript):
                    path.append('[]')
                    cur = cur.value
                elif isinstance(cur, ast.Name):
                    if cur.id in params and still_original(cur.id, e):
                        return cur.id, list(reversed(path))
                    d = single_def(defs, cur.id)
                    if d is not None and isinstance(d, (ast.Name, ast.Attribute, ast.Subscript)):
                        cur = d
                        continue
                    return None, list(reversed(path))
                else:
                    return None, list(reversed(path))
            return None, []

        for n in walk_own(fi.node):
            if isinstance(n, ast.Attribute):
                on_self = isinstance(n.value, ast.Name) and n.value.id in ('self', 'cls') and fi.cls
                if isinstance(n.ctx, (ast.Store, ast.Del)):
                    if on_self:
                        continue
                    if n.attr in ASDL_FIELDS:
                        S.asdl.add(n.attr)
                        site('asdl:' + n.attr, self.m.parent(n) or n)
                    else:
                        S.ann_w.add(n.attr)
                        par = self.m.parent(n)
                        if isinstance(par, ast.Assign) and src(par.value) not in EMPTY_INITS:
                            S.ann_add.add(n.attr)
                        site('ann:' + n.attr, par or n)
                    p, path = root_param(n.value)
                    if p is not None and not path:
                        pass  # attribute store on the parameter object itself: counts as mutation of the object
                    if p is not None:
                        S.mut.add(p)
                elif not on_self:
                    S.ann_r.add(n.attr) if n.attr not in ASDL_FIELDS else None
            elif isinstance(n, ast.Subscript) and isinstance(n.ctx, (ast.Store, ast.Del)):
                p, path = root_param(n.value)
                if p is not None:
                    S.mut.add(p)
                    site('mut:' + p, self.m.parent(n) or n)
                if isinstance(n.value, ast.Attribute) and not (isinstance(n.value.value, ast.Name) and n.value.value.id == 'self'):
                    a = n.value.attr
                    (S.asdl if a in ASDL_FIELDS else S.ann_add).add(a)
                    if a in ASDL_FIELDS:
                        site('asdl:' + a, self.m.parent(n) or n)
                if isinstance(n.value, ast.Name) and n.value.id not in defs and n.value.id not in params:
                    S.globals_w.add(n.value.id)
                    site('global:' + n.value.id, self.m.parent(n) or n)
            elif isinstance(n, ast.AugAssign):
                t = n.target
                if isinstance(t, ast.Name):
                    if t.id in params and isinstance(n.op, ast.Add) and still_original(t.id, n):
                        # `p += [...]` mutates a list argument in place
                        S.mut.add(t.id)
                        site('mut:' + t.id, n)
                elif isinstance(t, ast.Attribute) and not (isinstance(t.value, ast.Name) and t.value.id == 'self'):
                    pass  # handled by the Attribute Store branch
            elif isinstance(n, ast.Global):
                for g in n.names:
                    S.globals_w.add(g)
                    site('global:' + g, n)
            elif isinstance(n, ast.Call):
                f = n.func
                if isinstance(f, ast.Name) and f.id in ('setattr', 'delattr') and n.args:
                    tgt = n.args[0]
                    if not (isinstance(tgt, ast.Name) and tgt.id == 'self'):
                        name_e = n.args[1] if len(n.args) > 1 else None
                        if isinstance(name_e, ast.Constant):
                            (S.asdl if name_e.value in ASDL_FIELDS else S.ann_w).add(name_e.value)
                        else:
                            S.asdl.add('<dynamic>')
                            site('asdl:<dynamic>', n)
                        p, _ = root_param(tgt)
                        if p is not None:
                            S.mut.add(p)
                if isinstance(f, ast.Attribute) and f.attr in SEQ_MUTATORS and isinstance(f.value, ast.Attribute):
                    S.seq_add.add(f.value.attr)
                    site('seq:' + f.value.attr, n)
                if isinstance(f, ast.Attribute) and f.attr in MUTATORS:
                    p, path = root_param(f.value)
                    if p is not None and not path:
                        S.mut.add(p)
                        site('mut:' + p, n)
                    elif p is not None:
                        S.mut.add(p)
                        site('mut:' + p, n)
                    if isinstance(f.value, ast.Attribute) and not (isinstance(f.value.value, ast.Name) and f.value.value.id == 'self'):
                        a = f.value.attr
                        if a in ASDL_FIELDS:
                            S.asdl.add(a)
                            site('asdl:' + a, n)
                        else:
                            S.ann_add.add(a)
                            S.ann_w.add(a)
                            site('ann:' + a, n)
                    if isinstance(f.value, ast.Name) and f.value.id not in defs and f.value.id not in params and f.value.id != 'self':
                        # mutation of a module-level container
                        if f.value.id in self.m.module_assigns.get(fi.module, {}) or self.m.imports.get(fi.module, {}).get(f.value.id):
                            S.globals_w.add(f.value.id)
                            site('global:' + f.value.id, n)
                    if isinstance(f.value, ast.Attribute) and isinstance(f.value.value, ast.Name) and f.value.value.id not in defs and f.value.value.id not in params \
                            and f.value.value.id not in ('self',):
                        q = self.m.resolve_name(fi.module, f.value.value.id)
                        if q in self.m.classes or q in self.m.modules:
                            S.globals_w.add(src(f.value))
                            site('global:' + src(f.value), n)
                # slice assignment helpers etc. are Subscript stores (handled above)
                q = self.m.resolve_expr(fi.module, f) if isinstance(f, (ast.Name, ast.Attribute)) else None
                if isinstance(f, ast.Attribute) and isinstance(f.value, ast.Name) and self.m.is_ast_alias(fi.module, f.value.id) and f.attr[:1].isupper():
                    S.builds.add(f.attr)
                    site('build:' + f.attr, n)
            elif isinstance(n, ast.Assign):
                for t in n.targets:
                    if isinstance(t, ast.Attribute) and isinstance(t.value, ast.Name) and t.value.id not in defs and t.value.id not in params and t.value.id not in ('self', 'cls'):
                        q = self.m.resolve_name(fi.module, t.value.id)
                        if q in self.m.classes or q in self.m.modules or q is not None:
                            S.globals_w.add(src(t))
                            site('global:' + src(t), n)
            elif isinstance(n, ast.Subscript) and isinstance(n.slice, ast.Slice) and isinstance(n.ctx, ast.Store):
                pass
        # `old_value[:] = ...` on a value obtained from iter_fields: dynamic ASDL mutation
        for n in walk_own(fi.node):
            if isinstance(n, ast.Assign):
                for t in n.targets:
                    if isinstance(t, ast.Subscript) and isinstance(t.value, ast.Name):
                        ds = defs.get(t.value.id, [])
                        if any(isinstance(d, tuple) and d[0] == '<iter>' and 'iter_fields' in src(d[1]) for d in ds):
                            S.asdl.add('<dynamic>')
        return S

    def summary(self, fi, recv=None, _stack=frozenset()):
        key = (fi.qual, recv)
        if key in self.memo:
            return self.memo[key]
        S = self.local(fi, recv)
        self.memo[key] = S
        if key in _stack:
            return S
        stack = _stack | {key}
        params = fi.params
        defs = self.cg.defs(fi)
        for (call, t, rc) in self.cg.callees(fi, recv):
            cs = self.summary(t, rc, stack)
            S.merge(cs)
            if isinstance(call, ast.Call) and cs.mut:
                cpos = t.positional
                if t.name == '__call__' or (t.cls and not t.is_static and t.node.args.args and t.node.args.args[0].arg in ('self', 'cls')):
                    pass
                for i, a in enumerate(call.args):
                    if i < len(cpos) and cpos[i] in cs.mut:
                        self._flow(S, fi, a, defs, call, t)
                for kw in call.keywords:
                    if kw.arg in cs.mut:
                        self._flow(S, fi, kw.value, defs, call, t)
        return S

    def _flow(self, S, fi, a, defs, call, t):
        cur = a
        hops = 0
        while hops < 8:
            hops += 1
            if isinstance(cur, (ast.Attribute, ast.Subscript)):
                cur = cur.value
                continue
            if isinstance(cur, ast.Name):
                if cur.id in fi.params and cur.id != 'self':
                    # mutated when some path reaches the call with the parameter object itself (not re-bound on every path)
                    if not self._still_original(fi, cur.id, call, defs):
                        return
                    S.mut.add(cur.id)
                    S.sites.setdefault('mut:' + cur.id, []).append((fi.qual, call.lineno, 'via ' + t.qual + ': ' + src(call)[:80]))
                    return
                d = single_def(defs, cur.id)
                if d is not None and isinstance(d, (ast.Name, ast.Attribute, ast.Subscript)):
                    cur = d
                    continue
            return

    def _still_original(self, fi, pname, at, defs):
        if defs.get(pname) == ['<param>']:
            return True
        from .facts import Facts
        F = self._facts_cache.setdefault(fi.qual, None) or Facts(fi.node)
        self._facts_cache[fi.qual] = F
        cur = at
        while cur is not None and not isinstance(cur, ast.stmt):
            cur = self.m.parent(cur)
        facts = F.facts_at(cur) if cur is not None else None
        return facts is not None and ('<assigned:%s>' % pname, True) not in facts

    def fixpoint(self, entries):
        """Summaries for everything reachable from entries, iterated to a fix-point (recursion)."""
        for _ in range(6):
            self.memo = {k: v for k, v in self.memo.items()}
            before = {k: (len(v.asdl), len(v.ann_w), len(v.ann_r), len(v.mut), len(v.builds), len(v.ann_add), len(v.globals_w), len(v.seq_add)) for k, v in self.memo.items()}
            old = self.memo
            self.memo = {}
            for e in entries:
                self.summary(self.m.func(e))
            # merge recursive information: re-run using previous results for cut-off keys
            for k, v in old.items():
                if k in self.memo:
                    self.memo[k].merge(v)
                    self.memo[k].mut |= v.mut
            after = {k: (len(v.asdl), len(v.ann_w), len(v.ann_r), len(v.mut), len(v.builds), len(v.ann_add), len(v.globals_w), len(v.seq_add)) for k, v in self.memo.items()}
            if before == after:
                break
        return self.memo
