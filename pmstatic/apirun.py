"""The API entry point minify(), run by the abstract interpreter with every stage answered by the checker.

minify() of python_minifier/__init__.py is a driver: it parses, runs transform stages depending on its options, computes the preserve lists,
hands them to the renamer, prints, and re-attaches the shebang. Here the driver itself is evaluated - for a chosen option vector, taint flag,
set of names the binder recorded as preserved, and shebang answer - while everything it imports from the rest of the package is replaced by a
recorder: constructing a stage class, calling the stage, and calling an imported function each leave an event (name, arguments) in the trace.
Helpers defined in __init__.py itself are evaluated normally, so no shape of minify() is assumed.
"""
from .absint import Interp, Obj, PyCallable, TOP, _Raise
from .model import AnalysisError

PKG = 'python_minifier'


class Result(object):
    def __init__(self, trace, outcome):
        self.trace = trace
        self.outcome = outcome

    def names(self):
        return [t[1] for t in self.trace if t[0] in ('stage', 'call')]

    def event(self, name):
        for t in self.trace:
            if t[0] in ('stage', 'call') and t[1] == name:
                return t
        return None


def _shebang_match(trace, shebang, a):
    """Answer of the shebang pattern in the modelled run: the scenario says what the first line is (a real match object over that text)."""
    import re
    src_ = a[1] if len(a) > 1 else None
    trace.append(('call', '_find_shebang', (src_,), {}))
    if shebang is None:
        return None
    if isinstance(src_, bytes):
        return re.match(b'(?s).*', shebang.encode())
    return re.match('(?s).*', shebang)


def package_callables(model):
    """qualified name -> kind for every function / transformer class of the package outside the driver module itself."""
    out = {}
    for q, ci in model.classes.items():
        if ci.module != PKG and model.method(q, '__call__') is not None:
            out[q] = ('stage', q)
    for q, fi in model.funcs.items():
        if fi.module != PKG and fi.cls is None and fi.outer is None and fi.module.split('.')[0] == PKG and not fi.module.endswith('__main__'):
            out[q] = ('function', q)
    return out


def imported_callables(model):
    """name in python_minifier/__init__.py -> ('stage'|'function', qualified name) for everything imported from other modules of the package."""
    out = {}
    for name, q in sorted(model.imports.get(PKG, {}).items()):
        if not q or not q.startswith(PKG + '.'):
            continue
        if q in model.classes:
            if model.method(q, '__call__') is not None:
                out[name] = ('stage', q)
        elif q in model.funcs and model.funcs[q].module != PKG:
            out[name] = ('function', q)
    return out


def run(model, entry='minify', args=None, kwargs=None, tainted=False, preserved=(), shebang=None, source='SOURCE', parse_raises=None, fresh_modules=False, real_shebang=False,
        printed='MINIFIED'):
    """fresh_modules: every transformer stage (and remove_posargs) answers with a *new* module object, so that a stage that is handed a stale
    tree (result of an earlier stage dropped) is visible in the trace as ('stale', name)."""
    trace = []

    def on_read(o, attr):
        if attr in ('tainted', 'preserved', 'bindings'):
            trace.append(('read', attr))

    def new_module():
        m = Obj('Module', body=[], type_ignores=[])
        m.attrs['tainted'] = tainted
        m.attrs['preserved'] = set(preserved)
        m.attrs['__on_read__'] = on_read
        return m
    module = new_module()
    current = [module]
    hooks = {}

    def note_module(name, a):
        if a and isinstance(a[0], Obj) and a[0].cls == 'Module' and a[0] is not current[0]:
            trace.append(('stale', name))

    def h_parse(I, e, a, kw, env):
        trace.append(('parse', a[0] if a else kw.get('source'), a[1] if len(a) > 1 else kw.get('filename')))
        if parse_raises:
            raise _Raise(parse_raises)
        return module

    def mk_stage(name):
        def ctor(I, e, a, kw, env):
            def call(I_, a2, kw2):
                note_module(name, a2)
                trace.append(('stage', name, tuple(a), dict(kw), tuple(a2)))
                if fresh_modules and a2 and a2[0] is current[0]:
                    current[0] = new_module()
                    return current[0]
                return a2[0] if a2 else TOP
            return PyCallable(call, name)
        return ctor

    def mk_function(name):
        def fn(I, e, a, kw, env):
            note_module(name, a)
            trace.append(('call', name, tuple(a), dict(kw)))
            if name == 'remove_posargs' and a and isinstance(a[0], Obj):
                if fresh_modules and a[0] is current[0]:
                    current[0] = new_module()
                    return current[0]
                return a[0]
            return None
        return fn
    # everything the driver module uses from the rest of the package is intercepted by qualified name (whatever import style or alias is used)
    intercept = {}
    for name, (kind, q) in package_callables(model).items():
        short = q.rsplit('.', 1)[1]
        if kind == 'stage':
            intercept[q] = (lambda I_, a_, kw_, _c=mk_stage(short): _c(I_, None, a_, kw_, None))
        else:
            intercept[q] = (lambda I_, a_, kw_, _f=mk_function(short): _f(I_, None, a_, kw_, None))
    hooks['ast.parse'] = h_parse

    def h_unparse(I, e, a, kw, env):
        note_module('unparse', a)
        trace.append(('call', 'unparse', tuple(a), dict(kw)))
        return printed

    def h_shebang(I, e, a, kw, env):
        trace.append(('call', '_find_shebang', tuple(a), dict(kw)))
        return shebang
    if entry == 'minify':
        intercept[PKG + '.unparse'] = lambda I_, a_, kw_: h_unparse(I_, None, a_, kw_, None)
        if not real_shebang:     # otherwise the repository's own pattern is matched against the source by the regular expression engine
            hooks['re.match'] = lambda I_, e_, a_, kw_, env_: _shebang_match(trace, shebang, a_)
            hooks['re.search'] = hooks['re.match']
    else:
        def h_minify(I, e, a, kw, env):
            trace.append(('call', 'minify', tuple(a), dict(kw)))
            return 'MINIFIED'
        intercept[PKG + '.minify'] = lambda I_, a_, kw_: h_minify(I_, None, a_, kw_, None)
    I = Interp(model, PKG, hooks)
    I.intercept = intercept
    I.MAX_PATHS = 8
    a = list(args) if args is not None else [source]
    res = I.explore(lambda: I.call_function(PKG + '.' + entry, a, dict(kwargs or {})))
    if len(res) != 1:
        raise AnalysisError('UNDECIDED: %s(%s) forked into %d paths: %s' % (entry, kwargs, len(res), [r[2][:2] for r in res][:2]))
    (o, _ev, unk) = res[0]
    if o[0] == 'abort' or (o[0] == 'return' and o[1] is TOP):
        raise AnalysisError('UNDECIDED: %s(%s) -> %s %s' % (entry, kwargs, o, unk[:3]))
    return Result(trace, o)
