"""pmstatic - repository-specific static analysis for dflook/python-minifier (properties C01-C17).

Nothing in this package imports or executes code of the repository under analysis.
"""
