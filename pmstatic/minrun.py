"""minify() evaluated for real by the abstract interpreter on a concrete probe module.

Nothing of the package is replaced: the parse is answered with the descriptor of CPython's tree for the probe, every stage the option vector
enables is evaluated from the repository's source, and the public function `unparse` is intercepted only to capture the module it is handed (the
printer is decided separately by C02). The only anchors are the public names `python_minifier.minify` and `python_minifier.unparse`; how the
package is organised underneath is irrelevant, so a behaviour-preserving reorganisation gives the same answers. One run costs 0.05 - 0.3 s.
"""
import ast
import builtins

from .absint import Interp, Obj, TOP
from .model import AnalysisError

PKG = 'python_minifier'
NON_SWITCH = ('source', 'filename', 'preserve_locals', 'preserve_globals')


class Lazy(object):
    """An option value built inside the run (e.g. an options object constructed from the repository's class by the interpreter)."""
    def __init__(self, fn, label):
        self.fn = fn
        self.label = label

    def __repr__(self):
        return self.label


def annotation_options(model, **fields):
    """python_minifier.RemoveAnnotationsOptions(**fields), constructed by the interpreter from the class the package exports under that name."""
    q = model.imports.get(PKG, {}).get('RemoveAnnotationsOptions')
    if q is None or q not in model.classes:
        raise AnalysisError('lost anchor: python_minifier.RemoveAnnotationsOptions is not exported by the package')
    from .absint import ClassRef
    return Lazy(lambda I: I.construct(ClassRef(q.rsplit('.', 1)[1], q), [], dict(fields)), 'RemoveAnnotationsOptions(%s)' % ', '.join('%s=%s' % kv for kv in sorted(fields.items())))


def option_names(model):
    mi = model.func(PKG + '.minify')
    return [p for p in mi.params if p not in NON_SWITCH]


def all_off(model):
    return {p: False for p in option_names(model)}


def minify_tree(model, source, options=None, version=(3, 12, 0), tree=None, extra_hooks=None, max_paths=8):
    """-> ('ok', cpython tree, module descriptor) | ('raise', what, None). `options` are laid over the all-off vector."""
    from .absnodes import std_hooks
    from .absprint import to_obj
    from .props.c07 import obj_to_ast
    captured = []
    hooks = std_hooks()
    hooks['dir'] = lambda I, e, a, kw, env: dir(builtins) if a and not isinstance(a[0], Obj) else TOP
    if extra_hooks is None and (options or {}).get('constant_folding'):
        from .props.c07 import fold_hooks
        extra_hooks = fold_hooks()
    hooks.update(extra_hooks or {})
    parsed = []

    def h_parse(I, e, a, kw, env):
        if not parsed and a and isinstance(a[0], (str, bytes)):
            # the module being minified: whatever the driver hands to the parser is parsed (by CPython); later parses (self-checks of a
            # stage) keep their own hooks
            parsed.append(1)
            if tree is not None and a[0] is source:
                return to_obj(tree)
            try:
                return to_obj(ast.parse(a[0]))
            except SyntaxError:
                from .absint import _Raise
                raise _Raise('SyntaxError')
        if extra_hooks and 'ast.parse' in extra_hooks:
            return extra_hooks['ast.parse'](I, e, a, kw, env)
        return to_obj(ast.parse(*a, **kw))
    hooks['ast.parse'] = h_parse
    I = Interp(model, PKG, hooks, version=version, max_depth=900)
    I.intercept = {PKG + '.unparse': lambda I_, a, kw: (captured.append(a[0] if a else None), 'PRINTED')[1]}
    I.MAX_PATHS = max_paths
    kw = all_off(model)
    kw.update(options or {})
    def thunk():
        kw2 = {k: (v.fn(I) if isinstance(v, Lazy) else v) for k, v in kw.items()}
        return I.call_function(PKG + '.minify', [source], kw2)
    res = I.explore(thunk)
    what = '%s on %r' % (sorted(k for k, v in kw.items() if v), source[:60])
    if len(res) != 1:
        raise AnalysisError('UNDECIDED: minify(%s) forked into %d paths: %s' % (what, len(res), [r[2][:2] for r in res][:2]))
    (o, _ev, unk) = res[0]
    if o[0] == 'raise':
        return 'raise', o[1], None
    if o[0] != 'return' or not captured or not isinstance(captured[0], Obj):
        raise AnalysisError('UNDECIDED: minify(%s) -> %s %s' % (what, o, unk[:3]))
    return 'ok', ast.fix_missing_locations(obj_to_ast(captured[0])), captured[0]


def staged_trace(model, source, options=None, attributes=()):
    """minify() evaluated for real with every function / transformer class it takes from the rest of the package wrapped: the wrapper records when the
    stage starts and then runs the repository's own code. Reads and writes of the given annotation attributes on tree nodes are recorded with the
    stage during which they happen. -> (stage order, events [(stage, kind, node class, attribute)])"""
    from . import apirun
    from .absint import ClassRef, PyCallable
    from .absnodes import std_hooks
    from .absprint import to_obj
    hooks = std_hooks()
    hooks['dir'] = lambda I, e, a, kw, env: dir(builtins) if a and not isinstance(a[0], Obj) else TOP
    for k in ('get_parent', 'set_parent'):
        hooks.pop(k, None)       # the repository's own accessors run, so that their reads and writes are seen
    if (options or {}).get('constant_folding'):
        from .props.c07 import fold_hooks
        for k, v in fold_hooks().items():
            hooks.setdefault(k, v)
    hooks['ast.parse'] = lambda I, e, a, kw, env: to_obj(ast.parse(a[0])) if a and isinstance(a[0], (str, bytes)) and not I.__dict__.setdefault('_parsed', []) and not I._parsed.append(1) else \
        (hooks_parse(I, e, a, kw, env))
    from .absprint import printer_hooks
    hooks_parse = printer_hooks()['ast.parse']
    I = Interp(model, PKG, hooks, version=(3, 12, 0), max_depth=900)
    I.MAX_PATHS = 8
    stack = ['minify']
    order = []
    events = []
    wanted = set(attributes)

    containers = {}     # id(container stored in an annotation) -> (container, attribute name)

    def tracer(kind, obj, attr, value=None):
        if kind == 'mutate':
            hit = containers.get(id(obj))
            if hit is not None:
                events.append((stack[-1], 'populate', '', hit[1]))
            return
        if not isinstance(obj, Obj) or obj.qual is not None:
            return
        if wanted:
            if attr not in wanted:
                return
        else:
            # every attribute hung on a tree node that is not a field of its class is an annotation
            pyc = getattr(ast, obj.cls, None)
            if pyc is None or attr in pyc._fields or attr in ('lineno', 'col_offset', 'end_lineno', 'end_col_offset', '_fields', '_attributes', '__class__', '__dict__', 'n', 's', 'kind'):
                return
        if kind == 'write' and isinstance(value, (list, set, dict)):
            containers[id(value)] = (value, attr)
            if len(value):
                events.append((stack[-1], 'populate', obj.cls, attr))
        events.append((stack[-1], kind, obj.cls, attr))
    I.attr_tracer = tracer
    intercept = {}

    def enter(name):
        if len(stack) == 1:
            order.append(name)
        stack.append(name if len(stack) == 1 else stack[-1])

    for name, (kind, q) in apirun.imported_callables(model).items():
        if kind == 'function':
            def fn(I_, a, kw, _q=q, _n=name):
                h = intercept.pop(_q)
                enter(_n)
                try:
                    return I_.call_function(_q, a, kw)
                finally:
                    stack.pop()
                    intercept[_q] = h
            intercept[q] = fn
        else:
            def ctor(I_, a, kw, _q=q, _n=name):
                h = intercept.pop(_q)
                enter(_n)
                try:
                    o = I_.construct(ClassRef(_q.rsplit('.', 1)[1], _q), a, kw)
                finally:
                    stack.pop()
                    intercept[_q] = h

                def call(I2, a2, kw2):
                    enter(_n)
                    try:
                        return I2.call_method(_q, '__call__', o, a2, kw2)
                    finally:
                        stack.pop()
                if model.method(_q, '__call__') is None:
                    return o
                return PyCallable(call, _n)
            intercept[q] = ctor
    intercept[PKG + '.unparse'] = lambda I_, a, kw: 'PRINTED'
    I.intercept = intercept
    kw = all_off(model)
    kw.update(options or {})
    res = I.explore(lambda: I.call_function(PKG + '.minify', [source], kw))
    if len(res) != 1 or res[0][0][0] != 'return':
        raise AnalysisError('UNDECIDED: staged minify() -> %s %s' % ([r[0] for r in res][:2], res[0][2][:3]))
    return order, events
