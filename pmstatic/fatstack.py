"""Run a function in a thread whose first Python frame is declared enormous.

CPython >= 3.11 keeps Python frames on a per-thread "data stack" made of 16 KiB chunks that are mmap()ed when the recursion crosses a chunk
boundary and munmap()ed when it comes back. The abstract interpreter recurses deeply and oscillates across those boundaries all the time: a
check did ~25 000 mmap/munmap pairs (and as many page faults) per second, which is also what made several checks running side by side crawl in
this sandbox. The first chunk of a thread is sized for the first frame pushed and is never released while that frame lives; declaring a huge
evaluation stack for that frame gives the thread one big, lazily touched chunk that all deeper frames fit into. Purely a performance measure:
nothing depends on it, and on interpreters without the attribute the function is simply called in a plain thread.
"""
import sys
import threading
import _thread

ROOT_FRAME_SLOTS = 8 * 1000 * 1000      # 64 MB of address space, touched lazily
C_STACK = 512 * 1024 * 1024


def _root(fn, box, done):
    try:
        box.append(('ok', fn()))
    except BaseException as e:   # delivered to the caller
        box.append(('exc', e))
    finally:
        done.release()


try:
    _root.__code__ = _root.__code__.replace(co_stacksize=ROOT_FRAME_SLOTS)
except Exception:     # pragma: no cover
    pass


def run(fn):
    if threading.current_thread().name == 'pmstatic-fat':
        return fn()
    old = threading.stack_size()
    try:
        threading.stack_size(C_STACK)
    except Exception:   # pragma: no cover
        pass
    box = []
    done = threading.Semaphore(0)

    def boot():
        threading.current_thread().name = 'pmstatic-fat'
        return fn()
    try:
        _thread.start_new_thread(_root, (boot, box, done))
    finally:
        try:
            threading.stack_size(old)
        except Exception:   # pragma: no cover
            pass
    done.acquire()
    kind, v = box[0]
    if kind == 'exc':
        raise v
    return v
