"""Builders for abstract AST descriptors and the standard hooks that let the abstract interpreter walk them."""
import ast

from .absint import Obj, TOP, Interp, ClassRef, CONST_KIND


def fields_of(cls):
    c = getattr(ast, cls, None)
    return list(getattr(c, '_fields', ())) if c is not None else None


def children(o):
    out = []
    if not isinstance(o, Obj):
        return out
    names = fields_of(o.cls)
    if names is None:
        names = [k for k in o.attrs if not k.startswith('_') and k not in ('namespace', 'bindings')]
    for f in names:
        v = o.attrs.get(f)
        if isinstance(v, Obj):
            out.append(v)
        elif isinstance(v, list):
            out.extend(x for x in v if isinstance(x, Obj))
    return out


def iter_fields(o):
    names = fields_of(o.cls)
    if names is None:
        names = [k for k in o.attrs if not k.startswith('_') and k not in ('namespace', 'bindings')]
    return [(f, o.attrs[f]) for f in names if f in o.attrs]


def set_parents(root, parent=None):
    if parent is not None:
        root.attrs['_parent'] = parent
    for c in children(root):
        set_parents(c, root)
    return root


def set_namespace(root, ns):
    """Give every node under root the namespace attribute `ns` (no nested scopes are created by the builders here)."""
    root.attrs.setdefault('namespace', ns)
    for c in children(root):
        set_namespace(c, ns)
    return root


def walk(o):
    yield o
    for c in children(o):
        for x in walk(c):
            yield x


def std_hooks():
    def get_parent(I, e, args, kw, env):
        n = args[0]
        if isinstance(n, Obj):
            p = n.attrs.get('_parent', None)
            if p is None:
                from .absint import _Raise
                raise _Raise('ValueError(Node has no parent)')
            return p
        return TOP

    def set_parent(I, e, args, kw, env):
        if isinstance(args[0], Obj):
            args[0].attrs['_parent'] = args[1]
        return None

    def icn(I, e, args, kw, env):
        # an iterator, as in the standard library: a loop that leaves it with `break` can come back to it later
        return iter(list(children(args[0]))) if isinstance(args[0], Obj) else TOP

    def ifl(I, e, args, kw, env):
        return iter(list(iter_fields(args[0]))) if isinstance(args[0], Obj) else TOP
    def awalk(I, e, args, kw, env):
        # ast.walk: breadth first over the descriptor tree, in the order of the standard library
        if not isinstance(args[0], Obj):
            return TOP
        out, todo = [], [args[0]]
        while todo:
            n = todo.pop(0)
            out.append(n)
            todo.extend(children(n))
        return iter(out)
    return {'get_parent': get_parent, 'set_parent': set_parent, 'ast.iter_child_nodes': icn, 'ast.iter_fields': ifl, 'iter_child_nodes': icn, 'iter_fields': ifl, 'ast.walk': awalk}


# ---- tiny constructors
def Name(id, ctx='Load'):
    return Obj('Name', id=id, ctx=Obj(ctx))


def Const(v):
    return Obj('Constant', value=v, kind=None)


def Expr(v):
    return Obj('Expr', value=v)


def Call(func, args=None, keywords=None):
    return Obj('Call', func=func, args=list(args or []), keywords=list(keywords or []))


def Attr(value, attr):
    return Obj('Attribute', value=value, attr=attr, ctx=Obj('Load'))


def Compare(left, op, right):
    return Obj('Compare', left=left, ops=[Obj(op)], comparators=[right])


_MISSING_PROP = object()


def public_value(model, obj, name):
    """Value of the public attribute / property `name` of an object of a repository class (a binding: name, allow_rename, reserved, references),
    read the way client code reads it - the private attribute behind it may be called anything."""
    from .absint import Interp, TOP, _Raise, _Abort
    from .model import LostAnchor
    if name in obj.attrs:
        return obj.attrs[name]
    if obj.qual is None or model is None:
        raise LostAnchor('object of class %s has no attribute %s' % (obj.cls, name))
    I = Interp(model, obj.qual.rsplit('.', 1)[0], {})
    res = I.explore(lambda: I.getattr(obj, name))
    if len(res) != 1 or res[0][0][0] != 'return' or res[0][0][1] is TOP:
        raise LostAnchor('objects of %s have no readable public attribute %s' % (obj.qual, name))
    return res[0][0][1]
