"""Shared analysis of the fixed pipeline in python_minifier.minify (used by C01, C05, C09, C10)."""
import ast

from .astutil import calls, local_defs
from .callgraph import CallGraph, Effects
from .facts import Facts
from .model import AnalysisError, src, walk_own

MINIFY = 'python_minifier.minify'

ANNOTATIONS = ['_parent', 'namespace', 'bindings', 'global_names', 'nonlocal_names', 'tainted', 'preserved', 'assigned_names']


class Stage(object):
    def __init__(self, call, name, targets, facts, kind):
        self.call = call
        self.name = name        # function or transformer class name as written
        self.targets = targets  # [(FuncInfo, recv)]
        self.facts = facts
        self.kind = kind        # 'function' | 'transformer'
        self.summary = None

    def __repr__(self):
        return '<stage %s>' % self.name


class Pipeline(object):
    def __init__(self, model, hypothesis=()):
        self.m = model
        self.fi = model.func(MINIFY)
        self.cg = CallGraph(model)
        self.E = Effects(model, self.cg)
        self.F = Facts(self.fi.node, hypothesis=hypothesis)
        self.defs = local_defs(self.fi.node)
        self.stages = []
        for c in calls(self.fi.node):
            f = c.func
            if isinstance(f, ast.Call) and isinstance(f.func, ast.Name):
                q = model.resolve_name(self.fi.module, f.func.id)
                if q in model.classes:
                    t = model.method(q, '__call__')
                    if t is None:
                        continue
                    st = Stage(c, f.func.id, [(t, q)], self.F.facts_at(c), 'transformer')
                    self.stages.append(st)
            elif isinstance(f, ast.Name):
                q = model.resolve_name(self.fi.module, f.id)
                if q in model.funcs:
                    st = Stage(c, f.id, [(model.funcs[q], None)], self.F.facts_at(c), 'function')
                    self.stages.append(st)
        for st in self.stages:
            S = None
            for (t, r) in st.targets:
                s = self.E.summary(t, r)
                if st.kind == 'transformer':
                    init = model.method(r, '__init__')
                    if init is not None:
                        s2 = self.E.summary(init, r)
                        s.merge(s2)
                S = s
            st.summary = S
        self.stages.sort(key=lambda s: (s.call.lineno, s.call.col_offset))

    def stage(self, name):
        hits = [s for s in self.stages if s.name == name]
        if not hits:
            raise AnalysisError('stage %s is not called in minify()' % name)
        return hits[0]

    def reachable_stages(self):
        return [s for s in self.stages if s.facts is not None]

    def did(self, name):
        return ('<did:%s>' % name, True)

    def option_params(self):
        return [p for p in self.fi.params if p not in ('source', 'filename')]
