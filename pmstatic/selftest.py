"""Runs the sensitivity battery (pmstatic.battery) against the current tree using in-memory overlays."""
import importlib
import multiprocessing
import os
import sys
import time

from . import battery
from .model import AnalysisError, Model
from .report import Report


def run_variant(args):
    from . import fatstack
    return fatstack.run(lambda: _run_variant(args))


def _run_variant(args):
    kind, prop, name, rel, old, new, expect, root = args
    t0 = time.time()
    try:
        base = Model(root=root)
        if rel == '@refactoring':
            overlay = battery.refactoring_overlay(base.files, old)
            if overlay is None:
                return (kind, prop, name, 'skipped', 'variant no longer applies to this tree', time.time() - t0)
            text = None
        elif rel.endswith('.py'):
            text = battery.apply(base.files, rel, old, new)
        else:
            with open(os.path.join(base.root, rel), encoding='utf-8') as f:
                cur = f.read()
            text = cur.replace(old, new) if cur.count(old) == 1 else None
        if rel != '@refactoring':
            if text is None:
                return (kind, prop, name, 'skipped', 'variant no longer applies to this tree', time.time() - t0)
            overlay = {rel: text}
        m = Model(root=root, overlay=overlay)
        mod = importlib.import_module('pmstatic.props.' + prop.lower())
        rep = Report(prop, 'quick')
        mod.run(m, rep)
        rep.check_floors()
        viols = rep.violations()
        from .report import load_known
        known = {k['key'] for k in load_known() if k.get('status') == 'known' and k.get('property') == prop}
        viols = [v for v in viols if v.key not in known]
        if kind == 'fire':
            hit = [v for v in viols if expect is None or v.rule.startswith(expect)]
            if hit:
                return (kind, prop, name, 'ok', '%s: %s' % (hit[0].rule, hit[0].detail[:140]), time.time() - t0)
            if viols:
                return (kind, prop, name, 'other-rule', 'expected %s, reported %s' % (expect, sorted({v.rule for v in viols})), time.time() - t0)
            return (kind, prop, name, 'MISSED', 'no violation reported', time.time() - t0)
        else:
            if viols:
                return (kind, prop, name, 'FALSE-ALARM', '%s: %s' % (viols[0].rule, viols[0].detail[:160]), time.time() - t0)
            return (kind, prop, name, 'ok', 'silent', time.time() - t0)
    except AnalysisError as e:
        if kind == 'fire':
            return (kind, prop, name, 'analysis-error', str(e)[:200], time.time() - t0)
        return (kind, prop, name, 'ANALYSIS-ERROR', str(e)[:200], time.time() - t0)
    except Exception as e:  # pragma: no cover
        import traceback
        return (kind, prop, name, 'CRASH', traceback.format_exc()[-400:], time.time() - t0)


def variants(prop=None, root=None):
    out = []
    for (p, name, rel, old, new, expect) in battery.MUST_FIRE:
        if prop is None or p == prop:
            out.append(('fire', p, name, rel, old, new, expect, root))
    for (p, name, rel, old, new) in battery.MUST_STAY_SILENT:
        if prop is None or p == prop:
            out.append(('silent', p, name, rel, old, new, None, root))
    for (name, dirname, props) in battery.REFACTORINGS:
        for p in props:
            if prop is None or p == prop:
                out.append(('silent', p, name, '@refactoring', dirname, None, None, root))
    return out


def run(prop=None, root=None, jobs=None, only=None):
    vs = variants(prop, root)
    if only:
        vs = [v for v in vs if only.lower() in v[2].lower()]
    jobs = jobs or int(os.environ.get('PMSTATIC_BATTERY_JOBS', '12'))
    if jobs > 1 and len(vs) > 1:
        with multiprocessing.get_context('fork').Pool(min(jobs, len(vs))) as pool:
            res = pool.map(run_variant, vs, chunksize=1)
    else:
        res = [run_variant(v) for v in vs]
    return res


def main(argv):
    prop = argv[0].upper() if argv else None
    only = argv[1] if len(argv) > 1 else None
    res = run(prop, only=only)
    bad = 0
    for (kind, p, name, status, detail, dt) in res:
        flag = '' if status in ('ok', 'skipped') else '  <<<<'
        if status not in ('ok', 'skipped', 'analysis-error', 'other-rule'):
            bad += 1
        print('%-6s %-4s %-55s %-14s %5.1fs %s%s' % (kind, p, name[:55], status, dt, detail[:150], flag))
    n_fire = sum(1 for r in res if r[0] == 'fire')
    n_ok = sum(1 for r in res if r[0] == 'fire' and r[3] in ('ok', 'other-rule', 'analysis-error'))
    print('battery: %d must-fire (%d detected), %d must-stay-silent, %d problems' % (n_fire, n_ok, len(res) - n_fire, bad))
    return 1 if bad else 0


if __name__ == '__main__':
    sys.exit(main(sys.argv[1:]))
